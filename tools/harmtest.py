#!/usr/bin/env python3
"""Run our check against a HARMLESS change (a behaviour-preserving rewrite of the code a property lives in): the check
must stay quiet (exit 0, no VIOLATION line).

usage: tools/harmtest.py <change-id> <property> <dir with patch.diff[, equiv.py, README.txt]> [--tiers quick,thorough]

In a scratch worktree of /repo under /tmp (removed afterwards; /repo itself is never touched): the patch applies, the
pinned baseline tests still pass, equiv.py (if present) prints the same digest on the clean and on the changed tree, then
./check <property> with POX_REPO=<worktree>.  Writes /verif/harmless/<change-id>/{patch.diff,equiv.py,README.txt,meta.json}."""
import sys, os, json, subprocess, shutil, time

VERIF = os.path.dirname(os.path.dirname(os.path.abspath(__file__)))

def run(cmd, **kw):
    return subprocess.run(cmd, stdout=subprocess.PIPE, stderr=subprocess.STDOUT, text=True, **kw)

def main():
    sid, prop, src = sys.argv[1], sys.argv[2], sys.argv[3]
    tiers = ["quick"]
    if "--tiers" in sys.argv: tiers = sys.argv[sys.argv.index("--tiers") + 1].split(",")
    wt = "/tmp/harmwt_%s_%d" % (sid, os.getpid())
    meta = {"id": sid, "property": prop, "ran": []}
    run(["git", "-C", "/repo", "worktree", "add", "-q", wt, "HEAD"])
    try:
        env = dict(os.environ, PYTHONPATH=wt)
        eq = os.path.join(src, "equiv.py")
        d0 = None
        if os.path.exists(eq):
            r = run(["timeout", "600", "/venv/bin/python", eq], env=env, cwd=wt); d0 = (r.returncode, r.stdout.strip()[-300:])
        r = run(["git", "-C", wt, "apply", os.path.join(src, "patch.diff")])
        meta["patch_applies"] = (r.returncode == 0)
        if r.returncode != 0:
            meta["error"] = r.stdout[-500:]; return meta
        r = run([os.path.join(VERIF, "tools", "baseline.sh"), wt])
        meta["baseline_ok"] = (r.returncode == 0); meta["baseline_out"] = r.stdout.strip()[-300:]
        if d0 is not None:
            r = run(["timeout", "600", "/venv/bin/python", eq], env=env, cwd=wt); d1 = (r.returncode, r.stdout.strip()[-300:])
            meta["equiv_same"] = (d0 == d1); meta["equiv_clean"] = d0; meta["equiv_changed"] = d1
        meta["check"] = {}
        for tier in tiers:
            t0 = time.time()
            r = run([os.path.join(VERIF, "check"), prop, "--tier", tier], env=dict(os.environ, POX_REPO=wt, VERIF_SEED="1"), cwd=VERIF)
            lines = [l for l in r.stdout.splitlines() if l.startswith("VIOLATION")]
            rep = []
            for l in lines[:3]:
                path = l.split("replay=")[1].split()[0]
                try:
                    j = json.load(open(path)); rep.append({"line": l, "kind": j.get("kind"), "key": j.get("key"), "failure": j.get("failure"), "broken": j.get("broken")})
                except Exception:
                    rep.append({"line": l})
            meta["check"][tier] = {"exit": r.returncode, "violations": rep, "wall_s": round(time.time() - t0, 1), "tail": r.stdout.strip().splitlines()[-1][-200:] if r.stdout.strip() else ""}
        meta["quiet"] = all(v["exit"] == 0 and not v["violations"] for v in meta["check"].values())
        return meta
    finally:
        run(["git", "-C", "/repo", "worktree", "remove", "--force", wt])
        run(["git", "-C", VERIF, "checkout", "--", "lean/PoxModel/Generated"])
        out = os.path.join(VERIF, "harmless", sid)
        if meta.get("patch_applies") and meta.get("baseline_ok"):
            os.makedirs(out, exist_ok=True)
            for f in ("patch.diff", "equiv.py", "README.txt"):
                if os.path.exists(os.path.join(src, f)) and os.path.abspath(src) != os.path.abspath(out): shutil.copy(os.path.join(src, f), os.path.join(out, f))
            json.dump(meta, open(os.path.join(out, "meta.json"), "w"), indent=1)
        print(json.dumps({k: meta.get(k) for k in ("id", "property", "patch_applies", "baseline_ok", "equiv_same", "quiet")}))
        for t, v in meta.get("check", {}).items():
            print(" ", t, "exit", v["exit"], v["wall_s"], "s", [(x.get("kind"), x.get("key") or x.get("broken")) for x in v["violations"]][:2], v["tail"][-120:])

if __name__ == "__main__":
    main()
