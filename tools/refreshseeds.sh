#!/bin/bash
# re-run every stored seeded change (quick tier; thorough as well when quick misses it) and refresh its meta.json
# usage: tools/refreshseeds.sh [property ...]   (default: all);  JOBS parallel runs
here="$(cd "$(dirname "${BASH_SOURCE[0]}")/.." && pwd)"
props="$@"; [ -z "$props" ] && props=$(cat "$here/READY")
for p in $props; do for d in "$here"/seeded/$p-*; do [ -f "$d/patch.diff" ] && [ ! -f "$d/OBSOLETE.txt" ] && echo "$(basename $d) $p $d"; done; done |
  xargs -P ${JOBS:-3} -L 1 bash -c 'out=$('"$here"'/tools/seedtest.py $0 $1 $2 --tiers quick,thorough 2>&1 | grep -v "^POX" | tail -3 | tr "\n" " " | cut -c1-260); echo "$0: $out"'
