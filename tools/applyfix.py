#!/usr/bin/env python3
"""Apply one reviewed repair to /repo as its own unguarded `fix:` commit and record it in known_findings.json.

usage: tools/applyfix.py <patch under fixes/> <property> <finding/defect id> <commit message file> <what failed (one line)> [--closes <open finding id> ...]
The commit message must start with "fix:"."""
import subprocess, json, sys, os
VERIF = os.path.dirname(os.path.dirname(os.path.abspath(__file__)))
def main():
    patch, prop, did, msgfile, what = sys.argv[1:6]
    closes = sys.argv[sys.argv.index("--closes") + 1:] if "--closes" in sys.argv else []
    msg = open(msgfile).read().strip()
    assert msg.startswith("fix:"), "commit message must start with fix:"
    path = os.path.join(VERIF, "fixes", patch)
    r = subprocess.run(["git", "-C", "/repo", "apply", path], capture_output=True, text=True)
    if r.returncode != 0: sys.exit("APPLY FAILED %s\n%s" % (patch, r.stderr))
    subprocess.check_call(["git", "-C", "/repo", "add", "-A"]); subprocess.check_call(["git", "-C", "/repo", "commit", "-q", "-m", msg])
    sha = subprocess.check_output(["git", "-C", "/repo", "rev-parse", "--short", "HEAD"], text=True).strip()
    kf = os.path.join(VERIF, "known_findings.json")
    k = json.load(open(kf))
    k["fixed"].append({"id": did, "property": prop, "commit": sha, "line": "fixed: property=%s %s %s" % (prop, sha, what), "patch": "fixes/" + patch})
    k["fix_commits"].append(sha)
    k["findings"] = [f for f in k["findings"] if f["id"] not in closes]
    json.dump(k, open(kf, "w"), indent=1)
    print("ok", patch, sha, "closed", closes)
main()
