#!/usr/bin/env python3
"""Print the markdown table of seeded changes (seeded/*/meta.json) for DESIGN.md §8.5."""
import json, glob, os, re
here = os.path.dirname(os.path.dirname(os.path.abspath(__file__)))
print("| seeded change | what it is (from its README) | caught by | how |")
print("|---|---|---|---|")
for d in sorted(glob.glob(os.path.join(here, "seeded", "*"))):
    try: m = json.load(open(os.path.join(d, "meta.json")))
    except Exception: continue
    readme = ""
    try:
        txt = open(os.path.join(d, "README.txt")).read()
        lines = [l.strip() for l in txt.splitlines() if l.strip() and not set(l.strip()) <= set("=-#*")]
        readme = " ".join(lines[:2])[:170].replace("|", "/")
    except Exception: pass
    how, tier = "MISSED", "-"
    for t, v in m.get("check", {}).items():
        if v["exit"] == 1:
            tier = t
            kinds = sorted({x.get("kind") or "?" for x in v["violations"]})
            keys = [str(x.get("key") or (x.get("broken") or [["?"]])[0][0]) for x in v["violations"]][:2]
            how = ("oracle (failing input): " if "failing-input" in kinds else "broken obligation, no failing input found: ") + "; ".join(k[:60] for k in keys)
            break
    print("| %s | %s | %s | %s |" % (m["id"], readme, tier, how.replace("|", "/")))
