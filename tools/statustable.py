#!/usr/bin/env python3
"""Markdown status table per property for DESIGN.md §8.4 (from MANIFEST, evidence/, known_findings.json, seeded/)."""
import json, glob, os
here = os.path.dirname(os.path.dirname(os.path.abspath(__file__)))
kf = json.load(open(os.path.join(here, "known_findings.json")))
props = [json.loads(l) for l in open(os.path.join(here, "properties.jsonl"))]
ready = open(os.path.join(here, "READY")).read().split()
print("| prop | registered | theorems audited | quick cases (model-validated) | anchored-line cov. | fixes committed | open findings | seeded changes caught |")
print("|---|---|---|---|---|---|---|---|")
for p in props:
    pid = p["id"]
    try: ev = json.load(open(os.path.join(here, "evidence", pid + ".json")))
    except Exception: ev = None
    c = ev["coverage"] if ev else {}
    fixed = [f["id"] for f in kf["fixed"] if f["property"] == pid]
    openf = [f["id"] for f in kf["findings"] if f["property"] == pid and f.get("status", "open") == "open"]
    seeds = []
    for d in sorted(glob.glob(os.path.join(here, "seeded", pid + "-*"))):
        try:
            m = json.load(open(os.path.join(d, "meta.json")))
            tier = next((t for t, v in m["check"].items() if v["exit"] == 1), None)
            seeds.append("%s:%s" % (m["id"].split("-", 1)[1], tier or "MISSED"))
        except Exception: pass
    print("| %s | %s | %s | %s (%s) [%s] | %s | %s | %s | %s |" % (
        pid, "yes" if pid in ready else "no", c.get("discharged", "-"), c.get("evaluations", "-"), c.get("traces_validated_against_impl", "-"),
        ev["tier"] if ev else "-", (str(c.get("anchored_line_coverage_pct")) + " %") if c.get("anchored_line_coverage_pct") is not None else "n/a",
        ", ".join(fixed) or "-", ", ".join(openf) or "-", ", ".join(seeds) or "-"))
