#!/bin/bash
# usage: cross.sh <seed-id> <check-property>   -- run another property's check against a stored seed
sid=$1; c=$2; wt=/tmp/crosswt_${sid}_$c
git -C /repo worktree add -q $wt HEAD
git -C $wt apply /verif/seeded/$sid/patch.diff || { echo "$sid x $c: patch does not apply"; git -C /repo worktree remove --force $wt; exit; }
out=$(cd /verif && POX_REPO=$wt ./check $c --tier quick 2>&1 | grep -v WARNING | tail -2 | tr "\n" " " | cut -c1-300)
echo "$sid x $c: $out"
git -C /repo worktree remove --force $wt
