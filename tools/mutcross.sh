#!/bin/bash
# run ANOTHER property's check against a stored mutant diff:  tools/mutcross.sh <diff> <property> [more properties]
d=$1; shift
W=/tmp/mutx_$$; git -C /repo worktree add -q --detach $W HEAD
sed 1d "$d" | git -C $W apply - || { echo "does not apply"; git -C /repo worktree remove --force $W; exit 2; }
for p in "$@"; do out=$(POX_REPO=$W VERIF_SEED=1 /verif/check $p --tier quick 2>&1); rc=$?; echo "$(basename $d) vs $p: rc=$rc $(echo "$out" | grep -c '^VIOLATION') violations"; done
git -C /repo worktree remove --force $W; git -C /verif checkout -- lean/PoxModel/Generated 2>/dev/null
