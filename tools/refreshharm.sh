#!/bin/bash
# re-run every stored harmless change (quick tier) and refresh its meta.json;  usage: tools/refreshharm.sh [property ...]
here="$(cd "$(dirname "${BASH_SOURCE[0]}")/.." && pwd)"
props="$@"; [ -z "$props" ] && props=$(cat "$here/READY")
for p in $props; do for d in "$here"/harmless/*; do b=$(basename $d); [ -f "$d/patch.diff" ] || continue
  case "$b" in $p-H*.C*) continue;; $p-H*) echo "$b $p $d";; *.${p}) echo "$b $p $d";; esac; done; done |
  xargs -P ${JOBS:-3} -L 1 bash -c 'out=$('"$here"'/tools/harmtest.py $0 $1 $2 --tiers quick 2>&1 | grep -v "^POX" | tail -2 | tr "\n" " " | cut -c1-220); echo "$0: $out"'
