#!/bin/bash
# usage: crossh.sh <harmless-id> <check-property>
hid=$1; c=$2; wt=/tmp/crosswt_${hid}_$c
git -C /repo worktree add -q $wt HEAD 2>/dev/null
if ! git -C $wt apply /verif/harmless/$hid/patch.diff 2>/dev/null; then echo "$hid x $c: patch does not apply"; git -C /repo worktree remove --force $wt; exit; fi
out=$(cd /verif && POX_REPO=$wt ./check $c --tier quick 2>&1 | grep -v WARNING | grep "VIOLATION\|quick:" | tr "\n" " " | cut -c1-260)
echo "$hid x $c: $out"
git -C /repo worktree remove --force $wt
