#!/usr/bin/env python3
"""First-order mutation run against one property's check.

usage: tools/mutate.py <property> [--n 25] [--seed 1] [--out mutants/<property>]

Generates small syntactic mutants (comparison operator replaced, condition negated, and/or exchanged, integer constant +-1,
arithmetic operator exchanged, a simple statement deleted, `is None`/`is not None` exchanged, slice bound +-1) INSIDE the
functions the property's harness anchors (`CHECK.anchors`, name-resolved on /repo's current source).  Each mutant is applied
in a scratch worktree of /repo under /tmp (removed afterwards; /repo itself is never touched); mutants that break the pinned
baseline tests or do not import are discarded ("killed by tests"); for the others `./check <property> --tier quick` runs with
POX_REPO=<worktree>.  Result per mutant: caught (exit 1; kind of the first violation) or SURVIVED (exit 0).  Survivors are
either equivalent mutants (the property still holds) or gaps of the check: they are written to <out>/<k>.diff with the
verdict table in <out>/results.json for review.  This is a search for gaps of the CHECK, not a proof of anything."""
import sys, os, ast, json, random, subprocess, copy, time

VERIF = os.path.dirname(os.path.dirname(os.path.abspath(__file__)))
sys.path.insert(0, os.path.join(VERIF, "harness"))


def run(cmd, **kw):
    return subprocess.run(cmd, stdout=subprocess.PIPE, stderr=subprocess.STDOUT, text=True, **kw)


CMP = {ast.Lt: [ast.LtE, ast.GtE], ast.LtE: [ast.Lt, ast.Gt], ast.Gt: [ast.GtE, ast.LtE], ast.GtE: [ast.Gt, ast.Lt],
       ast.Eq: [ast.NotEq], ast.NotEq: [ast.Eq], ast.Is: [ast.IsNot], ast.IsNot: [ast.Is], ast.In: [ast.NotIn], ast.NotIn: [ast.In]}
BIN = {ast.Add: [ast.Sub], ast.Sub: [ast.Add], ast.Mult: [ast.FloorDiv], ast.FloorDiv: [ast.Mult], ast.BitAnd: [ast.BitOr], ast.BitOr: [ast.BitAnd],
       ast.LShift: [ast.RShift], ast.RShift: [ast.LShift], ast.Mod: [ast.FloorDiv]}


class Sites(ast.NodeVisitor):
    """collect mutation sites (node id path + kind) inside [lo, hi]"""
    def __init__(self, lo, hi):
        self.lo, self.hi, self.sites = lo, hi, []
    def inside(self, n):
        return hasattr(n, "lineno") and self.lo <= n.lineno <= self.hi
    @staticmethod
    def is_log(node):
        # logging / printing statements: never part of a property
        if isinstance(node, ast.Expr) and isinstance(node.value, ast.Call):
            f = node.value.func; names = []
            while isinstance(f, ast.Attribute): names.append(f.attr); f = f.value
            if isinstance(f, ast.Name): names.append(f.id)
            return any(x in ("log", "logger", "logging", "print", "msg", "warn", "err", "debug", "info", "_log") for x in names)
        return False
    def generic_visit(self, node):
        if self.is_log(node): return
        if self.inside(node):
            if isinstance(node, ast.Compare) and len(node.ops) == 1 and type(node.ops[0]) in CMP:
                for k in range(len(CMP[type(node.ops[0])])): self.sites.append((node, "cmp", k))
            elif isinstance(node, ast.BoolOp):
                self.sites.append((node, "boolop", 0))
            elif isinstance(node, ast.BinOp) and type(node.op) in BIN:
                # not string formatting / concatenation of literals
                if not (isinstance(node.left, (ast.Constant, ast.JoinedStr)) and isinstance(getattr(node.left, "value", ""), (str, bytes))):
                    self.sites.append((node, "binop", 0))
            elif isinstance(node, ast.Constant) and isinstance(node.value, int) and not isinstance(node.value, bool) and abs(node.value) < 70000:
                self.sites.append((node, "const", +1)); self.sites.append((node, "const", -1))
            elif isinstance(node, (ast.If, ast.While)) :
                self.sites.append((node, "negate", 0))
            elif isinstance(node, ast.UnaryOp) and isinstance(node.op, ast.Not):
                self.sites.append((node, "unnot", 0))
            elif isinstance(node, (ast.Expr, ast.Assign, ast.AugAssign)) and not (isinstance(node, ast.Expr) and isinstance(node.value, ast.Constant)):
                self.sites.append((node, "delete", 0))
            elif isinstance(node, ast.Return) and node.value is not None and isinstance(node.value, ast.Constant) and isinstance(node.value.value, bool):
                self.sites.append((node, "retbool", 0))
            elif isinstance(node, (ast.Break, ast.Continue)):
                self.sites.append((node, "brkcont", 0))
        super().generic_visit(node)


def apply(node, kind, arg):
    if kind == "cmp": node.ops = [CMP[type(node.ops[0])][arg]()]
    elif kind == "boolop": node.op = ast.Or() if isinstance(node.op, ast.And) else ast.And()
    elif kind == "binop": node.op = BIN[type(node.op)][0]()
    elif kind == "const": node.value = node.value + arg
    elif kind == "negate": node.test = ast.UnaryOp(op=ast.Not(), operand=node.test)
    elif kind == "unnot":
        node.op = ast.UAdd(); node.operand = ast.Call(func=ast.Name(id="bool", ctx=ast.Load()), args=[node.operand], keywords=[])
    elif kind == "retbool": node.value = ast.Constant(value=not node.value.value)
    elif kind == "brkcont":
        pass


def mutate_source(src, lo, hi, pick):
    """returns (new source, description) — textual replacement of the mutated node's own source segment, so that the rest of
    the file (comments, formatting) is untouched"""
    tree = ast.parse(src)
    v = Sites(lo, hi); v.visit(tree)
    if not v.sites: return None
    node, kind, arg = v.sites[pick % len(v.sites)]
    lines = src.splitlines(keepends=True)
    def seg(n):
        s = sum(len(l) for l in lines[:n.lineno - 1]) + len(lines[n.lineno - 1].encode()[:n.col_offset].decode())
        e = sum(len(l) for l in lines[:n.end_lineno - 1]) + len(lines[n.end_lineno - 1].encode()[:n.end_col_offset].decode())
        return s, e
    if kind == "delete":
        s, e = seg(node); new = "pass"
    elif kind == "brkcont":
        s, e = seg(node); new = "continue" if isinstance(node, ast.Break) else "break"
    elif kind in ("negate",):
        s, e = seg(node.test); new = "not (" + src[s:e] + ")"
    else:
        target = node
        before = ast.unparse(node)
        apply(node, kind, arg)
        s, e = seg(target); new = ast.unparse(node)
        if isinstance(node, (ast.BoolOp, ast.BinOp, ast.Compare, ast.UnaryOp)): new = "(" + new + ")"
    desc = "%s at line %d: %r -> %r" % (kind, node.lineno, src[s:e][:60], new[:60])
    out = src[:s] + new + src[e:]
    try:
        ast.parse(out)
    except SyntaxError:
        return None
    return out, desc, len(v.sites)


def main():
    prop = sys.argv[1]
    n = int(sys.argv[sys.argv.index("--n") + 1]) if "--n" in sys.argv else 25
    seed = int(sys.argv[sys.argv.index("--seed") + 1]) if "--seed" in sys.argv else 1
    out = sys.argv[sys.argv.index("--out") + 1] if "--out" in sys.argv else os.path.join(VERIF, "mutants", prop)
    os.makedirs(out, exist_ok=True)
    import importlib, common
    mod = importlib.import_module(prop.lower())
    chk = mod.CHECK()
    anchors = getattr(chk, "anchors", None)
    if not anchors or not isinstance(anchors, (list, tuple)) or any(len(a) == 3 and isinstance(a[1], int) for a in anchors):
        # anchors computed at set-up time (name-resolved on the current source), or stale literal line numbers
        import contextlib, io
        with contextlib.redirect_stdout(io.StringIO()):
            try: chk.setup()
            except Exception as e: print("setup:", e, file=sys.stderr)
        anchors = chk.anchors
    rng = random.Random(seed * 7919 + int(prop[1:]))
    # enumerate sites per anchor
    pool = []
    for a in anchors:
        rel = a[0]; path = os.path.join("/repo", rel)
        if not os.path.exists(path): continue
        if len(a) == 2 and isinstance(a[1], str):
            r = common.resolve_qualname(path, a[1]); qual = a[1]
        else:
            r = (a[1] or 1, a[2] or 10 ** 9); qual = "%s:%s-%s" % (os.path.basename(rel), a[1], a[2])
        if r is None: continue
        src = open(path).read()
        m = mutate_source(src, r[0], r[1], 0)
        if m is None: continue
        for k in range(m[2]): pool.append((rel, qual, r, k))
    rng.shuffle(pool)
    results, done = [], 0
    wt = "/tmp/mutwt_%s_%d" % (prop, os.getpid())
    run(["git", "-C", "/repo", "worktree", "add", "-q", "--detach", wt, "HEAD"])
    try:
        for rel, qual, r, k in pool:
            if done >= n: break
            src = open(os.path.join("/repo", rel)).read()
            m = mutate_source(src, r[0], r[1], k)
            if m is None: continue
            new, desc, _ = m
            open(os.path.join(wt, rel), "w").write(new)
            diff = run(["git", "-C", wt, "diff"]).stdout
            rec = {"file": rel, "function": qual, "mutation": desc}
            t0 = time.time()
            b = run([os.path.join(VERIF, "tools", "baseline.sh"), wt])
            if b.returncode != 0:
                rec["verdict"] = "killed-by-tests"
            else:
                c = run([os.path.join(VERIF, "check"), prop, "--tier", "quick"], env=dict(os.environ, POX_REPO=wt, VERIF_SEED="1"), cwd=VERIF)
                lines = [l for l in c.stdout.splitlines() if l.startswith("VIOLATION")]
                if c.returncode == 1:
                    kind = "?"
                    try:
                        j = json.load(open(lines[0].split("replay=")[1].split()[0])); kind = j.get("kind") + ":" + str(j.get("key") or (j.get("broken") or [["?"]])[0][0])[:60]
                    except Exception: pass
                    rec["verdict"] = "caught"; rec["how"] = kind
                elif c.returncode == 0:
                    rec["verdict"] = "SURVIVED"
                    open(os.path.join(out, "%s_%03d.diff" % (prop, done)), "w").write("# " + desc + "\n" + diff)
                    rec["diff"] = "%s_%03d.diff" % (prop, done)
                else:
                    rec["verdict"] = "check-exit-%d" % c.returncode; rec["tail"] = c.stdout[-300:]
                done += 1
            rec["wall_s"] = round(time.time() - t0, 1)
            results.append(rec)
            print("%s %-16s %-28s %s %s" % (prop, rec["verdict"], qual[:28], desc[:90], rec.get("how", "")), flush=True)
            run(["git", "-C", wt, "checkout", "-q", "."])
            json.dump(results, open(os.path.join(out, "results.json"), "w"), indent=1)
    finally:
        run(["git", "-C", "/repo", "worktree", "remove", "--force", wt])
        run(["git", "-C", VERIF, "checkout", "--", "lean/PoxModel/Generated"])
    s = {}
    for r in results: s[r["verdict"]] = s.get(r["verdict"], 0) + 1
    print(prop, "summary", s)


main()
