#!/bin/bash
# run the pinned suite in $1 (default /repo) and compare against the 46 stable passes of BASELINE.json
repo="${1:-/repo}"
out=$(mktemp /tmp/junit.XXXXXX.xml)
cd "$repo" && /venv/bin/python -m pytest -ra -q -p no:cacheprovider --timeout=900 --continue-on-collection-errors --junitxml="$out" >/dev/null 2>&1
/venv/bin/python - "$out" <<'PY'
import sys, json, xml.etree.ElementTree as ET
base = set(json.load(open('/root/.vp/BASELINE.json'))['stable_pass'])
passed = set()
for tc in ET.parse(sys.argv[1]).getroot().iter('testcase'):
    if not any(c.tag in ('failure', 'error', 'skipped') for c in tc):
        passed.add(tc.get('classname') + '::' + tc.get('name'))
missing = sorted(base - passed)
print("baseline %d, passing now %d, baseline tests no longer passing: %s" % (len(base), len(passed), missing))
sys.exit(1 if missing else 0)
PY
rc=$?
rm -f "$out"
exit $rc
