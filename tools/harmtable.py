#!/usr/bin/env python3
"""markdown table of the harmless-change corpus (harmless/*/meta.json) for DESIGN.md"""
import json, glob, os
V = os.path.dirname(os.path.dirname(os.path.abspath(__file__)))
print("| harmless change | checked against | what it is (from its README) | check result |")
print("|---|---|---|---|")
for d in sorted(glob.glob(os.path.join(V, "harmless", "*"))):
    try: m = json.load(open(os.path.join(d, "meta.json")))
    except Exception: continue
    rd = ""
    try:
        lines = [l.strip() for l in open(os.path.join(d, "README.txt")) if l.strip() and not set(l.strip()) <= set("=-~")]
        rd = " ".join(lines[:2])[:170]
    except Exception: pass
    res = []
    for t, v in m.get("check", {}).items():
        if v["exit"] == 0 and not v["violations"]: res.append("%s: quiet (exit 0)" % t)
        else:
            x = v["violations"][0] if v["violations"] else {}
            b = x.get("broken") or []
            res.append("%s: ALARM exit %d — %s" % (t, v["exit"], (x.get("key") or (b[0][0] + ": " + str(b[0][1])[:90] if b else "?"))))
    print("| %s | %s | %s | %s |" % (m["id"], m["property"], rd.replace("|", "/"), "; ".join(res) or "patch does not apply"))
