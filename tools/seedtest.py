#!/usr/bin/env python3
"""Confirm a seeded breaking change and run our check against it.

usage: tools/seedtest.py <seed-id> <property> <dir with patch.diff, demo.py[, README.txt]> [--tiers quick,thorough]

Steps (all in a scratch worktree of /repo under /tmp, removed afterwards; /repo itself is never touched):
 1. demo.py exits 0 on the clean tree;  2. patch applies;  3. the pinned baseline tests still pass;
 4. demo.py exits non-zero on the changed tree;  5. ./check <property> with POX_REPO=<worktree>, quick then thorough.
Writes /verif/seeded/<seed-id>/{patch.diff,demo.py,README.txt,meta.json}."""
import sys, os, json, subprocess, shutil, time

VERIF = os.path.dirname(os.path.dirname(os.path.abspath(__file__)))

def run(cmd, **kw):
    return subprocess.run(cmd, stdout=subprocess.PIPE, stderr=subprocess.STDOUT, text=True, **kw)

def main():
    sid, prop, src = sys.argv[1], sys.argv[2], sys.argv[3]
    tiers = ["quick", "thorough"]
    if "--tiers" in sys.argv: tiers = sys.argv[sys.argv.index("--tiers") + 1].split(",")
    wt = "/tmp/seedwt_%s_%d" % (sid, os.getpid())
    meta = {"id": sid, "property": prop, "ran": []}
    run(["git", "-C", "/repo", "worktree", "add", "-q", wt, "HEAD"])
    try:
        env = dict(os.environ, PYTHONPATH=wt)
        demo = os.path.join(src, "demo.py")
        r = run(["timeout", "300", "/venv/bin/python", demo], env=env, cwd=wt)
        meta["demo_clean_exit"] = r.returncode; meta["ran"].append("PYTHONPATH=<clean> python demo.py -> %d" % r.returncode)
        r = run(["git", "-C", wt, "apply", os.path.join(src, "patch.diff")])
        meta["patch_applies"] = (r.returncode == 0)
        if r.returncode != 0:
            meta["error"] = r.stdout[-500:]; return meta
        r = run([os.path.join(VERIF, "tools", "baseline.sh"), wt])
        meta["baseline_ok"] = (r.returncode == 0); meta["baseline_out"] = r.stdout.strip()[-300:]
        meta["ran"].append("tools/baseline.sh <changed tree> -> %d" % r.returncode)
        r = run(["timeout", "300", "/venv/bin/python", demo], env=env, cwd=wt)
        meta["demo_changed_exit"] = r.returncode; meta["demo_changed_out"] = r.stdout.strip()[-400:]
        meta["ran"].append("PYTHONPATH=<changed> python demo.py -> %d" % r.returncode)
        meta["confirmed"] = bool(meta["demo_clean_exit"] == 0 and meta["baseline_ok"] and meta["demo_changed_exit"] != 0)
        meta["check"] = {}
        for tier in tiers:
            t0 = time.time()
            r = run([os.path.join(VERIF, "check"), prop, "--tier", tier], env=dict(os.environ, POX_REPO=wt, VERIF_SEED="1"), cwd=VERIF)
            lines = [l for l in r.stdout.splitlines() if l.startswith("VIOLATION")]
            rep = []
            for l in lines[:3]:
                path = l.split("replay=")[1].split()[0]
                try:
                    j = json.load(open(path)); rep.append({"line": l, "kind": j.get("kind"), "key": j.get("key"), "failure": j.get("failure"), "broken": j.get("broken")})
                except Exception:
                    rep.append({"line": l})
            meta["check"][tier] = {"exit": r.returncode, "violations": rep, "wall_s": round(time.time() - t0, 1), "tail": r.stdout.strip().splitlines()[-1][-200:] if r.stdout.strip() else ""}
            meta["ran"].append("POX_REPO=<changed> ./check %s --tier %s -> %d" % (prop, tier, r.returncode))
            if r.returncode == 1: break
        meta["caught"] = any(v["exit"] == 1 for v in meta["check"].values())
        return meta
    finally:
        run(["git", "-C", "/repo", "worktree", "remove", "--force", wt])
        # a run with POX_REPO=<changed tree> lets the translators rewrite lean/PoxModel/Generated from that tree: put the
        # committed files (generated from /repo) back
        run(["git", "-C", VERIF, "checkout", "--", "lean/PoxModel/Generated"])
        out = os.path.join(VERIF, "seeded", sid)
        if meta.get("confirmed"):
            os.makedirs(out, exist_ok=True)
            for f in ("patch.diff", "demo.py", "README.txt"):
                if os.path.exists(os.path.join(src, f)) and os.path.abspath(src) != os.path.abspath(out): shutil.copy(os.path.join(src, f), os.path.join(out, f))
            json.dump(meta, open(os.path.join(out, "meta.json"), "w"), indent=1)
        print(json.dumps({k: meta.get(k) for k in ("id", "property", "confirmed", "caught", "demo_clean_exit", "demo_changed_exit", "baseline_ok", "patch_applies")}))
        for t, v in meta.get("check", {}).items():
            print(" ", t, "exit", v["exit"], v["wall_s"], "s", [(x.get("kind"), x.get("key") or x.get("broken")) for x in v["violations"]][:2])

if __name__ == "__main__":
    main()
