#!/usr/bin/env python3
"""regenerate the three generated tables of DESIGN.md §8.4 / §8.6 / §8.7 in place"""
import os, subprocess, re
V = os.path.dirname(os.path.dirname(os.path.abspath(__file__)))
p = os.path.join(V, "DESIGN.md")
s = open(p).read()
def table(tool): return subprocess.run(["python3", os.path.join(V, "tools", tool)], stdout=subprocess.PIPE, text=True).stdout.strip() + "\n"
def replace(s, header_prefix, new, after):
    i = s.find(header_prefix, s.index(after))
    if i < 0:                                  # no table yet: put it at the end of that section
        j = s.find("\n### ", s.index(after) + 5)
        j = len(s) if j < 0 else j
        return s[:j].rstrip("\n") + "\n\n" + new + "\n" + s[j:]
    j = s.find("\n\n", i)
    j = len(s) if j < 0 else j
    return s[:i] + new.rstrip("\n") + s[j:]
s = replace(s, "| prop | registered |", table("statustable.py"), "### 8.4 Per-property status")
s = replace(s, "| seeded change | what it is", table("seedtable.py"), "### 8.6 Seeded changes")
s = replace(s, "| harmless change | checked against", table("harmtable.py"), "### 8.7 Harmless changes")
open(p, "w").write(s)
print("ok")
