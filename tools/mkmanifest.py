#!/usr/bin/env python3
"""Regenerate MANIFEST.json from the CHECK classes in harness/ (run after adding or changing a check)."""
import sys, os, json, importlib
here = os.path.dirname(os.path.dirname(os.path.abspath(__file__)))
sys.path.insert(0, os.path.join(here, "harness"))
props = [json.loads(l) for l in open(os.path.join(here, "properties.jsonl"))]
NOT_APPLICABLE = {}     # property id -> reason (only for properties no executable model can express)
checks, na = [], []
for p in props:
    pid = p["id"]
    if pid in NOT_APPLICABLE:
        na.append({"property_id": pid, "reason": NOT_APPLICABLE[pid]}); continue
    try:
        if pid not in open(os.path.join(here, "READY")).read().split():
            raise ModuleNotFoundError(name=pid.lower())
        mod = importlib.import_module(pid.lower())
    except ModuleNotFoundError as e:
        if e.name != pid.lower(): raise
        na.append({"property_id": pid, "reason": "check not built yet (build in progress; see DESIGN.md §7) — not a statement that the technique cannot apply"})
        continue
    c = mod.CHECK
    checks.append({
        "property_id": pid,
        "quick_cmd": "./check %s --tier quick" % pid,
        "thorough_cmd": "./check %s --tier thorough" % pid,
        "evidence_file": "evidence/%s.json" % pid,
        "replay_cmd_template": "./check %s --replay {path}" % pid,
        "engine": "lean4-proof+correspondence",
        "level_claimed": {"category": "proof", "text": c.level_text, "design_ref": c.design_ref},
        "level_note": c.level_note,
        "technique": c.technique,
    })
man = {
    "version": 1,
    "setup_cmd": "./setup.sh",
    "hooks": {"guard": "NOXREPO_POX_VERIF", "enable": "no hooks are compiled into /repo: harnesses construct objects directly and monkey-patch module attributes from outside (DESIGN.md §1); the guard name is reserved and unused",
              "baseline_off_cmd": "cd /repo && /venv/bin/python -m pytest -ra -q -p no:cacheprovider --timeout=900 --continue-on-collection-errors",
              "source_commits": json.load(open(os.path.join(here, "known_findings.json"))).get("fix_commits", []) if os.path.exists(os.path.join(here, "known_findings.json")) else [],
              "add_only": True},
    "engines": [{"name": "lean4-proof+correspondence", "path": "check", "serves_properties": [c["property_id"] for c in checks],
                 "kind_free_text": "Lean 4 theorems over a hand-written executable model (lean/PoxModel), model tied to /repo on every run by translators (harness/translate) and by a differential correspondence run of the compiled model driver against the real code in-process; failing-input search with a property oracle when either breaks"}],
    "checks": checks,
    "not_applicable": na,
    "notes": "See DESIGN.md. Exit 0 pass, 1 violation, 2 infrastructure failure. POX_REPO overrides the repository path (default /repo) for experiments; registered commands use /repo.",
}
json.dump(man, open(os.path.join(here, "MANIFEST.json"), "w"), indent=1)
print("checks:", [c["property_id"] for c in checks], "not yet:", [n["property_id"] for n in na])
