#!/bin/bash
# run every registered check (quick by default) and print one line per check
tier=${1:-quick}
here="$(cd "$(dirname "${BASH_SOURCE[0]}")/.." && pwd)"
for p in $(cat "$here/READY"); do echo $p; done | xargs -P ${JOBS:-4} -I{} bash -c "cd $here && out=\$(./check {} --tier $tier 2>&1); rc=\$?; echo \"{} rc=\$rc \$(echo \"\$out\" | grep -c '^KNOWN-FINDING') known; \$(echo \"\$out\" | grep -E '^VIOLATION' | head -2 | tr '\n' ' ') \$(echo \"\$out\" | tail -1 | cut -c1-150)\""
