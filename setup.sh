#!/bin/bash
# MANIFEST.setup_cmd: build the Lean library (all property theorems) and every model driver, offline.
set -e
here="$(cd "$(dirname "${BASH_SOURCE[0]}")" && pwd)"
cd "$here/lean"
targets="PoxModel"
for f in Drivers/C*.lean; do
  n=$(basename "$f" .lean | tr 'A-Z' 'a-z')
  targets="$targets drv_$n"
done
lake build $targets
