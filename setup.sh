#!/bin/bash
# MANIFEST.setup_cmd: build the Lean property modules and model drivers of every registered check (file READY), offline.
set -e
here="$(cd "$(dirname "${BASH_SOURCE[0]}")" && pwd)"
cd "$here/lean"
targets=""
for p in $(cat "$here/READY"); do
  n=$(echo "$p" | tr 'A-Z' 'a-z')
  for f in PoxModel/Properties/${p}*.lean; do
    targets="$targets PoxModel.Properties.$(basename "$f" .lean)"
  done
  targets="$targets drv_$n"
done
lake build $targets
