import sys, os, threading as _rt, random, select as _rsel, time as _rtime, unittest, logging
sys.path.insert(0,'/repo')
logging.disable(logging.CRITICAL)

class MT:  # managed thread record
    def __init__(s, name): s.name=name; s.sem=_rt.Semaphore(0); s.blocked=None; s.timeout=False; s.done=False; s.timed_out=False; s.real=None

class Ctl:
    def __init__(s, rng, trace_files):
        s.rng=rng; s.threads=[]; s.ctl=_rt.Semaphore(0); s.trace=[]; s.files=trace_files; s.by_ident={}; s.steps=0
    def me(s): return s.by_ident.get(_rt.get_ident())
    def spawn(s, name, fn):
        t=MT(name); s.threads.append(t)
        def boot():
            s.by_ident[_rt.get_ident()]=t
            t.sem.acquire()
            sys.settrace(s._gtrace)
            try: fn()
            finally:
                sys.settrace(None); t.done=True; s.ctl.release()
        t.real=_rt.Thread(target=boot, daemon=True); t.real.start()
        return t
    def _gtrace(s, frame, event, arg):
        if frame.f_code.co_filename.endswith(s.files): return s._ltrace
        return None
    def _ltrace(s, frame, event, arg):
        if event=='line':
            s.yield_point((frame.f_code.co_name, frame.f_lineno))
        return s._ltrace
    def yield_point(s, site, blocked=None, timeout=False):
        t=s.me()
        if t is None: return False
        old=sys.gettrace(); sys.settrace(None)
        s.trace.append((t.name, site))
        t.blocked=blocked; t.timeout=timeout; t.timed_out=False
        s.ctl.release(); t.sem.acquire()
        t.blocked=None
        sys.settrace(old)
        return t.timed_out
    def run(s, max_steps=20000, stop=None):
        while True:
            s.steps+=1
            if s.steps>max_steps: return 'budget'
            live=[t for t in s.threads if not t.done]
            if not live: return 'alldone'
            en=[t for t in live if t.blocked is None or t.blocked()]
            if not en:
                if stop and stop(): return 'quiescent'
                to=[t for t in live if t.timeout]
                if not to: return 'deadlock'
                t=s.rng.choice(to); t.timed_out=True
            else:
                t=s.rng.choice(en)
            t.sem.release(); s.ctl.acquire()

CTL=None
class FLock:
    def __init__(s): s.locked=False
    def acquire(s, blocking=True, timeout=-1):
        while True:
            CTL.yield_point(('Lock.acquire',id(s)%1000), blocked=(lambda: not s.locked) if s.locked else None)
            if not s.locked: s.locked=True; return True
            if not blocking: return False
    def release(s): s.locked=False; CTL.yield_point(('Lock.release',id(s)%1000))
    def __enter__(s): s.acquire(); return s
    def __exit__(s,*a): s.release()
class FEvent:
    def __init__(s): s.flag=False
    def set(s): s.flag=True; CTL.yield_point(('Event.set',0))
    def clear(s): s.flag=False; CTL.yield_point(('Event.clear',0))
    def is_set(s): return s.flag
    def wait(s, timeout=None):
        if s.flag: return True
        to=CTL.yield_point(('Event.wait',0), blocked=lambda: s.flag, timeout=timeout is not None)
        return s.flag
class FThread:
    def __init__(s, target=None, args=(), kwargs={}, **kw): s.target=target; s.args=args; s.kwargs=kwargs; s.daemon=False; s.mt=None
    def start(s): s.mt=CTL.spawn('T%d'%len(CTL.threads), lambda: s.target(*s.args, **s.kwargs))
class FThreading:
    Lock=FLock; Event=FEvent; Thread=FThread; local=_rt.local; RLock=FLock
    @staticmethod
    def current_thread(): return CTL.me()
def vselect(r,w,x,timeout=None):
    def ready():
        a,b,c=_rsel.select(r,w,x,0); return bool(a or b or c)
    if not ready():
        CTL.yield_point(('select',0), blocked=ready, timeout=timeout is not None)
    return _rsel.select(r,w,x,0)

import pox.lib.recoco.recoco as recoco
recoco.threading=FThreading; recoco.Thread=FThread
class FSel: select=staticmethod(vselect)
recoco.select=FSel

def trial(seed):
    global CTL
    rng=random.Random(seed)
    CTL=Ctl(rng, 'recoco.py')
    sched=recoco.Scheduler(isDefaultScheduler=True, startInThread=False, threaded_selecthub=False)
    sched._selectHub._select_func=vselect
    log=[]
    mts=CTL.spawn('S', sched.run); sched._thread=mts   # schedule() compares current_thread() is self._thread
    def foreign(k):
        def f():
            for i in range(2):
                sched.callLater(lambda k=k,i=i: log.append((k,i,CTL.me().name)))
        return f
    CTL.spawn('A', foreign('A')); CTL.spawn('B', foreign('B'))
    def stop(): return all(t.done for t in CTL.threads if t.name in 'AB') and len(log)==4
    r=CTL.run(stop=stop)
    return r, log, len(CTL.trace)
t0=_rtime.time(); bad=0; res={}
for seed in range(100):
    r,log,n=trial(seed)
    res[r]=res.get(r,0)+1
    okA=[i for k,i,_ in log if k=='A']==[0,1]; okB=[i for k,i,_ in log if k=='B']==[0,1]
    if not(okA and okB and all(x[2]=='S' for x in log)): bad+=1; print('seed',seed,r,log)
print(res, 'bad',bad, 'time',round(_rtime.time()-t0,2), 'trace len', n)
