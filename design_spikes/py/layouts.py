"""Prototype: extract Layout descriptors from pack()/unpack() bodies by AST pattern matching."""
import ast, sys, struct, json
FMT = {'B':1,'H':2,'L':4,'I':4,'Q':8,'b':1,'h':2,'l':4,'i':4,'q':8}
def fmt_widths(fmt):
    assert fmt[0]=='!', fmt
    out=[]; num=''
    for c in fmt[1:]:
        if c.isdigit(): num+=c; continue
        if c=='s': out.append(('s', int(num))); num=''; continue
        n=int(num) if num else 1; num=''
        out += [('u', FMT[c])]*n
    return out
class Irregular(Exception): pass
CONSTS={'_PAD':1,'_PAD2':2,'_PAD3':3,'_PAD4':4,'_PAD6':6,'OFP_MAX_PORT_NAME_LEN':16,'DESC_STR_LEN':256,'SERIAL_NUM_LEN':32,'OFP_MAX_TABLE_NAME_LEN':32}
def name_of(e):
    u=ast.unparse(e)
    if u.startswith('self.'): return ('field', u[5:])
    if u=='len(self)': return ('lenself',0)
    if isinstance(e, ast.Constant) and isinstance(e.value,int): return ('const', e.value)
    return ('expr', u)
def pack_value(v, acc):
    """v: expression appended to packed"""
    u=ast.unparse(v)
    if isinstance(v, ast.Call) and u.startswith('struct.pack('):
        fmt=v.args[0].value; ws=fmt_widths(fmt); args=v.args[1:]
        if len(ws)!=len(args): raise Irregular('fmt/arg mismatch '+u)
        for (k,w),a in zip(ws,args):
            acc.append((('blob' if k=='s' else 'uint'), w, name_of(a)))
        return
    if u in CONSTS or (u.startswith('of.') and u[3:] in CONSTS): acc.append(('pad', CONSTS[u.replace('of.','')], None)); return
    if isinstance(v, ast.BinOp) and isinstance(v.op, ast.Mult) and ast.unparse(v.left)=='_PAD': acc.append(('pad', v.right.value, None)); return
    if u.endswith('.pack(self)'): acc.append(('super', u.split('.pack')[0], None)); return
    if u.startswith('_packzs('): acc.append(('zstr', CONSTS[ast.unparse(v.args[1])], name_of(v.args[0]))); return
    if isinstance(v, ast.IfExp) and 'toRaw' in u: acc.append(('blob',6,name_of(v.body) if 'toRaw' not in ast.unparse(v.body) else name_of(v.orelse.func.value if isinstance(v.orelse,ast.Call) else v.orelse))); return
    if u.endswith('.toRaw()'): acc.append(('blob',6,name_of(v.func.value))); return
    if u.startswith('self.match.pack('): acc.append(('sub','ofp_match'+('/fm' if 'flow_mod=True' in u else ''),('field','match'))); return
    if u=='self.desc.pack()': acc.append(('sub','ofp_phy_port',('field','desc'))); return
    if u in ('self.data','self.body','body','self._pack_body()','self.body_data'): acc.append(('rest',0,('field',u))); return
    raise Irregular('pack piece '+u)
def pack_layout(fn):
    acc=[]
    for s in fn.body:
        if isinstance(s, ast.Expr) and isinstance(s.value, ast.Constant): continue
        if isinstance(s, ast.Assert): continue
        u=ast.unparse(s)
        if isinstance(s, ast.Assign) and len(s.targets)==1 and isinstance(s.targets[0],ast.Name) and s.targets[0].id in('packed','p'):
            if u in ("packed = b''","p = b''"): continue
            pack_value(s.value, acc); continue
        if isinstance(s, ast.Assign) and u=='body = self._pack_body()': continue
        if isinstance(s, ast.AugAssign) and isinstance(s.target,ast.Name) and s.target.id in('packed','p'):
            pack_value(s.value, acc); continue
        if isinstance(s, ast.Return) and ast.unparse(s.value) in ('packed','p'): continue
        if isinstance(s, ast.Return): pack_value(s.value, acc); continue
        if isinstance(s, ast.For) and len(s.body)==1 and ast.unparse(s.body[0]) in ('packed += i.pack()',):
            acc.append(('list', 0, name_of(s.iter))); continue
        if isinstance(s, ast.If) and 'isinstance' in ast.unparse(s.test) and ('toRaw' in u):
            # bytes-or-EthAddr branch
            tgt=[n for n in ast.walk(s) if isinstance(n, ast.Attribute) and isinstance(n.value, ast.Name) and n.value.id=='self']
            acc.append(('blob',6,('field',tgt[0].attr))); continue
        raise Irregular('stmt '+u.split('\n')[0])
    return acc
def unpack_layout(fn):
    acc=[]
    for s in fn.body:
        u=ast.unparse(s)
        if isinstance(s, ast.Assert): continue
        if isinstance(s, ast.Assign) and u=='_offset = offset': continue
        if isinstance(s, ast.Return): continue
        if isinstance(s, ast.Assign) and isinstance(s.value, ast.Call):
            f=ast.unparse(s.value.func); t=s.targets[0]
            if f in ('_unpack','of._unpack'):
                ws=fmt_widths(s.value.args[0].value)
                names=[ast.unparse(x) for x in t.elts[1].elts]
                if len(ws)!=len(names): raise Irregular('unpack fmt mismatch '+u)
                for (k,w),n in zip(ws,names):
                    acc.append((('blob' if k=='s' else 'uint'), w, ('field',n[5:]) if n.startswith('self.') else ('local',n)))
                continue
            if f in ('_skip','of._skip'): acc.append(('pad', s.value.args[2].value if isinstance(s.value.args[2],ast.Constant) else ast.unparse(s.value.args[2]), None)); continue
            if f=='_readether': acc.append(('blob',6,('field',ast.unparse(t.elts[1])[5:]))); continue
            if f=='_readip': acc.append(('uint',4,('field',ast.unparse(t.elts[1])[5:]))); continue
            if f=='_readzs': acc.append(('zstr',CONSTS[ast.unparse(s.value.args[2])],('field',ast.unparse(t.elts[1])[5:]))); continue
            if f=='self._unpack_header': acc.append(('super','ofp_header',None)); continue
            if f=='self.match.unpack': acc.append(('sub','ofp_match'+('/fm' if 'flow_mod=True' in u else ''),('field','match'))); continue
            if f=='self.desc.unpack': acc.append(('sub','ofp_phy_port',('field','desc'))); continue
            if f=='_unpack_actions': acc.append(('list',ast.unparse(s.value.args[1]),('field',ast.unparse(t.elts[1])[5:]))); continue
            if f=='_read': acc.append(('rest',ast.unparse(s.value.args[2]),('field',ast.unparse(t.elts[1])[5:]))); continue
        raise Irregular('stmt '+u.split('\n')[0])
    return acc
def main(path):
    tree=ast.parse(open(path).read())
    res={}
    for node in tree.body:
        if not isinstance(node, ast.ClassDef): continue
        m={f.name:f for f in node.body if isinstance(f, ast.FunctionDef)}
        pk=m.get('pack') or m.get('_pack_body'); up=m.get('unpack') or m.get('_unpack_body')
        if not pk: continue
        ent={}
        for k,fn,ex in (('pack',pk,pack_layout),('unpack',up,unpack_layout)):
            if fn is None: ent[k]='(inherited)'; continue
            try: ent[k]=ex(fn)
            except Irregular as e: ent[k]='IRREGULAR: '+str(e)
        res[node.name]=ent
    return res
if __name__=='__main__':
    r=main(sys.argv[1]); reg=0
    for k,v in r.items():
        irr=[x for x in v.values() if isinstance(x,str) and x.startswith('IRR')]
        if not irr: reg+=1
        else: print(k, irr)
    print(len(r),'classes;',reg,'regular on both sides')
    if len(sys.argv)>2: print(json.dumps(r[sys.argv[2]],indent=0))
