import sys, unittest, logging, random, subprocess, itertools
sys.path.insert(0,'/repo')
logging.disable(logging.CRITICAL)
import pox.core
core = pox.core.core
import pox.openflow
pox.openflow.launch()
import pox.openflow.discovery as disc
import pox.openflow.spanning_tree as st
from pox.lib.revent import EventMixin
D = disc.Discovery.__new__(disc.Discovery); EventMixin.__init__(D); D.adjacency = {}
core.register('openflow_discovery', D)
L = disc.Link
rng = random.Random(7)
cases=[]
for _ in range(60):
    n = rng.randint(2,6)
    D.adjacency.clear()
    port = {i:1 for i in range(1,n+1)}
    links=[]
    for a,b in itertools.combinations(range(1,n+1),2):
        for k in range(rng.choice([0,0,1,1,2])):
            pa=port[a]; port[a]+=1; pb=port[b]; port[b]+=1
            dirs = rng.choice([(1,1),(1,1),(1,0),(0,1)])
            if dirs[0]: links.append(L(a,pa,b,pb))
            if dirs[1]: links.append(L(b,pb,a,pa))
    rng.shuffle(links)
    for l in links: D.adjacency[l]=0
    tree = st._calc_spanning_tree()
    pyedges = sorted(set(tuple(sorted((k,w))) for k,v in tree.items() for (w,p) in v))
    # culled adjacency in dict order, as the python builds it (reconstruct by re-running the culling part)
    from collections import defaultdict
    adj = defaultdict(lambda:defaultdict(lambda:[])); switches=set()
    for l in D.adjacency:
        adj[l.dpid1][l.dpid2].append(l); switches.add(l.dpid1); switches.add(l.dpid2)
    def flip(l): return L(l[2],l[3],l[0],l[1])
    for s1 in switches:
        for s2 in switches:
            if s2 not in adj[s1]: continue
            if not isinstance(adj[s1][s2], list): continue
            good=False
            for l in adj[s1][s2]:
                if flip(l) in D.adjacency:
                    adj[s1][s2]=l.port1; adj[s2][s1]=l.port2; good=True; break
            if not good:
                del adj[s1][s2]
                if s1 in adj[s2]: del adj[s2][s1]
    nb = {s:list(adj[s].keys()) for s in switches}
    cases.append((sorted(switches), nb, pyedges))
# emit lean
out=["import T.Model.STree","open Pox.STree",
 "def mk (l : List (Nat × List Nat)) : Nat → List Nat := fun v => ((l.find? (·.1 == v)).map (·.2)).getD []",
 "def norm (es : List (Nat × Nat)) : List (Nat × Nat) := es.map (fun (a,b) => if a ≤ b then (a,b) else (b,a))"]
for sw,nb,py in cases:
    l = "[" + ",".join("(%d,[%s])"%(k,",".join(map(str,v))) for k,v in nb.items()) + "]"
    out.append("#eval norm (run (mk %s) %d (init [%s])).edges" % (l, 2*len(sw)+1, ",".join(map(str,sw))))
open('/tmp/leantest/T/T/Proofs/STdiff.lean','w').write("\n".join(out)+"\n")
import json; json.dump([c[2] for c in cases], open('/tmp/spike/py_edges.json','w'))
