import sys, unittest, logging, struct, signal
sys.path.insert(0, sys.argv[1] if len(sys.argv)>1 else '/repo'); logging.disable(logging.CRITICAL)
def t(name,f):
    try: r=f(); print(name,'->',repr(r)[:90])
    except BaseException as e: print(name,'RAISES',type(e).__name__,str(e)[:70])
from pox.lib.revent import *
class E(Event): pass
class S(EventMixin): _eventMixin_events=set([E])
s=S(); log=[]
def A(e):
    log.append('A')
    if log.count('A')==1: s.addListener(E, C, priority=5)
def B(e): log.append('B')
def C(e): log.append('C')
s.addListener(E,A); s.addListener(E,B); s.raiseEvent(E()); s.raiseEvent(E())
print('D1 trace (two raises):', log)
import pox.core; core=pox.core.core
ups=[]; core.addListener(pox.core.UpEvent, lambda e: ups.append('up'))
core.addListener(pox.core.GoingUpEvent, lambda e: e.get_deferral()())
core.goUp(); print('D2 ups', ups)
import pox.openflow; pox.openflow.launch()
import pox.openflow.of_01 as of_01, pox.openflow.libopenflow_01 as of
class DS: sending=False
of_01.deferredSender=DS()
class FS:
    def __init__(s,data=b''): s.out=b''; s.data=data
    def send(s,d): s.out+=d; return len(d)
    def recv(s,n): d=s.data[:n]; s.data=s.data[n:]; return d
    def shutdown(s,*a): pass
    def close(s): pass
def mk(dpid):
    so=FS(); c=of_01.Connection(so); hs=c.handlers
    hs[of.OFPT_HELLO](c, of.ofp_hello()); hs[of.OFPT_FEATURES_REPLY](c, of.ofp_features_reply(datapath_id=dpid))
    xid=struct.unpack('!L', so.out[-4:])[0]; c.handlers[of.OFPT_BARRIER_REPLY](c, of.ofp_barrier_reply(xid=xid)); return c
c1=mk(1); c2=mk(1); c1.close()
print('D3 registry after stale close', list(core.openflow.connections.keys()), core.openflow.getConnection(1) is c2)
c=of_01.Connection(FS(struct.pack('!BBHL',1,0,0,5)))
signal.signal(signal.SIGALRM, lambda *a: (_ for _ in ()).throw(TimeoutError('spin'))); signal.alarm(2)
t('D4 zero-len hello read', lambda: c.read()); signal.alarm(0)
c3=mk(3); got=[]
c3.addListenerByName('FlowStatsReceived', lambda e: got.append([p.xid for p in e.ofp]))
def part(xid,more):
    m=of.ofp_stats_reply(xid=xid,type=of.OFPST_FLOW,body=[of.ofp_flow_stats()]); m.flags=1 if more else 0; return m
for m in [part(10,True),part(11,False),part(10,False)]:
    try: c3.handlers[of.OFPT_STATS_REPLY](c3,m)
    except Exception as e: print('exc',type(e).__name__)
print('D18 stats events', got)
t('D11 table_stats.pack', lambda: len(of.ofp_table_stats(name='x').pack()))
from pox.lib.packet.packet_utils import checksum
t('D12 checksum odd', lambda: checksum(b'abc'))
from pox.lib.packet import ethernet
e=ethernet(raw=b'\x01'*6+b'\x02'*6+b'\x81\x00'+b'\x10\x05\x08\x00'+b'z'*30)
t('D13 vlan cfi repack equal', lambda: e.pack()==e.raw)
raw2=b'\x01\x23\x20\x00\x00\x01'+b'\x02'*6+b'\x88\xcc'+struct.pack('!H',(1<<9)|7)+b'\x07abcdef'+struct.pack('!H',(2<<9)|3)+b'\x0212'+struct.pack('!H',(3<<9)|2)+b'\x00'
t('D14 lldp trunc', lambda: ethernet(raw=raw2).parsed)
from pox.lib.addresses import IPAddr6
t('D16 nm2cidr6', lambda: IPAddr6.netmask_to_cidr(IPAddr6.cidr_to_netmask(64)))
from pox.datapaths.switch import SoftwareSwitch
from pox.lib.packet import ipv4, udp
from pox.lib.addresses import EthAddr, IPAddr
sw=SoftwareSwitch(dpid=1,ports=3,max_buffers=2); sent=[]
class Conn:
    def send(s,m): sent.append(m)
    def set_message_handler(s,h): pass
sw.set_connection(Conn())
p=ethernet(src=EthAddr('00:00:00:00:00:01'),dst=EthAddr('00:00:00:00:00:02'),type=0x800)
p.payload=ipv4(srcip=IPAddr('1.2.3.4'),dstip=IPAddr('5.6.7.8'),protocol=17); p.payload.payload=udp(srcport=1,dstport=2); p.payload.payload.payload=b'x'*201
t('D7 enqueue', lambda: sw.rx_message(None, of.ofp_packet_out(data=p.pack(), in_port=1, actions=[of.ofp_action_enqueue(port=2,queue_id=0)])))
t('D9 bad command', lambda: [sw.rx_message(None, of.ofp_flow_mod(command=9)), (sent[-1].type, sent[-1].code)][1])
sent.clear(); sw.rx_packet(p,1); pi=sent[-1]
print('D19 packet_in total_len', pi.total_len, 'data', len(pi.data), 'frame', len(p.pack()))
from pox.lib.ioworker import RecocoIOWorker
class SS:
    def __init__(s,k): s.k=k
    def send(s,d,f=0): return min(s.k,len(d))
class P:
    def ping(s): pass
w=RecocoIOWorker(SS(100)); w.pinger=P(); t('D21 send_fast full', lambda: (w.send_fast(b'hello'), w.send_buf))
w=RecocoIOWorker(SS(2)); w.pinger=P(); t('D21 send_fast partial', lambda: (w.send_fast(b'hello'), w.send_buf))
raw=b'\x01'*6+b'\x02'*6+b'\x00\x20'+b'\xaa\xaa\x03\x00\x00\x00\x08\x00'+b'E'*24
t('D22 snap dl_type', lambda: hex(of.ofp_match.from_packet(ethernet(raw=raw),1).dl_type))
