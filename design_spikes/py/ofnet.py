import sys, unittest, logging, time
sys.path.insert(0,'/repo')
logging.disable(logging.CRITICAL)
class Clock: now=1000.0
clock=Clock(); time.time=lambda: clock.now
import pox.core
core=pox.core.core
import pox.openflow
pox.openflow.launch()
import pox.openflow.of_01 as of_01
import pox.openflow.libopenflow_01 as of
from pox.datapaths.switch import SoftwareSwitch, OFConnection, DpPacketOut
from pox.lib.ioworker import IOWorker
from pox.lib.packet import ethernet, ipv4, udp
from pox.lib.addresses import EthAddr, IPAddr
import pox.forwarding.l2_learning as l2
class DS: sending=False
of_01.deferredSender=DS()
core.registerNew(l2.l2_learning, False)

class Pipe:
    """controller-side fake socket <-> switch-side IOWorker"""
    def __init__(s): s.to_switch=b''; s.to_ctl=b''
class CtlSock:
    def __init__(s,p): s.p=p
    def send(s,d): s.p.to_switch+=d; return len(d)
    def recv(s,n): d=s.p.to_ctl[:n]; s.p.to_ctl=s.p.to_ctl[n:]; return d
    def shutdown(s,*a): pass
    def close(s): pass
    def fileno(s): return -1
class SwSock:
    def getpeername(s): return ('ctl',6633)
class Node:
    def __init__(s, dpid, nports, max_buffers=2):
        s.pipe=Pipe(); s.w=IOWorker(); s.w.socket=SwSock()
        s.sw=SoftwareSwitch(dpid=dpid, ports=nports, max_buffers=max_buffers)
        s.ofc=OFConnection(s.w); s.sw.set_connection(s.ofc)
        s.out=[]
        s.sw.addListener(DpPacketOut, lambda e: s.out.append((e.port.port_no, e.packet.pack())))
        s.con=of_01.Connection(CtlSock(s.pipe))
    def pump(s):
        moved=True; n=0
        while moved and n<1000:
            moved=False; n+=1
            if s.pipe.to_switch:
                d=s.pipe.to_switch; s.pipe.to_switch=b''; s.w._push_receive_data(d); moved=True
            if s.w.send_buf:
                s.pipe.to_ctl+=s.w.send_buf; s.w.send_buf=b''; moved=True
            if s.pipe.to_ctl:
                s.con.read(); moved=True
        return n
ups=[]
core.openflow.addListenerByName('ConnectionUp', lambda e: ups.append(e.dpid))
n=Node(1,3)
n.pump()
print('up', ups, 'registry', list(core.openflow.connections.keys()), 'flows', len(n.sw.table))
def frame(src,dst,sport=1):
    e=ethernet(src=EthAddr(src),dst=EthAddr(dst),type=0x800)
    e.payload=ipv4(srcip=IPAddr('10.0.0.1'),dstip=IPAddr('10.0.0.2'),protocol=17)
    e.payload.payload=udp(srcport=sport,dstport=9); e.payload.payload.payload=b'hi'
    return e
H1='00:00:00:00:00:01'; H2='00:00:00:00:00:02'
def arrive(port, f):
    n.out.clear(); n.sw.rx_packet(ethernet(f.pack()), port); n.pump()
    return sorted(p for p,_ in n.out), len(n.sw.table), [b is not None for b in n.sw._packet_buffer]
print('h1->h2 (unknown)', arrive(1, frame(H1,H2)))
print('h2->h1 (known)  ', arrive(2, frame(H2,H1)))
print('h1->h2 (known)  ', arrive(1, frame(H1,H2)))
print('h1->h2 (cached) ', arrive(1, frame(H1,H2)))
print('bcast           ', arrive(3, frame(H1,'ff:ff:ff:ff:ff:ff')))
print('stp             ', arrive(3, frame(H1,'01:80:c2:00:00:00')))
clock.now+=11; n.sw.table.remove_expired_entries(clock.now); n.pump()
print('after idle timeout flows', len(n.sw.table))
