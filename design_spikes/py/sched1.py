import sys, unittest, logging, select as rsel, time
sys.path.insert(0,'/repo')
logging.disable(logging.CRITICAL)
import pox.lib.recoco.recoco as recoco
class Clock:
    now=1000.0
clock=Clock()
time.time = lambda: clock.now
class Quiescent(Exception): pass
sched=recoco.Scheduler(isDefaultScheduler=True, startInThread=False, threaded_selecthub=False)
def vselect(r,w,x,timeout=None):
    a,b,c=rsel.select(r,w,x,0)
    if a or b or c: return a,b,c
    # nothing ready: jump clock by timeout; CYCLE_MAXIMUM(2) means "no timer pending"
    hub=sched._selectHub
    pending=[t for t in hub._tasks.values() if t[4] is not None]
    if not pending and hub._incoming.empty() and not sched._ready:
        sched.quit(); return [],[],[]
    clock.now += timeout
    return [],[],[]
sched._selectHub._select_func=vselect
trace=[]
class T(recoco.BaseTask):
    def __init__(s,name,prog): s.name=name; s.prog=prog; recoco.BaseTask.__init__(s)
    def run(s):
        for i,y in enumerate(s.prog):
            trace.append((s.name,i,clock.now))
            r = yield y
        trace.append((s.name,'end',clock.now))
T('a',[0, 1.5, recoco.Sleep(2), 0]).start()
T('b',[recoco.Select([],[],[],0.5), 0, 3]).start()
fired=[]
def cb():
    fired.append(clock.now)
    if len(fired)>=3: return False
recoco.Timer(2.25, cb, recurring=True, selfStoppable=True)
import threading
sched._thread=threading.current_thread()
# stop the recurring timer after 3 fires
def stopper():
    if len(fired)>=3: return False
orig=fired.append
sched.run()
print(trace); print(fired[:5], len(fired))
