exec(open('forced.py').read().split("def trial(seed):")[0])
def trial(seed, threaded):
    global CTL
    rng=random.Random(seed)
    CTL=Ctl(rng, 'recoco.py')
    sched=recoco.Scheduler(isDefaultScheduler=True, startInThread=False, threaded_selecthub=threaded)
    sched._selectHub._select_func=vselect
    log=[]; insec=[]
    mts=CTL.spawn('S', sched.run); sched._thread=mts
    class Tk(recoco.BaseTask):
        def run(self):
            while True:
                log.append(('tk', len(insec)))   # records whether someone is in the synchronized section
                yield False
    tk=Tk()
    def foreignA():
        sched.callLater(lambda: log.append(('cb','A',CTL.me().name)))
        with sched.synchronized():
            insec.append('A'); CTL.yield_point(('insec',0)); insec.pop()
    def foreignB():
        sched.schedule(tk); sched.schedule(tk)
    CTL.spawn('A', foreignA); CTL.spawn('B', foreignB)
    def stop(): return all(t.done for t in CTL.threads if t.name in 'AB') and any(x[0]=='cb' for x in log)
    r=CTL.run(stop=stop)
    return r, log, len(CTL.trace), [ (t.name) for t in CTL.threads]
import collections
for threaded in (False, True):
    res=collections.Counter(); viol=0; t0=_rtime.time(); tkruns=collections.Counter(); timeouts=0
    for seed in range(100):
        r,log,n,names=trial(seed, threaded)
        res[r]+=1
        if any(x[0]=='tk' and x[1]>0 for x in log): viol+=1
        tkruns[sum(1 for x in log if x[0]=='tk')]+=1
        if r!='quiescent': print(seed, r, log, names)
    print('threaded',threaded,dict(res),'mutex violations',viol,'tk runs dist',dict(tkruns),'time',round(_rtime.time()-t0,2),'trace',n)
