import T.Model.Framing
import T.Model.Layout
import T.Model.Revent
import T.Model.STree
import T.Proofs.Ck
import T.Proofs.FramingP
import T.Proofs.LayoutP
import T.Proofs.STreeP
