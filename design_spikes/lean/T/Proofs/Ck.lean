namespace Ck
def F (s : Nat) : Nat := if s = 0 then 0 else (s - 1) % 65535 + 1
def fold2 (s : Nat) : Nat :=
  let s1 := s / 65536 + s % 65536
  let s2 := s1 + s1 / 65536
  s2 % 65536
def ntohs (x : Nat) : Nat := (x % 256) * 256 + (x / 256) % 256

theorem mod_helper (c t : Nat) (ht : t < 65535) : (65535 * c + t) % 65535 = t := by omega

theorem fold2_eq (s : Nat) (h : s < 4294967296) : fold2 s = F s := by
  unfold fold2 F
  have hs : s = 65536 * (s / 65536) + s % 65536 := (Nat.div_add_mod s 65536).symm
  have hr : s % 65536 < 65536 := Nat.mod_lt _ (by decide)
  have hd1 : (65536 * (s / 65536) + s % 65536) / 65536 = s / 65536 := by rw [← hs]
  have hd2 : (65536 * (s / 65536) + s % 65536) % 65536 = s % 65536 := by rw [← hs]
  generalize s / 65536 = c at *
  generalize s % 65536 = r at *
  have hc : c < 65536 := by omega
  subst hs
  simp only []
  by_cases h0 : 65536 * c + r = 0
  · simp [h0]; omega
  · simp only [h0, if_false]
    by_cases h1 : c + r < 65536
    · have e : 65536 * c + r - 1 = 65535 * c + (c + r - 1) := by omega
      rw [e, mod_helper _ _ (by omega)]; omega
    · have e : 65536 * c + r - 1 = 65535 * (c + 1) + (c + r - 65536) := by omega
      rw [e, mod_helper _ _ (by omega)]
      have hd : (c + r) / 65536 = 1 := by omega
      rw [hd]
      have hm : (c + r + 1) % 65536 = c + r + 1 - 65536 := by omega
      rw [hm]; omega

theorem swap_mod (x : Nat) (h : x < 65536) : ntohs x % 65535 = (256 * x) % 65535 := by
  unfold ntohs
  have hx : x = 256 * (x / 256) + x % 256 := (Nat.div_add_mod x 256).symm
  have hb : x % 256 < 256 := Nat.mod_lt _ (by decide)
  have hd1 : (256 * (x / 256) + x % 256) / 256 = x / 256 := by rw [← hx]
  have hd2 : (256 * (x / 256) + x % 256) % 256 = x % 256 := by rw [← hx]
  generalize x / 256 = a at *
  generalize x % 256 = b at *
  have ha : a < 256 := by omega
  subst hx
  have e1 : a % 256 = a := Nat.mod_eq_of_lt ha
  rw [e1]
  have e2 : 256 * (256 * a + b) = 65535 * a + (b * 256 + a) := by omega
  rw [e2]
  omega

theorem swap_range (x : Nat) (h1 : 0 < x) (h : x < 65536) : 0 < ntohs x ∧ ntohs x < 65536 := by
  unfold ntohs; omega

theorem pair_mod (b0 b1 : Nat) (h0 : b0 < 256) (h1 : b1 < 256) :
    (b0 + 256 * b1) % 65535 = (256 * (256 * b0 + b1)) % 65535 := by omega

/-- uniqueness of representative in [1,65535] -/
theorem rep_unique (a b : Nat) (ha : 0 < a) (ha' : a < 65536) (hb : 0 < b) (hb' : b < 65536)
    (h : a % 65535 = b % 65535) : a = b := by omega

theorem F_range (s : Nat) (h : 0 < s) : 0 < F s ∧ F s < 65536 ∧ F s % 65535 = s % 65535 := by
  unfold F; split <;> omega

/-- the heart: byte-swapping the folded little-endian sum gives the folded big-endian sum -/
theorem swap_F (sle sbe : Nat) (h : sle % 65535 = (256 * sbe) % 65535) (hz : sle = 0 ↔ sbe = 0) :
    ntohs (F sle) = F sbe := by
  by_cases h0 : sbe = 0
  · have : sle = 0 := hz.mpr h0
    subst h0; subst this; decide
  · have hs : sle ≠ 0 := fun e => h0 (hz.mp e)
    have r1 := F_range sle (by omega)
    have r2 := F_range sbe (by omega)
    have sw := swap_mod (F sle) r1.2.1
    have sr := swap_range (F sle) r1.1 r1.2.1
    apply rep_unique _ _ sr.1 sr.2 r2.1 r2.2.1
    rw [sw, r2.2.2]
    omega
end Ck

namespace Ck
abbrev Bytes := List UInt8

/-! model of `packet_utils.checksum` (with the odd-length line repaired: `data[-1:] + b'\0'`) on a little-endian host -/
def wordsLE : Bytes → List Nat
  | a :: b :: r => (a.toNat + 256 * b.toNat) :: wordsLE r
  | [a] => [a.toNat]
  | [] => []
def sumLE (d : Bytes) : Nat := (wordsLE d).sum
def checksum (d : Bytes) : Nat := ntohs (65535 - fold2 (sumLE d))

/-! RFC 1071: big-endian 16-bit words, odd byte padded on the right, end-around carry until it fits, complement -/
def wordsBE : Bytes → List Nat
  | a :: b :: r => (256 * a.toNat + b.toNat) :: wordsBE r
  | [a] => [256 * a.toNat]
  | [] => []
def sumBE (d : Bytes) : Nat := (wordsBE d).sum
def foldAll (s : Nat) : Nat := if h : s < 65536 then s else foldAll (s / 65536 + s % 65536)
  termination_by s
  decreasing_by omega
def rfc1071 (d : Bytes) : Nat := 65535 - foldAll (sumBE d)

theorem foldAll_eq_F (s : Nat) : foldAll s = F s := by
  induction s using Nat.strongRecOn with
  | _ s ih =>
    unfold foldAll
    by_cases h : s < 65536
    · simp only [h, dite_true]; unfold F; split <;> omega
    · simp only [h, dite_false]
      rw [ih _ (by omega)]
      unfold F
      have hs : s = 65536 * (s / 65536) + s % 65536 := (Nat.div_add_mod s 65536).symm
      have hr : s % 65536 < 65536 := Nat.mod_lt _ (by decide)
      generalize s / 65536 = c at *
      generalize s % 65536 = r at *
      subst hs
      have hc : 0 < c := by omega
      have h1 : ¬ (c + r = 0) := by omega
      have h2 : ¬ (65536 * c + r = 0) := by omega
      simp only [h1, h2, if_false]
      have e : 65536 * c + r - 1 = 65535 * c + (c + r - 1) := by omega
      rw [e, Nat.mul_add_mod]

theorem ntohs_compl (x : Nat) (h : x < 65536) : ntohs (65535 - x) = 65535 - ntohs x := by
  unfold ntohs
  have hx : x = 256 * (x / 256) + x % 256 := (Nat.div_add_mod x 256).symm
  have hb : x % 256 < 256 := Nat.mod_lt _ (by decide)
  generalize x / 256 = a at *
  generalize x % 256 = b at *
  have ha : a < 256 := by omega
  subst hx
  have e : 65535 - (256 * a + b) = 256 * (255 - a) + (255 - b) := by omega
  rw [e]
  have d1 : (256 * (255 - a) + (255 - b)) % 256 = 255 - b := by omega
  have d2 : (256 * (255 - a) + (255 - b)) / 256 = 255 - a := by omega
  have d3 : (256 * a + b) % 256 = b := by omega
  have d4 : (256 * a + b) / 256 = a := by omega
  rw [d1, d2]
  have d5 : (255 - a) % 256 = 255 - a := Nat.mod_eq_of_lt (by omega)
  have d6 : a % 256 = a := Nat.mod_eq_of_lt ha
  rw [d5, d6]
  omega

theorem sums_rel : ∀ d : Bytes, sumLE d % 65535 = (256 * sumBE d) % 65535 ∧ (sumLE d = 0 ↔ sumBE d = 0)
                     ∧ sumLE d ≤ 65535 * ((d.length + 1) / 2)
  | [] => by simp [sumLE, sumBE, wordsLE, wordsBE]
  | [a] => by
    have := a.toNat_lt
    simp only [sumLE, sumBE, wordsLE, wordsBE, List.sum_cons, List.sum_nil, List.length_cons, List.length_nil]
    refine ⟨by omega, by omega, by omega⟩
  | a :: b :: r => by
    have ha := a.toNat_lt
    have hb := b.toNat_lt
    obtain ⟨h1, h2, h3⟩ := sums_rel r
    simp only [sumLE, sumBE, wordsLE, wordsBE, List.sum_cons, List.length_cons] at *
    generalize (wordsLE r).sum = S at *
    generalize (wordsBE r).sum = S' at *
    refine ⟨by omega, by omega, by omega⟩

/-- C14 `checksum_rfc1071` -/
theorem checksum_rfc1071 (d : Bytes) (hlen : d.length ≤ 131072) : checksum d = rfc1071 d := by
  obtain ⟨h1, h2, h3⟩ := sums_rel d
  have hb : sumLE d < 4294967296 := by
    have : (d.length + 1) / 2 ≤ 65536 := by omega
    calc sumLE d ≤ 65535 * ((d.length + 1) / 2) := h3
      _ ≤ 65535 * 65536 := Nat.mul_le_mul_left _ this
      _ < 4294967296 := by decide
  unfold checksum rfc1071
  rw [fold2_eq _ hb, foldAll_eq_F]
  have hF : F (sumLE d) < 65536 := by unfold F; split <;> omega
  rw [ntohs_compl _ hF, swap_F _ _ h1 h2]

#print axioms checksum_rfc1071
end Ck
