namespace Ck
def F (s : Nat) : Nat := if s = 0 then 0 else (s - 1) % 65535 + 1
def fold2 (s : Nat) : Nat :=
  let s1 := s / 65536 + s % 65536
  let s2 := s1 + s1 / 65536
  s2 % 65536
def ntohs (x : Nat) : Nat := (x % 256) * 256 + (x / 256) % 256

theorem mod_helper (c t : Nat) (ht : t < 65535) : (65535 * c + t) % 65535 = t := by omega

theorem fold2_eq (s : Nat) (h : s < 4294967296) : fold2 s = F s := by
  unfold fold2 F
  have hs : s = 65536 * (s / 65536) + s % 65536 := (Nat.div_add_mod s 65536).symm
  have hr : s % 65536 < 65536 := Nat.mod_lt _ (by decide)
  have hd1 : (65536 * (s / 65536) + s % 65536) / 65536 = s / 65536 := by rw [← hs]
  have hd2 : (65536 * (s / 65536) + s % 65536) % 65536 = s % 65536 := by rw [← hs]
  generalize s / 65536 = c at *
  generalize s % 65536 = r at *
  have hc : c < 65536 := by omega
  subst hs
  simp only []
  by_cases h0 : 65536 * c + r = 0
  · simp [h0]; omega
  · simp only [h0, if_false]
    by_cases h1 : c + r < 65536
    · have e : 65536 * c + r - 1 = 65535 * c + (c + r - 1) := by omega
      rw [e, mod_helper _ _ (by omega)]; omega
    · have e : 65536 * c + r - 1 = 65535 * (c + 1) + (c + r - 65536) := by omega
      rw [e, mod_helper _ _ (by omega)]
      have hd : (c + r) / 65536 = 1 := by omega
      rw [hd]
      have hm : (c + r + 1) % 65536 = c + r + 1 - 65536 := by omega
      rw [hm]; omega

theorem swap_mod (x : Nat) (h : x < 65536) : ntohs x % 65535 = (256 * x) % 65535 := by
  unfold ntohs
  have hx : x = 256 * (x / 256) + x % 256 := (Nat.div_add_mod x 256).symm
  have hb : x % 256 < 256 := Nat.mod_lt _ (by decide)
  have hd1 : (256 * (x / 256) + x % 256) / 256 = x / 256 := by rw [← hx]
  have hd2 : (256 * (x / 256) + x % 256) % 256 = x % 256 := by rw [← hx]
  generalize x / 256 = a at *
  generalize x % 256 = b at *
  have ha : a < 256 := by omega
  subst hx
  have e1 : a % 256 = a := Nat.mod_eq_of_lt ha
  rw [e1]
  have e2 : 256 * (256 * a + b) = 65535 * a + (b * 256 + a) := by omega
  rw [e2]
  omega

theorem swap_range (x : Nat) (h1 : 0 < x) (h : x < 65536) : 0 < ntohs x ∧ ntohs x < 65536 := by
  unfold ntohs; omega

theorem pair_mod (b0 b1 : Nat) (h0 : b0 < 256) (h1 : b1 < 256) :
    (b0 + 256 * b1) % 65535 = (256 * (256 * b0 + b1)) % 65535 := by omega

/-- uniqueness of representative in [1,65535] -/
theorem rep_unique (a b : Nat) (ha : 0 < a) (ha' : a < 65536) (hb : 0 < b) (hb' : b < 65536)
    (h : a % 65535 = b % 65535) : a = b := by omega

theorem F_range (s : Nat) (h : 0 < s) : 0 < F s ∧ F s < 65536 ∧ F s % 65535 = s % 65535 := by
  unfold F; split <;> omega

/-- the heart: byte-swapping the folded little-endian sum gives the folded big-endian sum -/
theorem swap_F (sle sbe : Nat) (h : sle % 65535 = (256 * sbe) % 65535) (hz : sle = 0 ↔ sbe = 0) :
    ntohs (F sle) = F sbe := by
  by_cases h0 : sbe = 0
  · have : sle = 0 := hz.mpr h0
    subst h0; subst this; decide
  · have hs : sle ≠ 0 := fun e => h0 (hz.mp e)
    have r1 := F_range sle (by omega)
    have r2 := F_range sbe (by omega)
    have sw := swap_mod (F sle) r1.2.1
    have sr := swap_range (F sle) r1.1 r1.2.1
    apply rep_unique _ _ sr.1 sr.2 r2.1 r2.2.1
    rw [sw, r2.2.2]
    omega
end Ck
