import T.Model.FlowTbl
namespace Pox.FlowTbl

def Desc (t : List Nat) : Prop := t.Pairwise (· ≥ ·)

theorem desc_get (t : List Nat) (h : Desc t) (i j : Nat) (hij : i ≤ j) (hj : j < t.length) :
    t.getD j 0 ≤ t.getD i 0 := by
  rcases Nat.lt_or_eq_of_le hij with h' | h'
  · have := List.pairwise_iff_getElem.mp h i j (by omega) hj h'
    simp [List.getD_eq_getElem?_getD, List.getElem?_eq_getElem, hj, (by omega : i < t.length)]
    exact this
  · subst h'; exact Nat.le_refl _

/-- loop invariant of the binary search -/
theorem bs_spec (p : Nat) (t : List Nat) (hs : Desc t) :
    ∀ (f lo hi : Nat), hi - lo < f → lo ≤ hi → hi ≤ t.length →
      (∀ i, i < lo → p < t.getD i 0) → (∀ i, hi ≤ i → i < t.length → t.getD i 0 ≤ p) →
      let k := bs p t f lo hi
      k ≤ t.length ∧ (∀ i, i < k → p < t.getD i 0) ∧ (∀ i, k ≤ i → i < t.length → t.getD i 0 ≤ p) := by
  intro f
  induction f with
  | zero => intro lo hi hf; omega
  | succ f ih =>
    intro lo hi hf hle hhi hlo hup
    unfold bs
    by_cases hlt : lo < hi
    · simp only [hlt, if_true]
      by_cases hp : p ≥ t.getD ((lo + hi) / 2) 0
      · simp only [hp, if_true]
        apply ih lo ((lo+hi)/2) (by omega) (by omega) (by omega) hlo
        intro i hi1 hi2
        exact Nat.le_trans (desc_get t hs ((lo+hi)/2) i hi1 hi2) hp
      · simp only [hp, if_false]
        apply ih ((lo+hi)/2 + 1) hi (by omega) (by omega) hhi _ hup
        intro i hi1
        have : t.getD ((lo+hi)/2) 0 ≤ t.getD i 0 := desc_get t hs i ((lo+hi)/2) (by omega) (by omega)
        omega
    · simp only [hlt, if_false]
      have : lo = hi := by omega
      subst this
      exact ⟨hhi, hlo, hup⟩

/-- C03 `table_sorted` (one step): inserting with `add_entry` keeps the table sorted by descending
    effective priority, and the new entry goes in front of every entry of equal or lower priority. -/
theorem addEntry_sorted (p : Nat) (t : List Nat) (hs : Desc t) : Desc (addEntry p t) := by
  obtain ⟨hk, hlo, hup⟩ := bs_spec p t hs (t.length + 1) 0 t.length (by omega) (by omega) (Nat.le_refl _)
    (by intro i hi; omega) (by intro i h1 h2; omega)
  unfold addEntry insertPos
  generalize bs p t (t.length + 1) 0 t.length = k at *
  unfold Desc
  rw [List.pairwise_append]
  refine ⟨hs.sublist (List.take_sublist _ _), ?_, ?_⟩
  · rw [List.pairwise_cons]
    refine ⟨?_, hs.sublist (List.drop_sublist _ _)⟩
    intro x hx
    obtain ⟨i, hi, rfl⟩ := List.getElem_of_mem hx
    have := hup (k + i) (by omega) (by simp at hi; omega)
    simp only [List.getElem_drop]
    simpa [List.getD_eq_getElem?_getD, List.getElem?_eq_getElem, (by simp at hi; omega : k + i < t.length)] using this
  · intro a ha b hb
    obtain ⟨i, hi, rfl⟩ := List.getElem_of_mem ha
    have hik : i < k := by simp at hi; omega
    have h1 := hlo i hik
    have ha' : (t.take k)[i] = t.getD i 0 := by
      simp [List.getD_eq_getElem?_getD, List.getElem?_eq_getElem, (by omega : i < t.length)]
    rw [ha']
    rcases List.mem_cons.mp hb with rfl | hb
    · omega
    · obtain ⟨j, hj, rfl⟩ := List.getElem_of_mem hb
      have := hup (k + j) (by omega) (by simp at hj; omega)
      simp only [List.getElem_drop]
      have hb' : t[k + j]'(by simp at hj; omega) = t.getD (k+j) 0 := by
        simp [List.getD_eq_getElem?_getD, List.getElem?_eq_getElem, (by simp at hj; omega : k + j < t.length)]
      rw [hb']; omega

/-- C03 `lookup_spec`: in a table sorted by descending effective priority the first matching entry
    has the highest priority among all matching entries, and a miss means nothing matches. -/
theorem first_match_max {α : Type} (prio : α → Nat) (m : α → Bool) (tbl : List α)
    (hs : tbl.Pairwise (fun a b => prio a ≥ prio b)) :
    (∀ e, tbl.find? m = some e → m e = true ∧ e ∈ tbl ∧ ∀ e' ∈ tbl, m e' = true → prio e' ≤ prio e) ∧
    (tbl.find? m = none ↔ ∀ e ∈ tbl, m e = false) := by
  induction tbl with
  | nil => simp
  | cons a as ih =>
    rw [List.pairwise_cons] at hs
    obtain ⟨ih1, ih2⟩ := ih hs.2
    by_cases ha : m a = true
    · simp only [List.find?_cons, ha]
      refine ⟨?_, by simp [ha]⟩
      intro e he; cases he
      refine ⟨ha, by simp, ?_⟩
      intro e' he' _
      rcases List.mem_cons.mp he' with rfl | h
      · exact Nat.le_refl _
      · exact hs.1 e' h
    · have ha' : m a = false := by simpa using ha
      simp only [List.find?_cons, ha']
      refine ⟨?_, by simp [ih2, ha']⟩
      intro e he
      obtain ⟨h1, h2, h3⟩ := ih1 e he
      refine ⟨h1, by simp [h2], ?_⟩
      intro e' he' hm
      rcases List.mem_cons.mp he' with rfl | h
      · rw [ha'] at hm; cases hm
      · exact h3 e' h hm
#print axioms addEntry_sorted
#print axioms first_match_max
end Pox.FlowTbl
