import T.Model.Framing
namespace Pox.Framing
variable {Msg : Type}

/-- a well-formed encoded message w.r.t. decoder `U` -/
structure WF (U : Unpack Msg) (e : Bytes) (m : Msg) : Prop where
  len8 : 8 ≤ e.length
  lt : e.length < 65536
  ver : byteAt e 0 = 1
  decl : declLen e 0 = e.length
  dec : ∀ pre post, U (byteAt e 1) (pre ++ e ++ post) pre.length = .ok (pre.length + e.length, m)

theorem byteAt_append_right (pre x : Bytes) (i : Nat) : byteAt (pre ++ x) (pre.length + i) = byteAt x i := by
  unfold byteAt
  simp [List.getD_eq_getElem?_getD, List.getElem?_append_right]

theorem byteAt_append_left (x y : Bytes) (i : Nat) (h : i < x.length) : byteAt (x ++ y) i = byteAt x i := by
  unfold byteAt
  simp [List.getD_eq_getElem?_getD, List.getElem?_append_left h]

/-- the loop is stuck on a strict prefix of a well-formed message -/
theorem ctlLoop_stuck (U : Unpack Msg) (fuel : Nat) (pre x : Bytes) (acc : List Msg)
    (e : Bytes) (m : Msg) (hwf : WF U e m) (y : Bytes) (hx : e = x ++ y) (hy : y ≠ []) :
    ctlLoop U fuel (pre ++ x) pre.length acc = (pre.length, acc, .alive) := by
  cases fuel with
  | zero => rfl
  | succ f =>
    unfold ctlLoop
    have hlen : (pre ++ x).length - pre.length = x.length := by simp
    by_cases h8 : x.length < 8
    · simp [hlen, h8]
    · have h8' : 8 ≤ x.length := Nat.le_of_not_lt h8
      have b0 : byteAt (pre ++ x) pre.length = 1 := by
        have := byteAt_append_right pre x 0
        simp at this; rw [this]
        have := byteAt_append_left x y 0 (by omega)
        rw [← hx] at this; rw [← this]; exact hwf.ver
      have dl : declLen (pre ++ x) pre.length = e.length := by
        unfold declLen
        rw [byteAt_append_right, byteAt_append_right]
        have h2 := byteAt_append_left x y 2 (by omega)
        have h3 := byteAt_append_left x y 3 (by omega)
        rw [← hx] at h2 h3
        rw [← h2, ← h3]
        have := hwf.decl; unfold declLen at this; simpa using this
      have ylen : 0 < y.length := List.length_pos_iff.mpr hy
      have elen : e.length = x.length + y.length := by rw [hx]; simp
      simp [hlen, h8, b0, dl]
      omega

/-- main batch lemma: on `pre ++ enc(ms) ++ tail` where tail is a strict prefix of a further WF message (or empty),
    the loop delivers exactly ms and stops at the tail. -/
theorem ctlLoop_batch (U : Unpack Msg) (ms : List (Bytes × Msg)) (hwf : ∀ p ∈ ms, WF U p.1 p.2) :
    ∀ (fuel : Nat) (pre tail : Bytes) (acc : List Msg),
      ms.length < fuel →
      (tail = [] ∨ ∃ e m y, WF U e m ∧ e = tail ++ y ∧ y ≠ []) →
      ctlLoop U fuel (pre ++ (ms.map (·.1)).flatten ++ tail) pre.length acc
        = (pre.length + (ms.map (·.1)).flatten.length, acc ++ ms.map (·.2), .alive) := by
  induction ms with
  | nil =>
    intro fuel pre tail acc hf ht
    simp only [List.map_nil, List.flatten_nil, List.append_nil, List.length_nil, Nat.add_zero]
    rcases ht with rfl | ⟨e, m, y, hw, he, hy⟩
    · cases fuel with
      | zero => rfl
      | succ f => unfold ctlLoop; simp
    · exact ctlLoop_stuck U fuel pre tail acc e m hw y he hy
  | cons p ms ih =>
    intro fuel pre tail acc hf ht
    obtain ⟨e, m⟩ := p
    have hw : WF U e m := hwf (e, m) (by simp)
    cases fuel with
    | zero => simp at hf
    | succ f =>
      have hrest : ∀ q ∈ ms, WF U q.1 q.2 := fun q hq => hwf q (by simp [hq])
      simp only [List.map_cons, List.flatten_cons]
      -- shape the buffer as pre ++ e ++ post
      have hbuf : pre ++ (e ++ (ms.map (·.1)).flatten) ++ tail = pre ++ e ++ ((ms.map (·.1)).flatten ++ tail) := by
        simp [List.append_assoc]
      rw [hbuf]
      unfold ctlLoop
      have hlen : (pre ++ e ++ ((ms.map (·.1)).flatten ++ tail)).length - pre.length
          = e.length + ((ms.map (·.1)).flatten ++ tail).length := by simp
      have b0 : byteAt (pre ++ e ++ ((ms.map (·.1)).flatten ++ tail)) pre.length = 1 := by
        rw [List.append_assoc]
        have := byteAt_append_right pre (e ++ ((ms.map (·.1)).flatten ++ tail)) 0
        simp only [Nat.add_zero] at this; rw [this]
        rw [byteAt_append_left _ _ 0 (by have := hw.len8; omega)]; exact hw.ver
      have b1 : byteAt (pre ++ e ++ ((ms.map (·.1)).flatten ++ tail)) (pre.length + 1) = byteAt e 1 := by
        rw [List.append_assoc, byteAt_append_right]
        exact byteAt_append_left _ _ 1 (by have := hw.len8; omega)
      have dl : declLen (pre ++ e ++ ((ms.map (·.1)).flatten ++ tail)) pre.length = e.length := by
        unfold declLen
        rw [List.append_assoc, byteAt_append_right, byteAt_append_right]
        rw [byteAt_append_left _ _ 2 (by have := hw.len8; omega), byteAt_append_left _ _ 3 (by have := hw.len8; omega)]
        have := hw.decl; unfold declLen at this; simpa using this
      have h8 : ¬ (e.length + ((ms.map (·.1)).flatten ++ tail).length < 8) := by have := hw.len8; omega
      simp only [hlen, h8, if_false, b0, b1, dl]
      simp only [ne_eq, not_true_eq_false, false_and, if_false]
      have : ¬ (e.length + ((ms.map (·.1)).flatten ++ tail).length < e.length) := by omega
      simp only [this, if_false]
      rw [hw.dec pre ((ms.map (·.1)).flatten ++ tail)]
      simp only []
      have hok : ¬ (pre.length + e.length - pre.length ≠ e.length ∨ pre.length + e.length < pre.length) := by omega
      simp only [hok, if_false]
      -- recurse with pre' = pre ++ e
      have := ih hrest f (pre ++ e) tail (acc ++ [m]) (by simp at hf; omega) ht
      have hb2 : pre ++ e ++ ((ms.map (·.1)).flatten ++ tail) = (pre ++ e) ++ (ms.map (·.1)).flatten ++ tail := by
        simp [List.append_assoc]
      rw [hb2]
      have hl : (pre ++ e).length = pre.length + e.length := by simp
      rw [hl] at this
      rw [this]
      simp [List.append_assoc, Nat.add_assoc]
end Pox.Framing
