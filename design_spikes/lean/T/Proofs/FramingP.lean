import T.Model.Framing
namespace Pox.Framing
variable {Msg : Type}

/-- a well-formed encoded message w.r.t. decoder `U` -/
structure WF (U : Unpack Msg) (e : Bytes) (m : Msg) : Prop where
  len8 : 8 ≤ e.length
  lt : e.length < 65536
  ver : byteAt e 0 = 1
  decl : declLen e 0 = e.length
  dec : ∀ pre post, U (byteAt e 1) (pre ++ e ++ post) pre.length = .ok (pre.length + e.length, m)

theorem byteAt_append_right (pre x : Bytes) (i : Nat) : byteAt (pre ++ x) (pre.length + i) = byteAt x i := by
  unfold byteAt
  simp [List.getD_eq_getElem?_getD, List.getElem?_append_right]

theorem byteAt_append_left (x y : Bytes) (i : Nat) (h : i < x.length) : byteAt (x ++ y) i = byteAt x i := by
  unfold byteAt
  simp [List.getD_eq_getElem?_getD, List.getElem?_append_left h]

/-- the loop is stuck on a strict prefix of a well-formed message -/
theorem ctlLoop_stuck (U : Unpack Msg) (fuel : Nat) (pre x : Bytes) (acc : List Msg)
    (e : Bytes) (m : Msg) (hwf : WF U e m) (y : Bytes) (hx : e = x ++ y) (hy : y ≠ []) :
    ctlLoop U fuel (pre ++ x) pre.length acc = (pre.length, acc, .alive) := by
  cases fuel with
  | zero => rfl
  | succ f =>
    unfold ctlLoop
    have hlen : (pre ++ x).length - pre.length = x.length := by simp
    by_cases h8 : x.length < 8
    · simp [hlen, h8]
    · have h8' : 8 ≤ x.length := Nat.le_of_not_lt h8
      have b0 : byteAt (pre ++ x) pre.length = 1 := by
        have := byteAt_append_right pre x 0
        simp at this; rw [this]
        have := byteAt_append_left x y 0 (by omega)
        rw [← hx] at this; rw [← this]; exact hwf.ver
      have dl : declLen (pre ++ x) pre.length = e.length := by
        unfold declLen
        rw [byteAt_append_right, byteAt_append_right]
        have h2 := byteAt_append_left x y 2 (by omega)
        have h3 := byteAt_append_left x y 3 (by omega)
        rw [← hx] at h2 h3
        rw [← h2, ← h3]
        have := hwf.decl; unfold declLen at this; simpa using this
      have ylen : 0 < y.length := List.length_pos_iff.mpr hy
      have elen : e.length = x.length + y.length := by rw [hx]; simp
      simp [hlen, h8, b0, dl]
      omega

/-- main batch lemma: on `pre ++ enc(ms) ++ tail` where tail is a strict prefix of a further WF message (or empty),
    the loop delivers exactly ms and stops at the tail. -/
theorem ctlLoop_batch (U : Unpack Msg) (ms : List (Bytes × Msg)) (hwf : ∀ p ∈ ms, WF U p.1 p.2) :
    ∀ (fuel : Nat) (pre tail : Bytes) (acc : List Msg),
      ms.length < fuel →
      (tail = [] ∨ ∃ e m y, WF U e m ∧ e = tail ++ y ∧ y ≠ []) →
      ctlLoop U fuel (pre ++ (ms.map (·.1)).flatten ++ tail) pre.length acc
        = (pre.length + (ms.map (·.1)).flatten.length, acc ++ ms.map (·.2), .alive) := by
  induction ms with
  | nil =>
    intro fuel pre tail acc hf ht
    simp only [List.map_nil, List.flatten_nil, List.append_nil, List.length_nil, Nat.add_zero]
    rcases ht with rfl | ⟨e, m, y, hw, he, hy⟩
    · cases fuel with
      | zero => rfl
      | succ f => unfold ctlLoop; simp
    · exact ctlLoop_stuck U fuel pre tail acc e m hw y he hy
  | cons p ms ih =>
    intro fuel pre tail acc hf ht
    obtain ⟨e, m⟩ := p
    have hw : WF U e m := hwf (e, m) (by simp)
    cases fuel with
    | zero => simp at hf
    | succ f =>
      have hrest : ∀ q ∈ ms, WF U q.1 q.2 := fun q hq => hwf q (by simp [hq])
      simp only [List.map_cons, List.flatten_cons]
      -- shape the buffer as pre ++ e ++ post
      have hbuf : pre ++ (e ++ (ms.map (·.1)).flatten) ++ tail = pre ++ e ++ ((ms.map (·.1)).flatten ++ tail) := by
        simp [List.append_assoc]
      rw [hbuf]
      unfold ctlLoop
      have hlen : (pre ++ e ++ ((ms.map (·.1)).flatten ++ tail)).length - pre.length
          = e.length + ((ms.map (·.1)).flatten ++ tail).length := by simp
      have b0 : byteAt (pre ++ e ++ ((ms.map (·.1)).flatten ++ tail)) pre.length = 1 := by
        rw [List.append_assoc]
        have := byteAt_append_right pre (e ++ ((ms.map (·.1)).flatten ++ tail)) 0
        simp only [Nat.add_zero] at this; rw [this]
        rw [byteAt_append_left _ _ 0 (by have := hw.len8; omega)]; exact hw.ver
      have b1 : byteAt (pre ++ e ++ ((ms.map (·.1)).flatten ++ tail)) (pre.length + 1) = byteAt e 1 := by
        rw [List.append_assoc, byteAt_append_right]
        exact byteAt_append_left _ _ 1 (by have := hw.len8; omega)
      have dl : declLen (pre ++ e ++ ((ms.map (·.1)).flatten ++ tail)) pre.length = e.length := by
        unfold declLen
        rw [List.append_assoc, byteAt_append_right, byteAt_append_right]
        rw [byteAt_append_left _ _ 2 (by have := hw.len8; omega), byteAt_append_left _ _ 3 (by have := hw.len8; omega)]
        have := hw.decl; unfold declLen at this; simpa using this
      have h8 : ¬ (e.length + ((ms.map (·.1)).flatten ++ tail).length < 8) := by have := hw.len8; omega
      simp only [hlen, h8, if_false, b0, b1, dl]
      simp only [ne_eq, not_true_eq_false, false_and, if_false]
      have : ¬ (e.length + ((ms.map (·.1)).flatten ++ tail).length < e.length) := by omega
      simp only [this, if_false]
      rw [hw.dec pre ((ms.map (·.1)).flatten ++ tail)]
      simp only []
      have hok : ¬ (pre.length + e.length - pre.length ≠ e.length ∨ pre.length + e.length < pre.length) := by omega
      simp only [hok, if_false]
      -- recurse with pre' = pre ++ e
      have := ih hrest f (pre ++ e) tail (acc ++ [m]) (by simp at hf; omega) ht
      have hb2 : pre ++ e ++ ((ms.map (·.1)).flatten ++ tail) = (pre ++ e) ++ (ms.map (·.1)).flatten ++ tail := by
        simp [List.append_assoc]
      rw [hb2]
      have hl : (pre ++ e).length = pre.length + e.length := by simp
      rw [hl] at this
      rw [this]
      simp [List.append_assoc, Nat.add_assoc]
end Pox.Framing

namespace Pox.Framing
variable {Msg : Type}

theorem prefix_split (encs : List Bytes) :
    ∀ (x rest : Bytes), x ++ rest = encs.flatten →
    ∃ done rem tl, encs = done ++ rem ∧ x = done.flatten ++ tl ∧
      (tl = [] ∨ ∃ e rem' y, rem = e :: rem' ∧ e = tl ++ y ∧ y ≠ []) := by
  induction encs with
  | nil =>
    intro x rest h
    simp at h
    exact ⟨[], [], [], rfl, by simp [h.1], .inl rfl⟩
  | cons e es ih =>
    intro x rest h
    simp only [List.flatten_cons] at h
    rcases List.append_eq_append_iff.mp h with ⟨a, he, hr⟩ | ⟨c, hx, hes⟩
    · -- x ++ a = e  (x is a prefix of e);  he : e = x ++ a
      by_cases ha : a = []
      · subst ha
        simp at he
        exact ⟨[e], es, [], rfl, by simp [he], .inl rfl⟩
      · by_cases hxn : x = []
        · exact ⟨[], e :: es, [], rfl, by simp [hxn], .inl rfl⟩
        · exact ⟨[], e :: es, x, rfl, by simp, .inr ⟨e, es, a, rfl, he, ha⟩⟩
    · -- x = e ++ c
      obtain ⟨done, rem, tl, h1, h2, h3⟩ := ih c rest hes.symm
      exact ⟨e :: done, rem, tl, by simp [h1], by simp [hx, h2, List.append_assoc], h3⟩

theorem flatten_len_ge (l : List Bytes) (h : ∀ e ∈ l, 0 < e.length) : l.length ≤ l.flatten.length := by
  induction l with
  | nil => simp
  | cons a as ih =>
    have h1 := ih (fun e he => h e (by simp [he]))
    have h2 := h a (by simp)
    simp only [List.flatten_cons, List.length_append, List.length_cons]; omega

/-- C02 `ctl_framing`: any segmentation of a well-formed stream delivers exactly the messages, in order,
    once each, leaves nothing behind and keeps the connection alive. -/
theorem ctl_stream (U : Unpack Msg) :
    ∀ (chunks : List Bytes) (rem : List (Bytes × Msg)) (s : CS Msg),
      (∀ p ∈ rem, WF U p.1 p.2) → s.st = .alive →
      s.buf ++ chunks.flatten = (rem.map (·.1)).flatten →
      (s.buf = [] ∨ ∃ e m rem' y, rem = (e, m) :: rem' ∧ e = s.buf ++ y ∧ y ≠ []) →
      (chunks.foldl (ctlFeed U) s).delivered = s.delivered ++ rem.map (·.2) ∧
      (chunks.foldl (ctlFeed U) s).buf = [] ∧ (chunks.foldl (ctlFeed U) s).st = .alive := by
  intro chunks
  induction chunks with
  | nil =>
    intro rem s hwf hal hb ht
    simp only [List.flatten_nil, List.append_nil] at hb
    simp only [List.foldl_nil]
    have hpos : ∀ e ∈ rem.map (·.1), 0 < e.length := by
      intro e he
      obtain ⟨p, hp, rfl⟩ := List.mem_map.mp he
      have := (hwf p hp).len8; omega
    rcases ht with h0 | ⟨e, m, rem', y, hr, he, hy⟩
    · rw [h0] at hb
      have : (rem.map (·.1)).length ≤ 0 := by
        have := flatten_len_ge _ hpos; rw [← hb] at this; simpa using this
      have : rem = [] := by
        cases rem with
        | nil => rfl
        | cons a as => simp at this
      subst this; simp [h0, hal]
    · exfalso
      subst hr
      simp only [List.map_cons, List.flatten_cons] at hb
      have h1 : s.buf.length = e.length + ((rem'.map (·.1)).flatten).length := by rw [hb]; simp
      have h2 : e.length = s.buf.length + y.length := by rw [he]; simp
      have : 0 < y.length := List.length_pos_iff.mpr hy
      omega
  | cons c cs ih =>
    intro rem s hwf hal hb ht
    simp only [List.foldl_cons]
    -- split the enlarged buffer along message boundaries
    have hb' : (s.buf ++ c) ++ cs.flatten = (rem.map (·.1)).flatten := by
      simpa [List.append_assoc] using hb
    obtain ⟨doneE, remE, tl, h1, h2, h3⟩ := prefix_split (rem.map (·.1)) (s.buf ++ c) cs.flatten hb'
    obtain ⟨done, rem2, hrem, hd, hr2⟩ := List.map_eq_append_iff.mp h1
    subst hrem
    have hwfd : ∀ p ∈ done, WF U p.1 p.2 := fun p hp => hwf p (by simp [hp])
    have hwf2 : ∀ p ∈ rem2, WF U p.1 p.2 := fun p hp => hwf p (by simp [hp])
    -- tail condition for the batch lemma
    have htl : tl = [] ∨ ∃ e m y, WF U e m ∧ e = tl ++ y ∧ y ≠ [] := by
      rcases h3 with h | ⟨e, rem', y, hre, he, hy⟩
      · exact .inl h
      · right
        rw [← hr2] at hre
        cases rem2 with
        | nil => simp at hre
        | cons p ps =>
          simp at hre
          exact ⟨p.1, p.2, y, hwf2 p (by simp), by rw [hre.1]; exact he, hy⟩
    have hbuf : s.buf ++ c = [] ++ (done.map (·.1)).flatten ++ tl := by rw [h2, hd]; simp
    have hfuel : done.length < (s.buf ++ c).length + 1 := by
      have hpos : ∀ e ∈ done.map (·.1), 0 < e.length := by
        intro e he
        obtain ⟨p, hp, rfl⟩ := List.mem_map.mp he
        have := (hwfd p hp).len8; omega
      have := flatten_len_ge _ hpos
      have hl : (s.buf ++ c).length = ((done.map (·.1)).flatten).length + tl.length := by
        rw [h2, hd, List.length_append]
      rw [List.length_map] at this; omega
    have hloop := ctlLoop_batch U done hwfd ((s.buf ++ c).length + 1) [] tl s.delivered hfuel htl
    simp only [List.length_nil, Nat.zero_add] at hloop
    have hfeed : ctlFeed U s c = { buf := tl, delivered := s.delivered ++ done.map (·.2), st := .alive } := by
      unfold ctlFeed
      rw [hal]
      simp only []
      rw [show s.buf ++ c = [] ++ (done.map (·.1)).flatten ++ tl from hbuf] at *
      rw [hloop]
      simp
    rw [hfeed]
    have hb2 : tl ++ cs.flatten = (rem2.map (·.1)).flatten := by
      have : (done.map (·.1)).flatten ++ (tl ++ cs.flatten) = (done.map (·.1)).flatten ++ (rem2.map (·.1)).flatten := by
        have e := hb'
        rw [h2, ← hd] at e
        simpa [List.append_assoc] using e
      exact List.append_cancel_left this
    have ht2 : tl = [] ∨ ∃ e m rem' y, rem2 = (e, m) :: rem' ∧ e = tl ++ y ∧ y ≠ [] := by
      rcases h3 with h | ⟨e, rem', y, hre, he, hy⟩
      · exact .inl h
      · right
        rw [← hr2] at hre
        cases rem2 with
        | nil => simp at hre
        | cons p ps =>
          simp at hre
          exact ⟨p.1, p.2, ps, y, rfl, by rw [hre.1]; exact he, hy⟩
    have := ih rem2 { buf := tl, delivered := s.delivered ++ done.map (·.2), st := .alive } hwf2 rfl hb2 ht2
    simpa [List.append_assoc] using this

#print axioms ctl_stream
end Pox.Framing
