import T.Model.SendBuf
namespace Pox.SendBuf

structure Inv (s : St) : Prop where
  stream : s.accepted ++ s.sendBuf = s.queued
  once : s.closeEvents = (if s.closed then 1 else 0)
  quiet : s.offeredAfterClose = 0

theorem step_inv (s : St) (op : Op) (h : Inv s) : Inv (step s op) := by
  cases op with
  | send d => exact ⟨by simp [step, ← h.stream, List.append_assoc], h.once, h.quiet⟩
  | doSend o =>
    unfold step
    by_cases hc : s.closed
    · simpa [hc] using h
    · simp only [hc, Bool.false_eq_true, if_false]
      by_cases h0 : s.sendBuf.length = 0
      · simpa [h0] using h
      · simp only [h0, if_false]
        cases o with
        | again => exact h
        | fatal => exact ⟨h.stream, by simp [h.once, hc], h.quiet⟩
        | accept k =>
          simp only []
          by_cases hk : min k s.sendBuf.length = 0
          · simpa [hk] using h
          · simp only [hk, if_false]
            refine ⟨?_, by simpa [hc] using h.once, by simpa using h.quiet⟩
            show s.accepted ++ List.take _ s.sendBuf ++ List.drop _ s.sendBuf = s.queued
            rw [List.append_assoc, List.take_append_drop]; exact h.stream

/-- C20 `ioworker_stream` / `after_fatal`: for every sequence of sends and every script of socket outcomes,
    what the socket accepted followed by what is still buffered is exactly the concatenation of what was queued
    (nothing lost, duplicated or reordered); close is reported at most once and exactly once after a fatal error. -/
theorem run_inv (ops : List Op) : Inv (run ops) := by
  have : ∀ (s : St), Inv s → Inv (ops.foldl step s) := by
    induction ops with
    | nil => intro s h; exact h
    | cons o os ih => intro s h; exact ih _ (step_inv s o h)
  exact this {} ⟨rfl, rfl, rfl⟩

theorem drained (ops : List Op) (h : (run ops).sendBuf = []) : (run ops).accepted = (run ops).queued := by
  have := (run_inv ops).stream; rw [h] at this; simpa using this
#print axioms run_inv
end Pox.SendBuf
