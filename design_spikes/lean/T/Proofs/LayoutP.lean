import T.Model.Layout
namespace Pox

@[simp] theorem beEnc_length (w n : Nat) : (beEnc w n).length = w := by
  induction w generalizing n with
  | zero => rfl
  | succ w ih => simp [beEnc, ih]

theorem beDec_beEnc (w n : Nat) (h : n < 256 ^ w) : beDec (beEnc w n) = n := by
  induction w generalizing n with
  | zero => simp [beEnc, beDec]; simp at h; omega
  | succ w ih =>
    have hp : 0 < 256 ^ w := Nat.pow_pos (by decide : 0 < 256)
    have hq : n / 256 ^ w < 256 := by
      rw [Nat.div_lt_iff_lt_mul hp]; rw [Nat.pow_succ] at h; rw [Nat.mul_comm]; exact h
    simp only [beEnc, beDec, beEnc_length]
    rw [ih _ (Nat.mod_lt _ hp)]
    have : (UInt8.ofNat (n / 256 ^ w)).toNat = n / 256 ^ w := by
      simp [UInt8.toNat_ofNat']; omega
    rw [this]
    exact Nat.div_add_mod' n (256 ^ w)

theorem decode_encode (L : Layout) (vs : List Val) (rest : Bytes) (hf : fits L vs) :
    ∃ bs, encode L vs = some bs ∧ decode L (bs ++ rest) = some (vs, rest) ∧ bs.length = size L := by
  induction L generalizing vs with
  | nil =>
    cases vs with
    | nil => exact ⟨[], rfl, rfl, rfl⟩
    | cons v vs => simp [fits] at hf
  | cons f L ih =>
    cases f with
    | uint w =>
      cases vs with
      | nil => simp [fits] at hf
      | cons v vs =>
        cases v with
        | raw b => simp [fits] at hf
        | num n =>
          obtain ⟨hn, hf'⟩ := hf
          obtain ⟨bs, he, hd, hl⟩ := ih vs hf'
          refine ⟨beEnc w n ++ bs, by simp [encode, he], ?_, by simp [size, hl]⟩
          simp [decode, List.append_assoc, List.drop_append, List.take_append, hd, beDec_beEnc w n hn]
    | pad n =>
      obtain ⟨bs, he, hd, hl⟩ := ih vs (by simpa [fits] using hf)
      refine ⟨List.replicate n 0 ++ bs, by simp [encode, he], ?_, by simp [size, hl]⟩
      simp [decode, List.append_assoc, List.drop_append, hd]
    | blob n =>
      cases vs with
      | nil => simp [fits] at hf
      | cons v vs =>
        cases v with
        | num k => simp [fits] at hf
        | raw b =>
          obtain ⟨hb, hf'⟩ := hf
          obtain ⟨bs, he, hd, hl⟩ := ih vs hf'
          refine ⟨b ++ bs, by simp [encode, he, hb], ?_, by simp [size, hl, hb]⟩
          subst hb
          simp [decode, List.append_assoc, List.drop_append, List.take_append, hd]
end Pox
