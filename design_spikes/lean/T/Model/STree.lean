namespace Pox.STree

structure TS where
  q      : List Nat
  done   : List Nat
  inTree : List Nat
  edges  : List (Nat × Nat)     -- (v, w): w was attached to v; newest first
  more   : List Nat
  deriving Repr

def insertSorted (x : Nat) : List Nat → List Nat
  | [] => [x]
  | y :: ys => if x ≤ y then x :: y :: ys else y :: insertSorted x ys
def sortNat (l : List Nat) : List Nat := l.foldr insertSorted []

/-- the `for w,p in adj[v].items()` loop -/
def attach (v : Nat) : List Nat → TS → TS
  | [], s => s
  | w :: ws, s =>
    if w ∈ s.inTree then attach v ws s
    else attach v ws { s with more := w :: s.more, edges := (v, w) :: s.edges,
                              inTree := w :: (if v ∈ s.inTree then s.inTree else v :: s.inTree) }

/-- one iteration of `while True` (with the merge of `more` done at the end of the previous one) -/
def step (nbrs : Nat → List Nat) (s : TS) : TS :=
  match s.q with
  | [] => s
  | v :: q' =>
    if v ∈ s.done then { s with q := q' }
    else
      let s1 := attach v (nbrs v) { s with q := q', done := v :: s.done, more := [] }
      { s1 with q := sortNat s1.more ++ s1.q, more := [] }

def run (nbrs : Nat → List Nat) : Nat → TS → TS
  | 0, s => s
  | f+1, s => run nbrs f (step nbrs s)

def init (switches : List Nat) : TS := ⟨sortNat switches, [], [], [], []⟩
end Pox.STree
