namespace Pox.Framing
abbrev Bytes := List UInt8

inductive Res (α : Type) | ok (a : α) | raise
  deriving Repr

/-- abstract decoder: type byte → whole buffer → offset → (new offset, message id) or exception -/
abbrev Unpack (Msg : Type) := Nat → Bytes → Nat → Res (Nat × Msg)

def byteAt (b : Bytes) (i : Nat) : Nat := (b.getD i 0).toNat
def declLen (b : Bytes) (off : Nat) : Nat := byteAt b (off+2) * 256 + byteAt b (off+3)

inductive Status | alive | closed   -- closed: connection thrown away (bad version / exception escaping read)
  deriving DecidableEq, Repr

structure CS (Msg : Type) where
  buf : Bytes
  delivered : List Msg
  st : Status

/-- the `while buf_len - offset >= 8` loop of of_01.Connection.read; returns (offset, delivered-in-order, status) -/
def ctlLoop {Msg} (U : Unpack Msg) : Nat → Bytes → Nat → List Msg → Nat × List Msg × Status
  | 0, _, off, acc => (off, acc, .alive)
  | fuel+1, buf, off, acc =>
    if buf.length - off < 8 then (off, acc, .alive) else
    let ty := byteAt buf (off+1)
    if byteAt buf off ≠ 1 ∧ ty ≠ 0 then (off, acc, .closed) else
    let n := declLen buf off
    if buf.length - off < n then (off, acc, .alive) else
    match U ty buf off with
    | .raise => (off, acc, .closed)
    | .ok (off', m) =>
      if off' - off ≠ n ∨ off' < off then (off, acc, .closed)       -- the assert
      else ctlLoop U fuel buf off' (acc ++ [m])

def ctlFeed {Msg} (U : Unpack Msg) (s : CS Msg) (chunk : Bytes) : CS Msg :=
  match s.st with
  | .closed => s
  | .alive =>
    let buf := s.buf ++ chunk
    let (off, d, st) := ctlLoop U (buf.length + 1) buf 0 s.delivered
    { buf := buf.drop off, delivered := d, st := st }
end Pox.Framing
