namespace Pox.FlowTbl
/-- `FlowTable.add_entry` (flow_table.py:224-247): binary search for the insert position over the
    effective priorities of a table sorted in descending order; `t` is the list of effective priorities. -/
def bs (p : Nat) (t : List Nat) : Nat → Nat → Nat → Nat
  | 0, lo, _ => lo
  | f+1, lo, hi =>
    if lo < hi then
      let m := (lo + hi) / 2
      if p ≥ t.getD m 0 then bs p t f lo m else bs p t f (m+1) hi
    else lo

def insertPos (p : Nat) (t : List Nat) : Nat := bs p t (t.length + 1) 0 t.length
def addEntry (p : Nat) (t : List Nat) : List Nat := t.take (insertPos p t) ++ p :: t.drop (insertPos p t)
end Pox.FlowTbl
