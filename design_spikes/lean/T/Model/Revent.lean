namespace Pox.Revent

structure Entry where
  prio : Int
  hid  : Nat
  once : Bool
  eid  : Nat
  deriving DecidableEq, Repr

inductive Ret | none | halt | remove | haltRemove | exc
  deriving DecidableEq, Repr

inductive Action
  | add (et : Nat) (hid : Nat) (prio : Int) (once : Bool)
  | removeH (hid : Nat)            -- removeListener(handler)
  | removeE (eid : Nat)            -- removeListener(eid)
  | raise (et : Nat)
  deriving DecidableEq, Repr

structure St where
  heap : List (List Entry)         -- list objects; Ref = index
  tbl  : List (Nat × Nat)          -- eventType ↦ Ref
  prioritized : List Nat
  nextEid : Nat
  calls : List (Nat × Nat)         -- (hid, #times called) bookkeeping for β
  trace : List (Nat × Nat)         -- (eventType, hid) invocation log
  deriving Repr

def St.init : St := ⟨[], [], [], 1, [], []⟩

def lookupRef (s : St) (et : Nat) : Option Nat := (s.tbl.find? (·.1 == et)).map (·.2)

/-- stable insertion of `e` after the last element with priority ≥ e.prio : what append+stable sort(reverse, key=prio) does -/
def insertStable (e : Entry) : List Entry → List Entry
  | [] => [e]
  | x :: xs => if x.prio ≥ e.prio then x :: insertStable e xs else e :: x :: xs

def stableSortDesc (l : List Entry) : List Entry := l.foldl (fun acc e => insertStable e acc) []

def setHeap (s : St) (r : Nat) (l : List Entry) : St := { s with heap := s.heap.set r l }

def addListener (s : St) (et hid : Nat) (prio : Int) (once : Bool) : St :=
  let (s, r) := match lookupRef s et with
    | some r => (s, r)
    | none => ({ s with heap := s.heap ++ [[]], tbl := (et, s.heap.length) :: s.tbl }, s.heap.length)
  let e : Entry := ⟨prio, hid, once, s.nextEid⟩
  let l := (s.heap.getD r []) ++ [e]
  let s := { s with nextEid := s.nextEid + 1 }
  if prio ≠ 0 ∨ s.prioritized.contains et then
    setHeap { s with prioritized := et :: s.prioritized } r (stableSortDesc l)   -- sorts IN PLACE
  else setHeap s r l                                                           -- appends IN PLACE

/-- removal REBINDS the table entry to a fresh filtered list -/
def removeWhere (s : St) (p : Entry → Bool) : St :=
  s.tbl.foldl (fun s (et, r) =>
    let l := (s.heap.getD r []).filter (fun e => !p e)
    { s with heap := s.heap ++ [l], tbl := s.tbl.map (fun (et', r') => if et' == et then (et', s.heap.length) else (et', r')) }) s

abbrev Beh := Nat → Nat → List Action × Ret     -- hid → k-th call → (actions, return)

def nCalls (s : St) (hid : Nat) : Nat := ((s.calls.find? (·.1 == hid)).map (·.2)).getD 0
def bump (s : St) (hid : Nat) : St :=
  { s with calls := (hid, nCalls s hid + 1) :: s.calls.filter (·.1 != hid) }

mutual
def raiseEv (fuel : Nat) (β : Beh) (s : St) (et : Nat) : St :=
  match lookupRef s et with
  | none => s
  | some r => loop fuel β s et r 0
def loop (fuel : Nat) (β : Beh) (s : St) (et r i : Nat) : St :=
  match fuel with
  | 0 => s
  | fuel+1 =>
    match (s.heap.getD r [])[i]? with          -- CPython list iterator: re-reads the SAME list object each step
    | none => s
    | some e =>
      let k := nCalls s e.hid
      let s := bump { s with trace := s.trace ++ [(et, e.hid)] } e.hid
      let (acts, rv) := β e.hid k
      let s := acts.foldl (fun s a => match a with
        | .add et' h p o => addListener s et' h p o
        | .removeH h => removeWhere s (·.hid == h)
        | .removeE x => removeWhere s (·.eid == x)
        | .raise et' => raiseEv fuel β s et') s
      let s := if e.once then removeWhere s (·.eid == e.eid) else s
      match rv with
      | .none => loop fuel β s et r (i+1)
      | .remove => loop fuel β (removeWhere s (·.eid == e.eid)) et r (i+1)
      | .halt => s
      | .haltRemove => removeWhere s (·.eid == e.eid)
      | .exc => s
end

/-- D1 witness: A (first call) adds C with priority 5; then A is invoked twice and C not at all. -/
def βw : Beh := fun hid k => if hid == 1 && k == 0 then ([.add 7 3 5 false], .none) else ([], .none)
def w0 : St := addListener (addListener St.init 7 1 0 false) 7 2 0 false
#eval (raiseEv 10 βw w0 7).trace
end Pox.Revent
