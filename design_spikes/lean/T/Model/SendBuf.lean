namespace Pox.SendBuf
abbrev Bytes := List UInt8
/-- IOWorker send side (ioworker/__init__.py:127-142,204-207,244-248).
    Socket outcomes are an adversarial script: `accept k` (k bytes taken, 0 < k), `again` (EAGAIN / 0 bytes), `fatal`. -/
inductive Outcome | accept (k : Nat) | again | fatal
  deriving Repr
inductive Op | send (d : Bytes) | doSend (o : Outcome)
  deriving Repr
structure St where
  sendBuf : Bytes := []
  accepted : Bytes := []     -- ghost: what the socket has taken, in order
  queued : Bytes := []       -- ghost: concatenation of everything passed to send()
  closed : Bool := false
  closeEvents : Nat := 0
  offeredAfterClose : Nat := 0   -- ghost: socket.send calls made after a fatal error

def step (s : St) : Op → St
  | .send d => { s with sendBuf := s.sendBuf ++ d, queued := s.queued ++ d }     -- send() never looks at `closed`
  | .doSend o =>
    if s.closed then s                                   -- worker was discarded from the loop: _do_send is not called
    else if s.sendBuf.length = 0 then s                  -- `if len(self.send_buf):`
    else match o with
      | .accept k =>
        let k := min k s.sendBuf.length                  -- socket never takes more than offered
        if k = 0 then s else
        { s with sendBuf := s.sendBuf.drop k, accepted := s.accepted ++ s.sendBuf.take k }
      | .again => s
      | .fatal => { s with closed := true, closeEvents := s.closeEvents + 1 }
def run (ops : List Op) : St := ops.foldl step {}
end Pox.SendBuf
