namespace Pox
abbrev Bytes := List UInt8

/-- big-endian encoding of `n` in `w` bytes (truncating like a C cast would; callers prove range). -/
def beEnc : Nat → Nat → Bytes
  | 0, _ => []
  | w+1, n => UInt8.ofNat (n / 256 ^ w) :: beEnc w (n % 256 ^ w)

def beDec : Bytes → Nat
  | [] => 0
  | b :: bs => b.toNat * 256 ^ bs.length + beDec bs

inductive Field where
  | uint (w : Nat)          -- w-byte big-endian unsigned
  | pad (n : Nat)
  | blob (n : Nat)          -- fixed n raw bytes
  deriving DecidableEq, Repr

inductive Val where
  | num (n : Nat)
  | raw (b : Bytes)
  deriving DecidableEq, Repr

abbrev Layout := List Field

def encode : Layout → List Val → Option Bytes
  | [], [] => some []
  | .uint w :: L, .num n :: vs => (encode L vs).map (beEnc w n ++ ·)
  | .pad n :: L, vs => (encode L vs).map (List.replicate n 0 ++ ·)
  | .blob n :: L, .raw b :: vs => if b.length = n then (encode L vs).map (b ++ ·) else none
  | _, _ => none

def decode : Layout → Bytes → Option (List Val × Bytes)
  | [], bs => some ([], bs)
  | .uint w :: L, bs =>
      if bs.length < w then none else
      (decode L (bs.drop w)).map fun (vs, r) => (.num (beDec (bs.take w)) :: vs, r)
  | .pad n :: L, bs =>
      if bs.length < n then none else decode L (bs.drop n)
  | .blob n :: L, bs =>
      if bs.length < n then none else
      (decode L (bs.drop n)).map fun (vs, r) => (.raw (bs.take n) :: vs, r)

def fits : Layout → List Val → Prop
  | [], [] => True
  | .uint w :: L, .num n :: vs => n < 256 ^ w ∧ fits L vs
  | .pad _ :: L, vs => fits L vs
  | .blob n :: L, .raw b :: vs => b.length = n ∧ fits L vs
  | _, _ => False

def size : Layout → Nat
  | [] => 0
  | .uint w :: L => w + size L
  | .pad n :: L => n + size L
  | .blob n :: L => n + size L
end Pox
