namespace Pox.BufPool
/-- `_packet_buffer` of SoftwareSwitchBase: slot list, `none` = free; buffer id = index + 1 -/
structure Pool (F : Type) where
  slots : List (Option F)
  max : Nat

def firstFree {F} : List (Option F) → Option Nat
  | [] => none
  | none :: _ => some 0
  | some _ :: r => (firstFree r).map (· + 1)

/-- `_buffer_packet` (switch.py:685-702) -/
def alloc {F} (p : Pool F) (f : F) : Pool F × Option Nat :=
  match firstFree p.slots with
  | some i => ({ p with slots := p.slots.set i (some f) }, some (i + 1))
  | none =>
    if p.slots.length ≥ p.max then (p, none)
    else ({ p with slots := p.slots ++ [some f] }, some (p.slots.length + 1))

/-- `_process_actions_for_packet_from_buffer` (switch.py:704-721); `id` is the wire buffer id (a Nat) -/
def use {F} (p : Pool F) (id : Nat) : Pool F × Option F :=
  if id = 0 then (p, none)                       -- id - 1 < 0
  else if id - 1 ≥ p.slots.length then (p, none)
  else match p.slots.getD (id - 1) none with
    | none => (p, none)                          -- already flushed
    | some f => ({ p with slots := p.slots.set (id - 1) none }, some f)

def live {F} (p : Pool F) (id : Nat) : Option F := if id = 0 then none else p.slots.getD (id - 1) none
def stored {F} (p : Pool F) : Nat := (p.slots.filter Option.isSome).length
end Pox.BufPool
