"""C11 — learning-switch control loop forwards like an ideal learning bridge (DESIGN §5 C11).

Implementation side: 1..3 real `SoftwareSwitch`es (+ `OFConnection` + `IOWorker`), each with its own real
`of_01.Connection` to the ONE real `l2_learning` component, joined by in-memory byte pipes (structure of
design_spikes/py/ofnet.py); optional loop-free links between switch ports (a frame a switch emits on a link port arrives at
the peer port; breadth-first).  Virtual clock.  Model side: `drv_c11` (lean/PoxModel/Model/L2.lean)."""
import itertools, re
import common, poxenv
from common import Check

BCAST = 0xffffffffffff
STP = 0x0180c2000000
LLDP_MC = 0x0180c200000e
PAUSE = 0x0180c2000001
FILTER_LAST = 0x0180c200000f       # last address of the bridge-filtered block
NOT_FILTERED_MC = 0x0180c2000010      # first address after the bridge-filtered block
IP_MC = 0x01005e000001
LLDP_TYPE = 0x88cc
T0_MS = 1000000                       # virtual clock at the start of every case (poxenv.clock.now = 1000.0)


def mac_bytes(m):
    return m.to_bytes(6, "big")


def is_mc(m):
    return (m >> 40) & 1 == 1


def is_filtered_mac(m):
    return (m >> 4) == (STP >> 4)


def etype_of(kind):
    return {"udp": 0x0800, "arp": 0x0806, "lldp": LLDP_TYPE, "raw": 0x88b5}[kind]


class Pipe:
    def __init__(self): self.to_switch = b""; self.to_ctl = b""


class CtlSock:
    """what of_01.Connection reads from / writes to"""
    def __init__(self, p): self.p = p
    def send(self, d): self.p.to_switch += d; return len(d)
    def recv(self, n): d = self.p.to_ctl[:n]; self.p.to_ctl = self.p.to_ctl[n:]; return d
    def shutdown(self, *a): pass
    def close(self): pass
    def fileno(self): return -1
    def getpeername(self): return ("switch", 1)


class SwSock:
    def getpeername(self): return ("controller", 6633)
    def shutdown(self, *a): pass
    def close(self): pass
    def fileno(self): return -1


class C11(Check):
    id = "C11"
    prop_module = "PoxModel.Properties.C11"
    lean_targets = ["drv_c11"]
    driver = "drv_c11"
    theorems = ["Pox.C11.reachable_inv", "Pox.C11.init_inv", "Pox.C11.no_stuck", "Pox.C11.no_echo_no_dup", "Pox.C11.unknown_floods",
                "Pox.C11.buffers_drain", "Pox.C11.buffers_drain_history", "Pox.C11.known_dst", "Pox.C11.known_dst_fresh_partial",
                "Pox.C11.stale_only_by_cached_hit", "Pox.C11.miss_refreshes", "Pox.C11.filtered", "Pox.C11.ideal_when_current", "Pox.C11.every_hop", "Pox.C11.net_reachable_inv",
                "Pox.C11.hop_provenance", "Pox.C11.net_no_echo_no_dup", "Pox.C11.net_unknown_floods", "Pox.C11.net_known_dst",
                "Pox.C11.net_known_dst_fresh_partial", "Pox.C11.net_filtered", "Pox.C11.net_buffers_drain", "Pox.C11.net_cache_bounded",
                "Pox.C11.netInit_inv", "Pox.C11.arrive_current", "Pox.C11.current_reachable", "Pox.C11.known_dst_fresh_repaired",
                "Pox.C11.ideal_repaired", "Pox.C11.net_known_dst_fresh_repaired", "Pox.L2.sweep_bounds", "Pox.L2.sweep_keeps", "Pox.L2.mem_sweep_iff",
                "Pox.C11.propagate_complete", "Pox.C11.net_complete",
                "Pox.C11.known_dst_fresh_defect"]
    # name-based anchors, resolved on the current source at every run (the data setter is added in setup(): two defs are called `data`)
    anchors = [("pox/forwarding/l2_learning.py", "LearningSwitch._handle_PacketIn"), ("pox/openflow/libopenflow_01.py", "ofp_flow_mod.pack")]
    design_ref = "DESIGN.md §5 C11"
    coverage_cases = 400
    technique = ("Lean 4 proof (invariant of the closed loop switch datapath + LearningSwitch controller over all frame histories with clock advances and "
                 "expiry sweeps, then per-arrival theorems against the ideal-bridge history) + differential correspondence: compiled Lean model vs real "
                 "SoftwareSwitch/of_01.Connection/l2_learning over the real OpenFlow encoding + independent ideal-bridge oracle in Python")
    level_text = ("For every history (arrivals on any port, clock advances, sweeps), any port count < 0xff00, any buffer-pool size, transparent or not: "
                  "deliveries of one arrival are distinct existing ports other than the ingress and carry the arriving frame (no_echo_no_dup); multicast/broadcast or "
                  "never-seen destinations that are not filtered go to exactly all other ports (unknown_floods); all buffer slots are free at quiescence "
                  "(buffers_drain, buffers_drain_history); a seen unicast destination is delivered only where it was seen (known_dst); bridge-filtered/LLDP frames "
                  "are not forwarded (filtered — its hypothesis `Filtered` includes transparent = false: a component started with --transparent forwards them "
                  "like any other frame, as the code intends); with no matching flow AND a current controller table the delivery is exactly the most recent port "
                  "(known_dst_fresh_partial). The property's 'exactly the most recent port' clause FAILS on the code as it stands when the destination's latest "
                  "frames were absorbed by a cached flow on another port (known_dst_fresh_defect, decide-checked witness replayed on the real system; "
                  "stale_only_by_cached_hit / miss_refreshes characterise exactly when the controller table is stale). Networks: every_hop / net_* state "
                  "the same clauses for every hop of every frame of every history in any network of switches joined by links (per-switch learning state, "
                  "one clock), hop_provenance says frames only travel along links, net_buffers_drain that no switch ever holds a buffer at quiescence, "
                  "net_cache_bounded / sweep_bounds that after a sweep no entry is older than 30 s or idle for more than 10 s, sweep_keeps / mem_sweep_iff "
                  "that a sweep removes nothing else. The net_* theorems hold for any hop budget; propagate_complete / net_complete add that when the "
                  "budget sufficed (`netOk`, the driver refuses to answer otherwise) every frame put on a link has its hop in the log, so nothing is "
                  "silently truncated. NOT proved: network-wide absence of duplicates in loop-free topologies (net_no_dup_full is kept as a named, "
                  "unproved statement; 'no frame delivered twice' is proved per switch, and the oracle checks the network-wide form on every case). The model is parametric in "
                  "whether the tree carries repair C11-K1 (read from l2_learning.py on every run): for the repaired component current_reachable shows "
                  "macToPort d = most recent port of d in every reachable state and known_dst_fresh_repaired / ideal_repaired / "
                  "net_known_dst_fresh_repaired give the clause at full strength.")
    level_note = ("Trusted: Lean kernel, standard axioms, the hand-written Model/L2.lean (frames abstracted to (src,dst,ethertype,key,full,pay); OpenFlow messages "
                  "abstracted to packet_out/flow_mod/barrier records; the controller answers synchronously), Model/BufPool.lean, this harness. The wire codec, "
                  "framing and match semantics themselves are C01/C02/C03; here they are only in the loop of the differential run.")
    trusted_base = ["model Model/L2.lean hand-written from l2_learning._handle_PacketIn, ofp_flow_mod.pack data magic, ofp_packet_out.data setter, "
                    "SoftwareSwitchBase.rx_packet/_rx_flow_mod/_rx_packet_out/_output_packet, flow_table.py; tied by this correspondence run",
                    "Python ideal-bridge oracle (harness/c11.py oracle_ex) written independently of the model"]
    assumptions = ["control channel processed to quiescence between data-plane arrivals (single-threaded cooperative POX; the harness pumps the byte pipes)",
                   "flood hold-down _flood_delay = 0 (the module default); ports up, no NO_FLOOD/NO_FWD port config; flow table not full",
                   "network-wide no-duplicates (no switch port sees one frame twice when the links form a forest) is checked by the oracle, not proved",
                   "network theorems are per hop; that a frame reaches its destination host across a loop-free topology (end-to-end delivery) is not stated",
                   "frames are untagged Ethernet II whose ofp_match.from_packet is determined by (src,dst,ethertype,key); port numbers < OFPP_MAX"]
    rule = ("case = (transparent?, 1..3 switches with 2..5 ports and pools of 0..4 buffers, loop-free links, history of host frames (UDP/ARP/LLDP/raw; unicast, "
            "broadcast, IP multicast, STP/LLDP/pause destinations; host moves; frames longer than miss_send_len), clock advances around the 10 s/30 s timeouts, sweeps); "
            "corpus = ALL length-4 sequences over a 9-letter (quick) / 12-letter (thorough) alphabet for pools of 0 and 1 (and 2) buffers + hand-written seeds incl. the "
            "defect witness and keep-alive histories (a flow refreshed past its hard timeout while the destination moves, sweep before every frame); random "
            "histories to length 200, one in five from the keep-alive family; the oracle keeps the SPECIFIED flow cache (10 s idle / 30 s hard, removed at "
            "the first sweep after a timeout) to judge 'no older cached flow is still installed'; non-trivial = the history has both a packet-in and a cached-flow hit, or four kinds of outcome")

    # ------------------------------------------------------------------ real system
    def setup(self):
        core = poxenv.boot()
        import pox.openflow.of_01 as of_01, pox.openflow.libopenflow_01 as of
        from pox.datapaths.switch import SoftwareSwitch, OFConnection, DpPacketOut
        from pox.lib.ioworker import IOWorker
        from pox.lib.packet import ethernet, ipv4, udp, arp
        from pox.lib.addresses import EthAddr, IPAddr
        import pox.forwarding.l2_learning as l2
        if not core.hasComponent("l2_learning"):
            core.registerNew(l2.l2_learning, False)
        self.core, self.of_01, self.of, self.l2 = core, of_01, of, l2
        self.SoftwareSwitch, self.OFConnection, self.DpPacketOut, self.IOWorker = SoftwareSwitch, OFConnection, DpPacketOut, IOWorker
        self.pk = (ethernet, ipv4, udp, arp, EthAddr, IPAddr)
        self.pins = []
        self.relearn, self.dropinport = self.read_repair_flags()
        self.exactsig = self.read_exact_variant()
        setter = self.resolve_setter("pox/openflow/libopenflow_01.py", "ofp_packet_out", "data")
        self.anchors = list(type(self).anchors) + ([("pox/openflow/libopenflow_01.py",) + setter] if setter else
                                                   [("pox/openflow/libopenflow_01.py", "ofp_packet_out.data.setter-not-found")])
        core.openflow.addListenerByName("PacketIn", lambda e: self.pins.append(e.dpid))
        self._dpid = 0
        self._fcache = {}

    @staticmethod
    def read_repair_flags():
        """Which variant of l2_learning is in the tree (read from the source with `ast`, never imported here): does `_handle_PacketIn` send an
        OFPFC_DELETE for a source that moved (repair C11-K1), and does its `drop` build the match with the ingress port?  The model takes both as
        parameters; a wrong reading shows up as a correspondence disagreement."""
        import ast, os
        tree = ast.parse(open(os.path.join(common.REPO, "pox", "forwarding", "l2_learning.py")).read())
        fn = next((n for n in ast.walk(tree) if isinstance(n, ast.FunctionDef) and n.name == "_handle_PacketIn"), None)
        if fn is None: return False, False
        relearn = any(isinstance(n, ast.Attribute) and n.attr == "OFPFC_DELETE" for n in ast.walk(fn))
        drop = next((n for n in ast.walk(fn) if isinstance(n, ast.FunctionDef) and n.name == "drop"), None)
        dip = drop is not None and any(isinstance(c, ast.Call) and getattr(c.func, "attr", None) == "from_packet" and
                                       (len(c.args) >= 2 or any(k.arg == "in_port" for k in c.keywords)) for c in ast.walk(drop))
        return relearn, dip

    @staticmethod
    def resolve_setter(rel, cls, prop):
        """(first, last) line of `@<prop>.setter def <prop>` in class `cls`, from the current source"""
        import ast, os
        tree = ast.parse(open(os.path.join(common.REPO, rel)).read())
        for c in tree.body:
            if isinstance(c, ast.ClassDef) and c.name == cls:
                for f in c.body:
                    if isinstance(f, ast.FunctionDef) and f.name == prop and any(ast.unparse(d) == prop + ".setter" for d in f.decorator_list):
                        return (min([f.lineno] + [d.lineno for d in f.decorator_list]), f.end_lineno)
        return None

    EXACT_SHAPES = {False: "return self.wildcards & OFPFW_ALL != 0",
                    True: "return self.wildcards & ~self._unwire_wildcards(0) & OFPFW_ALL != 0"}

    @staticmethod
    def read_exact_variant():
        """Does the tree rank a flow whose only wildcard bits sit on fields ignored for lack of prerequisites (ARP, non-IP: what from_packet gives
        after the wire round trip) as EXACT (repair D26, fixes/C03_D26_exact_ignores_prereqless.diff)?  Read off `ofp_match.is_wildcarded` with
        `ast` (same shapes as harness/c03.py detect_variant); an unknown shape is an error, not a guess.  The model takes it as a parameter
        (`frameFull`); the correspondence (flow-table order and the exact bit of every entry are compared) validates the reading."""
        import ast, os
        tree = ast.parse(open(os.path.join(common.REPO, "pox", "openflow", "libopenflow_01.py")).read())
        cls = next(n for n in tree.body if isinstance(n, ast.ClassDef) and n.name == "ofp_match")
        fn = next(f for f in cls.body if isinstance(f, ast.FunctionDef) and f.name == "is_wildcarded")
        text = "\n".join(ast.unparse(x) for x in fn.body if not (isinstance(x, ast.Expr) and isinstance(getattr(x, "value", None), ast.Constant)))
        hits = [k for k, shape in C11.EXACT_SHAPES.items() if text == shape]
        if len(hits) != 1: raise RuntimeError("ofp_match.is_wildcarded has a shape the C11 model does not know: " + text[:200])
        return hits[0]

    def extra_evidence(self):
        return {"l2_learning_variant": {"relearn_on_move": self.relearn, "drop_entry_has_in_port": self.dropinport},
                "flow_table_variant": {"prerequisite_less_wildcards_rank_exact": self.exactsig}}

    def frame(self, src, dst, kind, key, pay):
        """real frame bytes; `key` goes where ofp_match.from_packet looks (UDP source port / ARP target address), `pay` where it does not"""
        k = (src, dst, kind, key, pay)
        fb = self._fcache.get(k)
        if fb is not None: return fb
        ethernet, ipv4, udp, arp, EthAddr, IPAddr = self.pk
        e = ethernet(src=EthAddr(mac_bytes(src)), dst=EthAddr(mac_bytes(dst)), type=etype_of(kind))
        if kind == "udp":
            e.payload = ipv4(srcip=IPAddr("10.0.0.1"), dstip=IPAddr("10.0.0.2"), protocol=17)
            e.payload.payload = udp(srcport=key, dstport=9)
            # pay >= 100: a frame longer than miss_send_len (128), so the packet-in is truncated and only the buffer has it all
            e.payload.payload.payload = (b"p" + bytes([pay & 0xff]) * (1 + pay % 5)) if pay < 100 else bytes([pay & 0xff]) * 300
        elif kind == "arp":
            e.payload = arp(opcode=1, hwsrc=EthAddr(mac_bytes(src)), hwdst=EthAddr(b"\0" * 5 + bytes([pay & 0xff])),
                            protosrc=IPAddr("10.0.0.1"), protodst=IPAddr("10.0.%d.%d" % (key >> 8, key & 0xff)))
        else:
            e.payload = bytes([pay & 0xff]) * (2 + pay % 7)
        fb = e.pack()
        self._fcache[k] = fb
        return fb

    class Node:
        def __init__(self, chk, idx, nports, bufs):
            chk._dpid += 1
            self.idx, self.dpid = idx, chk._dpid
            self.pipe = Pipe()
            self.w = chk.IOWorker(); self.w.socket = SwSock()
            self.sw = chk.SoftwareSwitch(dpid=self.dpid, ports=nports, max_buffers=bufs)
            self.ofc = chk.OFConnection(self.w); self.sw.set_connection(self.ofc)
            self.out = []
            self.sw.addListener(chk.DpPacketOut, lambda e: self.out.append((e.port.port_no, e.packet.pack())))
            self.con = chk.of_01.Connection(CtlSock(self.pipe))
            self.pump()
        def pump(self):
            moved, n = True, 0
            while moved:
                moved = False; n += 1
                if n > 200: raise RuntimeError("control channel does not quiesce")
                if self.pipe.to_switch:
                    d = self.pipe.to_switch; self.pipe.to_switch = b""; self.w._push_receive_data(d); moved = True
                if self.w.send_buf:
                    self.pipe.to_ctl += bytes(self.w.send_buf); self.w.send_buf = b""; moved = True
                if self.pipe.to_ctl:
                    self.con.read(); moved = True

    def table_summary(self, node):
        rows = []
        for e in node.sw.table.entries:
            m = e.match
            outs = [a.port for a in e.actions]
            key = 0
            if m.dl_type == 0x0800 and m.tp_src is not None: key = m.tp_src
            elif m.dl_type == 0x0806 and m.nw_dst is not None: key = m.nw_dst.toUnsigned() & 0xffff
            rows.append([m.in_port or 0, int.from_bytes(m.dl_src.raw, "big"), int.from_bytes(m.dl_dst.raw, "big"), m.dl_type, key,
                         outs[0] if len(outs) == 1 else (0 if not outs else -1),
                         e.idle_timeout, e.hard_timeout, int(round(e.created * 1000)), int(round(e.last_touched * 1000)),
                         1 if e.effective_priority > 0xffff else 0])
        return rows

    def impl(self, case):
        clock = poxenv.clock
        clock.now = T0_MS / 1000.0
        self.core.l2_learning.transparent = bool(case["transparent"])
        nodes = [self.Node(self, i, s["ports"], s["bufs"]) for i, s in enumerate(case["switches"])]
        try:
            for n in nodes:
                if n.dpid not in self.core.openflow.connections: raise RuntimeError("handshake did not complete")
            link = {}
            for a, pa, b, pb in case.get("links", []):
                link[(a, pa)] = (b, pb); link[(b, pb)] = (a, pa)
            steps = []
            for op in case["ops"]:
                if op["op"] == "adv":
                    clock.now = clock.now + op["ms"] / 1000.0
                    steps.append({"k": "adv"})
                elif op["op"] == "sweep":
                    n = nodes[op["sw"]]
                    n.out.clear(); del self.pins[:]
                    n.sw.table.remove_expired_entries(clock.now); n.pump()
                    steps.append({"k": "sweep", "flows": self.table_summary(n), "noise": len(n.out) + len(self.pins)})
                else:
                    fb = self.frame(op["src"], op["dst"], op["kind"], op["key"], op["pay"])
                    queue = [(op["sw"], op["port"])]
                    arrivals = []
                    while queue:
                        if len(arrivals) > 64: raise RuntimeError("frame circulates")
                        si, port = queue.pop(0)
                        n = nodes[si]
                        n.out.clear(); del self.pins[:]
                        n.sw.rx_packet(self.pk[0](fb), port, packet_data=fb); n.pump()
                        outs = [[p, 1 if b == fb else 0] for p, b in n.out]
                        arrivals.append({"sw": si, "port": port, "pin": len(self.pins), "pin_ok": 1 if all(d == n.dpid for d in self.pins) else 0,
                                         "out": outs, "flows": self.table_summary(n),
                                         "bufs": [0 if b is None else 1 for b in n.sw._packet_buffer]})
                        for p, _ in n.out:
                            if (si, p) in link: queue.append(link[(si, p)])
                    steps.append({"k": "rx", "arr": arrivals})
            return {"steps": steps}
        finally:
            for n in nodes:
                try: n.con.disconnect()
                except Exception: pass

    # ------------------------------------------------------------------ cases
    A, B, Cc = 0x0a, 0x0b, 0x0c

    @staticmethod
    def rx(port, src, dst, kind="udp", key=1, pay=0, sw=0):
        return {"op": "rx", "sw": sw, "port": port, "src": src, "dst": dst, "kind": kind, "key": key, "pay": pay}

    def alphabet(self, tier):
        rx, A, B = self.rx, self.A, self.B
        L = [[rx(1, A, B)], [rx(2, A, B)], [rx(2, B, A)], [rx(3, B, A)], [rx(1, B, A)], [rx(1, A, BCAST)], [rx(3, A, STP)],
             [{"op": "adv", "ms": 10125}, {"op": "sweep", "sw": 0}], [{"op": "adv", "ms": 4000}]]
        if tier == "thorough":
            L += [[rx(2, B, A, kind="arp")], [rx(1, A, B, kind="arp")], [{"op": "adv", "ms": 20000}, {"op": "sweep", "sw": 0}]]
        return L

    def corpus(self):
        rx, A, B, Cc = self.rx, self.A, self.B, self.Cc
        one = lambda ops, ports=3, bufs=1, tr=False: {"transparent": tr, "switches": [{"ports": ports, "bufs": bufs}], "links": [], "ops": ops}
        cases = []
        # the decide-checked witness of Properties/C11.lean (known_dst_fresh_defect; a failing input on trees without repair C11-K1, /repo 73d2b4b has it)
        cases.append(one([rx(3, B, A), rx(1, A, B), rx(2, A, B), rx(1, A, B), rx(3, B, A, key=2)]))
        # the same staleness through the drop entry of step 5 (its match has no in_port)
        cases.append(one([rx(1, B, B), rx(2, B, B), rx(3, A, B, key=2)]))
        # the walk of design_spikes/py/ofnet.py
        for bufs in (0, 2):
            cases.append(one([rx(1, A, B), rx(2, B, A), rx(1, A, B), rx(1, A, B), rx(3, A, BCAST), rx(3, A, STP), {"op": "adv", "ms": 11000},
                              {"op": "sweep", "sw": 0}, rx(1, A, B)], bufs=bufs))
        # every kind of destination / ethertype, transparent and not, truncated packet-ins, nonexistent port
        for tr in (False, True):
            for bufs in (0, 1):
                cases.append(one([rx(2, B, A), rx(1, A, STP), rx(1, A, LLDP_MC, kind="lldp", key=0), rx(1, A, B, kind="lldp", key=0), rx(1, A, PAUSE), rx(1, A, FILTER_LAST),
                                  rx(1, A, NOT_FILTERED_MC), rx(1, A, IP_MC), rx(1, A, B, kind="raw", key=0), rx(1, A, B, kind="arp"), rx(1, A, B, pay=100),
                                  rx(2, B, A, pay=101), rx(1, A, B, pay=100), rx(7, A, B), rx(0, A, B), rx(1, A, B, kind="lldp", key=0)], ports=4, bufs=bufs, tr=tr))
        # expiry boundaries: idle 10 s (strict >), hard 30 s, refresh by traffic, late sweep
        for gap in (9875, 10000, 10125):
            cases.append(one([rx(2, B, A), rx(1, A, B), {"op": "adv", "ms": gap}, {"op": "sweep", "sw": 0}, rx(1, A, B)]))
        cases.append(one([rx(2, B, A), rx(1, A, B)] + [x for _ in range(4) for x in ({"op": "adv", "ms": 9000}, rx(1, A, B), {"op": "sweep", "sw": 0})]
                         + [{"op": "adv", "ms": 3125}, {"op": "sweep", "sw": 0}, rx(1, A, B)]))
        cases.append(one([rx(2, B, A), rx(1, A, B), {"op": "adv", "ms": 60000}, rx(1, A, B), {"op": "sweep", "sw": 0}, rx(1, A, B)]))
        # a flow kept alive by traffic past its hard timeout while the destination moves (sweep before every frame, as a switch's expiry timer does)
        for gap, nhit, tail in ((8000, 3, (2000, 2000, 4000)), (6000, 4, (1000, 3000, 3000)), (9000, 3, (1000, 1000, 2000)), (4000, 6, (2000, 2000, 3000))):
            cases.append(one(self.keepalive(gap, nhit, tail), bufs=2))
        # three switches in a line, hosts at the ends
        net = {"transparent": False, "switches": [{"ports": 3, "bufs": 1}, {"ports": 2, "bufs": 0}, {"ports": 3, "bufs": 2}],
               "links": [[0, 3, 1, 1], [1, 2, 2, 1]],
               "ops": [rx(1, A, B, sw=0), rx(2, B, A, sw=2), rx(1, A, B, sw=0), rx(1, A, B, sw=0), rx(3, Cc, BCAST, sw=2), rx(2, A, B, sw=2),
                       {"op": "adv", "ms": 10125}, {"op": "sweep", "sw": 1}, rx(2, B, A, sw=2), rx(2, B, STP, sw=2)]}
        cases.append(net)
        return cases + self._exhaustive("quick")

    def _exhaustive(self, tier):
        """ALL sequences of length 4 over the alphabet (their prefixes are the shorter ones), pools of 0 and 1; the thorough tier adds three
        letters and a pool of 2 and yields only what the quick corpus did not already contain"""
        one = lambda ops, bufs: {"transparent": False, "switches": [{"ports": 3, "bufs": bufs}], "links": [], "ops": ops}
        alpha = self.alphabet(tier)
        nq = len(self.alphabet("quick"))
        out = []
        for bufs in ((0, 1) if tier == "quick" else (0, 1, 2)):
            for idx in itertools.product(range(len(alpha)), repeat=4):
                if tier == "thorough" and bufs < 2 and max(idx) < nq: continue
                out.append(one([op for i in idx for op in alpha[i]], bufs))
        return out

    def keepalive(self, gap, nhit, tail, move_to=3):
        """A<->B converse; A->B repeated every `gap` ms `nhit` times; then B shows up on port `move_to`; A->B again after each delay in `tail`"""
        rx, A, B = self.rx, self.A, self.B
        sw = {"op": "sweep", "sw": 0}
        ops = [rx(1, A, B), rx(2, B, A), rx(1, A, B)]
        for _ in range(nhit):
            ops += [{"op": "adv", "ms": gap}, sw, rx(1, A, B)]
        ops += [{"op": "adv", "ms": tail[0]}, sw, rx(move_to, B, BCAST)]
        for d in tail[1:]:
            ops += [{"op": "adv", "ms": d}, sw, rx(1, A, B)]
        return ops

    def random_keepalive(self, rng):
        """random member of the family above: long-lived conversations with a sweep before every frame, gaps below the idle timeout, a host move"""
        rx = self.rx
        hosts = [0x0a, 0x0b, 0x0c][:rng.randint(2, 3)]
        loc = {h: i + 1 for i, h in enumerate(hosts)}
        nports = 4
        ops, t = [], 0
        for h in hosts:
            ops.append(rx(loc[h], h, hosts[(hosts.index(h) + 1) % len(hosts)]))
        total = rng.choice([35000, 45000, 70000])
        a0, b0 = hosts[0], hosts[1]                   # the long-lived conversation
        while t < total:
            d = rng.choice([2000, 3000, 4000, 6000, 8000, 9000, 9875, rng.randrange(8, 80) * 125])
            t += d
            ops += [{"op": "adv", "ms": d}, {"op": "sweep", "sw": 0}]
            r = rng.random()
            if r < 0.72:
                ops.append(rx(loc[a0], a0, b0))
            elif r < 0.84:
                h = rng.choice([b0, b0, rng.choice(hosts)]); loc[h] = rng.randint(1, nports)
                ops.append(rx(loc[h], h, BCAST))
            else:
                a = rng.choice(hosts); b = rng.choice([h for h in hosts if h != a])
                ops.append(rx(loc[a], a, b, key=rng.choice([1, 2])))
        return {"transparent": False, "switches": [{"ports": nports, "bufs": rng.randint(0, 2)}], "links": [], "ops": ops}

    def random_case(self, rng, maxlen=200):
        if rng.random() < 0.2: return self.random_keepalive(rng)
        nsw = rng.choice([1, 1, 1, 2, 3])
        sws = [{"ports": rng.randint(2, 5), "bufs": rng.randint(0, 4)} for _ in range(nsw)]
        links, used = [], set()
        for i in range(1, nsw):                       # a tree: switch i hangs off an earlier one
            j = rng.randrange(i)
            pj = rng.choice([p for p in range(1, sws[j]["ports"] + 1) if (j, p) not in used] or [0])
            if pj == 0 or (i, 1) in used: continue
            used.add((j, pj)); used.add((i, 1)); links.append([j, pj, i, 1])
        hosts = [0x0a, 0x0b, 0x0c, 0x0d, 0x0e][:rng.randint(2, 5)]
        free = [(i, p) for i in range(nsw) for p in range(1, sws[i]["ports"] + 1) if (i, p) not in used] or [(0, 1)]
        if rng.random() < 0.5: free = free[:3]         # few attachment points: hosts share ports and come back to old ones
        loc = {h: rng.choice(free) for h in hosts}
        ops = []
        nkeys = rng.choice([1, 2, 3])
        for _ in range(rng.choice([6, 20, 60, maxlen, rng.randint(1, maxlen)])):
            r = rng.random()
            if r < 0.10:
                ops.append({"op": "adv", "ms": rng.choice([125, 1000, 5000, 9875, 10000, 10125, 20000, 29875, 30000, 30125])})
            elif r < 0.18:
                ops.append({"op": "sweep", "sw": rng.randrange(nsw)})
            else:
                if rng.random() < 0.15:
                    loc[rng.choice(hosts)] = rng.choice(free)          # a host moves
                src = rng.choice(hosts)
                dst = rng.choice(hosts + hosts + [BCAST, STP, LLDP_MC, PAUSE, FILTER_LAST, IP_MC, NOT_FILTERED_MC, 0xfe])
                kind = rng.choice(["udp", "udp", "udp", "udp", "arp", "arp", "lldp", "raw"])
                key = rng.randint(1, nkeys) if kind in ("udp", "arp") else 0
                sw, port = loc[src]
                if rng.random() < 0.02: port = rng.choice([0, sws[sw]["ports"] + 1])
                ops.append(self.rx(port, src, dst, kind, key, rng.choice([0, 0, 1, 2, 100, 101]), sw))
        return {"transparent": rng.random() < 0.25, "switches": sws, "links": links, "ops": ops}

    def generate(self, rng, tier):
        if tier == "thorough":
            for c in self._exhaustive("thorough"):
                yield c
        for _ in range(300 if tier == "quick" else 3000):
            yield self.random_case(rng)

    def search_cases(self, rng, tier):
        while True:
            yield self.random_case(rng, maxlen=60)

    # ------------------------------------------------------------------ model side
    def model_request(self, case):
        ops = []
        for op in case["ops"]:
            if op["op"] == "rx":
                ops.append({"op": "rx", "sw": op["sw"], "port": op["port"], "src": op["src"], "dst": op["dst"], "etype": etype_of(op["kind"]),
                            "key": op["key"], "l4": 1 if op["kind"] == "udp" else 0, "pay": op["pay"]})
            else:
                ops.append(op)
        return {"transparent": bool(case["transparent"]), "relearn": self.relearn, "dropinport": self.dropinport, "exactsig": self.exactsig, "t0": T0_MS, "switches": case["switches"], "links": case.get("links", []), "ops": ops}

    def model_obs(self, case, resp):
        return resp

    def impl_view(self, case, obs):
        steps = []
        for st in obs["steps"]:
            if st["k"] == "rx":
                steps.append({"k": "rx", "arr": [{"sw": a["sw"], "port": a["port"], "pin": a["pin"], "stuck": 0, "out": a["out"], "flows": a["flows"],
                                                 "bufs": a["bufs"]} for a in st["arr"]]})
            elif st["k"] == "sweep":
                d = {"k": "sweep", "flows": st["flows"]}
                if st["noise"]: d["noise"] = st["noise"]        # a sweep that emits frames or packet-ins has no model counterpart
                steps.append(d)
            else:
                steps.append(st)
        return {"steps": steps}

    # ------------------------------------------------------------------ the property, written directly (ideal bridge)
    def oracle(self, case, obs):
        return self.oracle_ex(case, obs)[0]

    def oracle_ex(self, case, obs):
        """(failure text or None, structural tag).  Per switch: seen[mac] = ports, most recent first (every arrival counts, like a
        hardware bridge).  The flow cache of the SPECIFICATION is tracked too (`spec`): an entry exists from the packet-in that must have
        installed it (idle 10 s / hard 30 s, the same-port drop entry 10 s / 10 s) until the first sweep after one of its timeouts has
        passed; frames that arrive without a packet-in refresh the idle timer.  "No older cached flow is still installed" is judged
        against that cache, so a flow that outlives its timeouts and keeps forwarding to an old port is a failure of the property."""
        nsw = len(case["switches"])
        seen = [dict() for _ in range(nsw)]
        via_flow = [dict() for _ in range(nsw)]    # mac -> True when its most recent arrival was forwarded by a cached flow (no packet-in)
        spec = [dict() for _ in range(nsw)]        # (in_port or 0, src, dst, kind, key) -> [created, touched, idle_ms, hard_ms]
        now = T0_MS
        if len(obs["steps"]) != len(case["ops"]): return "harness: step count", "harness"
        for op, st in zip(case["ops"], obs["steps"]):
            if op["op"] == "adv":
                now += op["ms"]; continue
            if op["op"] == "sweep":
                sp = spec[op["sw"]]
                for k in [k for k, (cr, to, idle, hard) in sp.items() if now - to > idle or now - cr > hard]: del sp[k]
                continue
            if op["op"] != "rx": continue
            src, dst, et = op["src"], op["dst"], etype_of(op["kind"])
            hdr = (src, dst, op["kind"], op["key"])
            hops = [(a["sw"], a["port"]) for a in st["arr"]]
            if len(set(hops)) != len(hops):                    # the harness builds loop-free topologies only
                return "one frame reached the same switch port twice: %s" % sorted(h for h in set(hops) if hops.count(h) > 1), "net-dup"
            for a in st["arr"]:
                si, port = a["sw"], a["port"]
                nports = case["switches"][si]["ports"]
                if not (1 <= port <= nports):
                    if a["out"] or a["pin"]: return "frame on a nonexistent port was processed", "bad-port"
                    continue
                ports = [p for p, _ in a["out"]]
                where = "sw%d port %d %012x->%012x" % (si, port, src, dst)
                cached = [k for k in ((port,) + hdr, (0,) + hdr) if k in spec[si]]
                if a["pin"]:
                    for k in cached: del spec[si][k]                 # the switch had no such entry (any more)
                else:
                    for k in cached: spec[si][k][1] = now
                if not a["pin_ok"]: return "packet-in raised for another switch (%s)" % where, "pin-dpid"
                if any(not ok for _, ok in a["out"]): return "emitted bytes differ from the frame that arrived (%s)" % where, "bytes"
                if port in ports: return "frame sent back out its ingress port (%s)" % where, "echo"
                if len(set(ports)) != len(ports): return "frame delivered twice to a port (%s): %s" % (where, ports), "dup"
                if any(not (1 <= p <= nports) for p in ports): return "delivery to a nonexistent port", "bad-out-port"
                if any(a["bufs"]): return "buffer still occupied at quiescence (%s): %s" % (where, a["bufs"]), "buffer-leak"
                others = [p for p in range(1, nports + 1) if p != port]
                known = seen[si].get(dst, [])
                if src == dst: known = [port] + known          # the frame itself is the latest sighting of its own destination
                filt = (not case["transparent"]) and (is_filtered_mac(dst) or et == LLDP_TYPE)
                if filt:
                    if ports: return "bridge-filtered / LLDP frame forwarded (%s) to %s" % (where, ports), "filtered-forwarded"
                elif is_mc(dst) or not known:
                    if sorted(ports) != others:
                        return "%s destination not flooded to all other ports (%s): %s" % ("multicast" if is_mc(dst) else "unknown", where, ports), \
                               ("mc-not-flooded" if is_mc(dst) else "unknown-not-flooded")
                else:
                    if any(p not in known for p in ports):
                        return "delivered to a port where the destination was never seen (%s): %s, seen %s" % (where, ports, known), "known-not-subset"
                    want = [] if known[0] == port else [known[0]]
                    if a["pin"]:                               # packet-in <=> no installed flow matched the frame
                        if ports != want:
                            tag = "fresh:dst-last-seen-through-cached-flow" if via_flow[si].get(dst) else "fresh:other"
                            return "no cached flow, yet not delivered to exactly the most recent port (%s): %s, seen %s" % (where, ports, known), tag
                        if ports: spec[si][(port,) + hdr] = [now, now, 10000, 30000]
                        else: spec[si][(0,) + hdr] = [now, now, 10000, 10000]
                    elif not cached and ports != want:
                        return ("forwarded by a cached flow that its idle 10 s / hard 30 s timeouts and a sweep should have removed, not to the most "
                                "recent port (%s): %s, seen %s" % (where, ports, known)), "fresh:cached-flow-outlived-timeout"
                seen[si].setdefault(src, [])
                seen[si][src] = [port] + seen[si][src]
                via_flow[si][src] = (a["pin"] == 0)
        return None, None

    def finding_key(self, case, obs, failure):
        if isinstance(obs, dict) and "steps" in obs:
            f, tag = self.oracle_ex(case, obs)
            if tag: return tag
        return re.sub(r"\d+", "N", str(failure))[:80]

    def nontrivial(self, case, obs):
        kinds = set()
        for st in obs["steps"]:
            if st["k"] != "rx": continue
            for a in st["arr"]:
                kinds.add("pin" if a["pin"] else "hit")
                kinds.add("multi" if len(a["out"]) > 1 else ("one" if a["out"] else "none"))
        return {"pin", "hit"} <= kinds or len(kinds) >= 4

    def shrink_candidates(self, case):
        import copy
        ops = case["ops"]
        for i in range(len(ops)):
            c = copy.deepcopy(case); del c["ops"][i]; yield c
        for i, op in enumerate(ops):
            if op["op"] == "rx" and op.get("pay"):
                c = copy.deepcopy(case); c["ops"][i]["pay"] = 0; yield c


CHECK = C11
