"""C11 — learning-switch control loop forwards like an ideal learning bridge (DESIGN §5 C11).

Implementation side: 1..3 real `SoftwareSwitch`es (+ `OFConnection` + `IOWorker`), each with its own real
`of_01.Connection` to the ONE real `l2_learning` component, joined by in-memory byte pipes (structure of
design_spikes/py/ofnet.py); optional loop-free links between switch ports (a frame a switch emits on a link port arrives at
the peer port; breadth-first).  Virtual clock.  Model side: `drv_c11` (lean/PoxModel/Model/L2.lean)."""
import itertools, re, copy
import common, poxenv
from common import Check

BCAST = 0xffffffffffff
STP = 0x0180c2000000
LLDP_MC = 0x0180c200000e
PAUSE = 0x0180c2000001
FILTER_LAST = 0x0180c200000f       # last address of the bridge-filtered block
NOT_FILTERED_MC = 0x0180c2000010      # first address after the bridge-filtered block
IP_MC = 0x01005e000001
LLDP_TYPE = 0x88cc
T0_MS = 1000000                       # virtual clock at the start of every case (poxenv.clock.now = 1000.0)


def mac_bytes(m):
    return m.to_bytes(6, "big")


def is_mc(m):
    return (m >> 40) & 1 == 1


def is_filtered_mac(m):
    return (m >> 4) == (STP >> 4)


def etype_of(kind):
    # raw6: exactly the smallest Ethernet II type (0x0600; anything below is an 802.3 length)
    return {"udp": 0x0800, "arp": 0x0806, "lldp": LLDP_TYPE, "raw": 0x88b5, "raw6": 0x0600}[kind]


IP_A, IP_B = 0x0a000001, 0x0a000002      # 10.0.0.1 -> 10.0.0.2 unless the frame says otherwise


def fspec(op):
    """What a frame description means, written independently of the code under test:
    (outer ethertype — what `ethernet.type` is —, the header fields an exact OpenFlow 1.0 match of the frame has, is it IPv4 TCP/UDP/ICMP).
    Fields: [dl_vlan, dl_vlan_pcp, dl_type, nw_tos, nw_proto, nw_src, nw_dst, tp_src, tp_dst], None = the field does not apply.
    `x` refines a kind: tos, proto (kind ipraw), dport, code, op (ARP opcode), sip, dip, vlan [id, pcp], frag (IPv4 flags+offset word)."""
    kind, key, x = op["kind"], op["key"], op.get("x") or {}
    inner = {"udp": 0x0800, "tcp": 0x0800, "icmp": 0x0800, "ipraw": 0x0800, "arp": 0x0806, "lldp": LLDP_TYPE, "raw": 0x88b5, "raw6": 0x0600}[kind]
    vl = x.get("vlan")
    f = [vl[0] if vl else 0xffff, vl[1] if vl else 0, inner, None, None, None, None, None, None]
    if inner == 0x0800:
        proto = {"udp": 17, "tcp": 6, "icmp": 1}.get(kind, x.get("proto", 253))
        f[3:7] = [x.get("tos", 0) & 0xfc, proto, x.get("sip", IP_A), x.get("dip", IP_B)]
        if kind in ("udp", "tcp"): f[7:9] = [key, x.get("dport", 9)]
        elif kind == "icmp": f[7:9] = [key & 0xff, x.get("code", 0)]
        # OpenFlow 1.0 §3.4 (flow-chart, "IP fragment?"): a fragment — More Fragments set or a non-zero offset — is looked up with
        # both transport ports zero, whatever its protocol; x["frag"] is the 16-bit flags+offset word of the IPv4 header
        # (for a protocol without transport fields the installed match ignores them anyway: prerequisites not met)
        if x.get("frag", 0) & 0x3fff and kind in ("udp", "tcp", "icmp"): f[7:9] = [0, 0]
    elif inner == 0x0806:
        f[4:7] = [x.get("op", 1) & 0xff, x.get("sip", IP_A), 0x0a000000 | (key & 0xffff)]
    return (0x8100 if vl else inner), f, kind in ("udp", "tcp", "icmp")


def enc_fields(f):
    """one number for the nine fields (injective: each field < 2^32)"""
    k = 0
    for i, v in enumerate(f):
        k |= (0 if v is None else v + 1) << (33 * i)
    return k


def hdr_of(op):
    outer, f, l4 = fspec(op)
    return (op["src"], op["dst"], outer, enc_fields(f))


class Pipe:
    def __init__(self): self.to_switch = b""; self.to_ctl = b""


class OddError(Exception):
    """an exception class of the harness's own, with a text that is awkward to log or format"""
    def __str__(self): return "défaut %s {} %d\nsecond line"


def make_exc(sp):
    """one concrete spelling of 'the send failed' (HARDENING 11).  Every one is an Exception; ctl-* spellings carry errno and strerror like a real socket error."""
    import errno, socket
    E = {"OSError": lambda: OSError(errno.EIO, "Input/output error"), "OSError-bare": lambda: OSError(), "IOError-text": lambda: IOError("tap write failed"),
         "ENOBUFS": lambda: OSError(errno.ENOBUFS, "No buffer space available"), "ENETDOWN": lambda: OSError(errno.ENETDOWN, "Network is down"),
         "EPIPE": lambda: BrokenPipeError(errno.EPIPE, "Broken pipe"), "ECONNRESET": lambda: ConnectionResetError(errno.ECONNRESET, "Connection reset by peer"),
         "EAGAIN": lambda: OSError(errno.EAGAIN, "Resource temporarily unavailable"), "BlockingIOError": lambda: BlockingIOError(errno.EAGAIN, "Resource temporarily unavailable"),
         "EWOULDBLOCK": lambda: socket.error(errno.EWOULDBLOCK, "Operation would block"),
         "timeout": lambda: socket.timeout("timed out"), "RuntimeError": lambda: RuntimeError("send failed"), "ValueError": lambda: ValueError(""),
         "KeyError": lambda: KeyError(3), "TypeError": lambda: TypeError("%s"), "AssertionError": lambda: AssertionError(), "AttributeError": lambda: AttributeError("fileno"),
         "StopIteration": lambda: StopIteration(), "MemoryError": lambda: MemoryError(), "OddError": lambda: OddError()}
    return E[sp]()


DP_SPELLINGS = ["OSError", "RuntimeError", "EPIPE", "OSError-bare", "IOError-text", "ENOBUFS", "ENETDOWN", "ECONNRESET", "EAGAIN", "timeout", "ValueError", "KeyError",
                "TypeError", "AssertionError", "AttributeError", "StopIteration", "MemoryError", "OddError", "BlockingIOError"]
CTL_DELAY = ["EAGAIN", "BlockingIOError", "EWOULDBLOCK", "short0", "short1", "short8", "short-1"]      # the write is late, nothing is lost
CTL_FATAL = ["EPIPE", "ECONNRESET", "ENOBUFS", "OSError", "ENETDOWN"]                                   # the controller gives the connection up


class LiveDeferred:
    """of_01's deferred sender with its real contract (HARDENING 21) but no thread: data a socket did not take is kept IN ORDER, while anything is
    queued `sending` is true (so later sends queue up behind it instead of overtaking), and the queue is written out when the harness pumps."""
    def __init__(self): self.q = []
    @property
    def sending(self): return bool(self.q)
    def send(self, con, data): self.q.append((con, bytes(data)))
    def kill(self, con): self.q = [(c, d) for c, d in self.q if c is not con]
    def flush(self):
        q, self.q = self.q, []
        for con, d in q:
            if not getattr(con, "disconnected", False): con.sock.send(d)
        return bool(q)


class CtlSock:
    """what of_01.Connection reads from / writes to.  `fault` = (k, spelling): the k-th write after the handshake fails — raises, or takes only part of the data"""
    def __init__(self, p): self.p = p; self.fault = None; self.writes = 0; self.hit = False
    def send(self, d):
        if self.fault is not None:
            self.writes += 1
            if self.writes == self.fault[0]:
                self.hit = True
                sp = self.fault[1]
                if sp.startswith("short"):
                    j = int(sp[5:]); j = j if j >= 0 else max(0, len(d) + j)
                    j = min(j, len(d)); self.p.to_switch += d[:j]; return j
                raise make_exc(sp)
        self.p.to_switch += d; return len(d)
    def recv(self, n): d = self.p.to_ctl[:n]; self.p.to_ctl = self.p.to_ctl[n:]; return d
    def shutdown(self, *a): pass
    def close(self): pass
    def fileno(self): return -1
    def getpeername(self): return ("switch", 1)


class SwSock:
    def getpeername(self): return ("controller", 6633)
    def shutdown(self, *a): pass
    def close(self): pass
    def fileno(self): return -1


class C11(Check):
    id = "C11"
    prop_module = "PoxModel.Properties.C11"
    lean_targets = ["drv_c11"]
    driver = "drv_c11"
    theorems = ["Pox.C11.reachable_inv", "Pox.C11.init_inv", "Pox.C11.no_stuck", "Pox.C11.no_echo_no_dup", "Pox.C11.unknown_floods",
                "Pox.C11.buffers_drain", "Pox.C11.buffers_drain_history", "Pox.C11.known_dst", "Pox.C11.known_dst_fresh_partial",
                "Pox.C11.stale_only_by_cached_hit", "Pox.C11.miss_refreshes", "Pox.C11.filtered", "Pox.C11.ideal_when_current", "Pox.C11.every_hop", "Pox.C11.net_reachable_inv",
                "Pox.C11.hop_provenance", "Pox.C11.net_no_echo_no_dup", "Pox.C11.net_unknown_floods", "Pox.C11.net_known_dst",
                "Pox.C11.net_known_dst_fresh_partial", "Pox.C11.net_filtered", "Pox.C11.net_buffers_drain", "Pox.C11.net_cache_bounded",
                "Pox.C11.netInit_inv", "Pox.C11.arrive_current", "Pox.C11.current_reachable", "Pox.C11.known_dst_fresh_repaired",
                "Pox.C11.ideal_repaired", "Pox.C11.net_known_dst_fresh_repaired", "Pox.L2.sweep_bounds", "Pox.L2.sweep_keeps", "Pox.L2.mem_sweep_iff",
                "Pox.C11.propagate_complete", "Pox.C11.net_complete",
                "Pox.C11.known_dst_fresh_defect"]
    # name-based anchors, resolved on the current source at every run (the data setter is added in setup(): two defs are called `data`)
    anchors = [("pox/forwarding/l2_learning.py", "LearningSwitch._handle_PacketIn"), ("pox/openflow/libopenflow_01.py", "ofp_flow_mod.pack")]
    design_ref = "DESIGN.md §5 C11"
    coverage_cases = 400
    technique = ("Lean 4 proof (invariant of the closed loop switch datapath + LearningSwitch controller over all frame histories with clock advances and "
                 "expiry sweeps, then per-arrival theorems against the ideal-bridge history) + differential correspondence: compiled Lean model vs real "
                 "SoftwareSwitch/of_01.Connection/l2_learning over the real OpenFlow encoding + independent ideal-bridge oracle in Python")
    level_text = ("For every history (arrivals on any port, clock advances, sweeps), any port count < 0xff00, any buffer-pool size, transparent or not: "
                  "deliveries of one arrival are distinct existing ports other than the ingress and carry the arriving frame (no_echo_no_dup); multicast/broadcast or "
                  "never-seen destinations that are not filtered go to exactly all other ports (unknown_floods); all buffer slots are free at quiescence "
                  "(buffers_drain, buffers_drain_history); a seen unicast destination is delivered only where it was seen (known_dst); bridge-filtered/LLDP frames "
                  "are not forwarded (filtered — its hypothesis `Filtered` includes transparent = false: a component started with --transparent forwards them "
                  "like any other frame, as the code intends); with no matching flow AND a current controller table the delivery is exactly the most recent port "
                  "(known_dst_fresh_partial). The property's 'exactly the most recent port' clause FAILS on the code as it stands when the destination's latest "
                  "frames were absorbed by a cached flow on another port (known_dst_fresh_defect, decide-checked witness replayed on the real system; "
                  "stale_only_by_cached_hit / miss_refreshes characterise exactly when the controller table is stale). Networks: every_hop / net_* state "
                  "the same clauses for every hop of every frame of every history in any network of switches joined by links (per-switch learning state, "
                  "one clock), hop_provenance says frames only travel along links, net_buffers_drain that no switch ever holds a buffer at quiescence, "
                  "net_cache_bounded / sweep_bounds that after a sweep no entry is older than 30 s or idle for more than 10 s, sweep_keeps / mem_sweep_iff "
                  "that a sweep removes nothing else. The net_* theorems hold for any hop budget; propagate_complete / net_complete add that when the "
                  "budget sufficed (`netOk`, the driver refuses to answer otherwise) every frame put on a link has its hop in the log, so nothing is "
                  "silently truncated. NOT proved: network-wide absence of duplicates in loop-free topologies (net_no_dup_full is kept as a named, "
                  "unproved statement; 'no frame delivered twice' is proved per switch, and the oracle checks the network-wide form on every case). The model is parametric in "
                  "whether the tree carries repair C11-K1 (read from l2_learning.py on every run): for the repaired component current_reachable shows "
                  "macToPort d = most recent port of d in every reachable state and known_dst_fresh_repaired / ideal_repaired / "
                  "net_known_dst_fresh_repaired give the clause at full strength.")
    level_note = ("Trusted: Lean kernel, standard axioms, the hand-written Model/L2.lean (frames abstracted to (src,dst,ethertype,key,full,pay); OpenFlow messages "
                  "abstracted to packet_out/flow_mod/barrier records; the controller answers synchronously), Model/BufPool.lean, this harness. The wire codec, "
                  "framing and match semantics themselves are C01/C02/C03; here they are only in the loop of the differential run.")
    trusted_base = ["model Model/L2.lean hand-written from l2_learning._handle_PacketIn, ofp_flow_mod.pack data magic, ofp_packet_out.data setter, "
                    "SoftwareSwitchBase.rx_packet/_rx_flow_mod/_rx_packet_out/_output_packet, flow_table.py; tied by this correspondence run",
                    "Python ideal-bridge oracle (harness/c11.py oracle_ex) written independently of the model"]
    assumptions = ["control channel processed to quiescence between data-plane arrivals (single-threaded cooperative POX; the harness pumps the byte pipes)",
                   "ports up, no NO_FLOOD/NO_FWD port config; flow table not full",
                   "hold_down > 0: frames inside the window are judged by the ideal-bridge oracle only (not flooded by design; every other clause as stated); "
                   "the model and theorems cover hold_down = 0 and every history whose frames all arrive after the window",
                   "injected faults (a physical send raising; a controller write that is late, partial or fatal) and `ignore` are oracle-only except the late / "
                   "partial writes, which must change nothing and are model-compared; after a fatal write error the controller drops that switch and the "
                   "property is judged on the other switches only",
                   "bursts (several packet-ins in one controller read) are checked against the ideal-bridge oracle only, not against the model or theorems",
                   "an exception escaping rx_packet / the control channel is recorded as an observable of that arrival (model disagreement), other harness errors are broken ties",
                   "network-wide no-duplicates (no switch port sees one frame twice when the links form a forest) is checked by the oracle, not proved",
                   "network theorems are per hop; that a frame reaches its destination host across a loop-free topology (end-to-end delivery) is not stated",
                   "frames are untagged Ethernet II whose ofp_match.from_packet is determined by (src,dst,ethertype,key); port numbers < OFPP_MAX"]
    rule = ("case = (transparent?, 1..3 switches with 2..5 ports and pools of 0..4 buffers, loop-free links, history of host frames (UDP/ARP/LLDP/raw; unicast, "
            "broadcast, IP multicast, STP/LLDP/pause destinations; host moves; frames longer than miss_send_len), clock advances around the 10 s/30 s timeouts, sweeps); "
            "corpus = ALL length-4 sequences over a 9-letter (quick) / 12-letter (thorough) alphabet for pools of 0 and 1 (and 2) buffers + hand-written seeds incl. the "
            "defect witness and keep-alive histories (a flow refreshed past its hard timeout while the destination moves, sweep before every frame); random "
            "histories to length 200, one in five from the keep-alive family; HARDENING families: OpenFlow port numbers 255..257 / 32766.. / 0xfef1.. (a logical "
            "port i is port base+i; half of the exhaustive corpus runs on 255..257), switches that share nothing but the controller component, transport "
            "port 0/256/257/65535, the all-zero MAC, a group address as source, ethertype 0x0600, frames of exactly 128/129 bytes, rx_packet with and "
            "without packet_data, same-port drop entries kept busy while the destination moves, BURSTS (several frames reach a switch before the control "
            "channel moves: several packet-ins per read; oracle only, the model answers packet-ins one at a time); OPTIONS of the component as case parameters, "
            "started through launch() with the option texts: hold_down 1..30 s with frames before, at the edge of and after the window on the virtual clock, "
            "transparent, ignore (every subset of 2..3 switches); FAULTS as case parameters: the k-th physical send of a switch raises (19 spellings, every k of a "
            "walk through all answer kinds, pools 0..2) — that frame may be lost, later frames and the buffer pool must be as if nothing happened; the k-th "
            "controller write is late or partial (EAGAIN / BlockingIOError / short by 0,1,8,len-1 bytes; a deferred sender with the real ordering contract; "
            "nothing may change) or fatal (that switch is dropped, the others must be unharmed); the three code variants (K1 relearn, "
            "drop entry in_port, D26 exact ranking) are found by probing the running system, source shapes are a cross-check recorded in the evidence; the oracle keeps the SPECIFIED flow cache (10 s idle / 30 s hard, removed at "
            "the first sweep after a timeout) to judge 'no older cached flow is still installed'; non-trivial = the history has both a packet-in and a cached-flow hit, or four kinds of outcome")

    # ------------------------------------------------------------------ real system
    def setup(self):
        core = poxenv.boot()
        import pox.openflow.of_01 as of_01, pox.openflow.libopenflow_01 as of
        from pox.datapaths.switch import SoftwareSwitch, OFConnection, DpPacketOut
        from pox.lib.ioworker import IOWorker
        from pox.lib.packet import ethernet, ipv4, udp, arp
        from pox.lib.addresses import EthAddr, IPAddr
        import pox.forwarding.l2_learning as l2
        if not core.hasComponent("l2_learning"):
            core.registerNew(l2.l2_learning, False)
        self.core, self.of_01, self.of, self.l2 = core, of_01, of, l2
        self.SoftwareSwitch, self.OFConnection, self.DpPacketOut, self.IOWorker = SoftwareSwitch, OFConnection, DpPacketOut, IOWorker
        self.pk = (ethernet, ipv4, udp, arp, EthAddr, IPAddr)
        self.pins = []
        self.pin_data = []
        setter = self.resolve_setter("pox/openflow/libopenflow_01.py", "ofp_packet_out", "data")
        self.anchors = list(type(self).anchors) + ([("pox/openflow/libopenflow_01.py",) + setter] if setter else
                                                   [("pox/openflow/libopenflow_01.py", "ofp_packet_out.data.setter-not-found")])
        core.openflow.addListenerByName("PacketIn", lambda e: (self.pins.append(e.dpid), self.pin_data.append(bytes(e.data))))
        self._dpid = 0
        self._fcache = {}
        self.live_deferred = None
        self._options_dirty = False
        # exceptions that the switch's / controller's read paths and event dispatch contain are logged with a traceback (log.exception): collect
        # those records (and nothing below ERROR); a contained exception while a frame is processed is an observable of that arrival
        import logging
        chk = self
        class Collect(logging.Handler):
            def emit(self, record):
                if record.exc_info and record.exc_info[0] is not None:
                    chk.errs.append("%s:%s" % (record.name.split(".")[0] if record.name[:2] != "00" else "switch", record.exc_info[0].__name__))
        self.errs = []
        if not any(isinstance(h, Collect) or type(h).__name__ == "Collect" for h in logging.getLogger().handlers):
            logging.getLogger().addHandler(Collect(level=logging.ERROR))
        logging.disable(logging.WARNING)
        self.relearn = self.dropinport = self.exactsig = False
        self.variant_notes = []
        self.probe_variants()

    def probe_variants(self):
        """Which variant of the code is in the tree is found by PROBING the running system (HARDENING 8): three two- or three-frame histories on a
        real switch + controller, read through the same observables as every case.  The source shapes are read as a cross-check only; a
        difference is recorded in the evidence, never an abort.  The model takes the three answers as parameters and the whole
        correspondence run validates them."""
        rx, A, B = self.rx, self.A, self.B
        one = lambda ops: {"transparent": False, "switches": [{"ports": 3, "bufs": 1}], "links": [], "ops": ops}
        def last_flows(ops):
            obs = self.safe_impl(one(ops))
            try: return obs["steps"][-1]["arr"][0]["flows"]
            except Exception: return None
        # repair C11-K1: a source that shows up on another port has its cached entries deleted
        fl = last_flows([rx(3, B, A), rx(1, A, B), rx(2, A, BCAST)])
        probed_relearn = None if fl is None else not any(r[0] == 1 and r[1] == A for r in fl)
        # ... and the same-port drop entry carries the ingress port
        fl = last_flows([rx(1, B, BCAST), rx(1, A, B)])
        drops = [r for r in (fl or []) if r[5] == 0]
        probed_dip = None if not drops else drops[0][0] != 0
        # repair D26: an ARP flow built by from_packet is ranked as exact
        fl = last_flows([rx(2, B, A, kind="arp"), rx(1, A, B, kind="arp")])
        arps = [r for r in (fl or []) if r[3] == 0x0806 and r[0] != 0]
        probed_exact = None if not arps else bool(arps[0][10])
        try: src_relearn, src_dip = self.read_repair_flags()
        except Exception as e: src_relearn = src_dip = None; self.variant_notes.append("l2_learning.py not readable: %s" % type(e).__name__)
        try: src_exact = self.read_exact_variant()
        except Exception as e: src_exact = None; self.variant_notes.append("is_wildcarded shape unknown")
        for name, probed, src in (("relearn", probed_relearn, src_relearn), ("dropinport", probed_dip, src_dip), ("exactsig", probed_exact, src_exact)):
            val = probed if probed is not None else bool(src)
            if probed is None: self.variant_notes.append("%s: probe inconclusive, source reading %s used" % (name, src))
            elif src is not None and src != probed: self.variant_notes.append("%s: probed %s, source shape says %s" % (name, probed, src))
            setattr(self, name, bool(val))

    @staticmethod
    def read_repair_flags():
        """Which variant of l2_learning is in the tree (read from the source with `ast`, never imported here): does `_handle_PacketIn` send an
        OFPFC_DELETE for a source that moved (repair C11-K1), and does its `drop` build the match with the ingress port?  The model takes both as
        parameters; a wrong reading shows up as a correspondence disagreement."""
        import ast, os
        tree = ast.parse(open(os.path.join(common.REPO, "pox", "forwarding", "l2_learning.py")).read())
        fn = next((n for n in ast.walk(tree) if isinstance(n, ast.FunctionDef) and n.name == "_handle_PacketIn"), None)
        if fn is None: return False, False
        relearn = any(isinstance(n, ast.Attribute) and n.attr == "OFPFC_DELETE" for n in ast.walk(fn))
        drop = next((n for n in ast.walk(fn) if isinstance(n, ast.FunctionDef) and n.name == "drop"), None)
        dip = drop is not None and any(isinstance(c, ast.Call) and getattr(c.func, "attr", None) == "from_packet" and
                                       (len(c.args) >= 2 or any(k.arg == "in_port" for k in c.keywords)) for c in ast.walk(drop))
        return relearn, dip

    @staticmethod
    def resolve_setter(rel, cls, prop):
        """(first, last) line of `@<prop>.setter def <prop>` in class `cls`, from the current source"""
        import ast, os
        tree = ast.parse(open(os.path.join(common.REPO, rel)).read())
        for c in tree.body:
            if isinstance(c, ast.ClassDef) and c.name == cls:
                for f in c.body:
                    if isinstance(f, ast.FunctionDef) and f.name == prop and any(ast.unparse(d) == prop + ".setter" for d in f.decorator_list):
                        return (min([f.lineno] + [d.lineno for d in f.decorator_list]), f.end_lineno)
        return None

    EXACT_SHAPES = {False: "return self.wildcards & OFPFW_ALL != 0",
                    True: "return self.wildcards & ~self._unwire_wildcards(0) & OFPFW_ALL != 0"}

    @staticmethod
    def read_exact_variant():
        """Does the tree rank a flow whose only wildcard bits sit on fields ignored for lack of prerequisites (ARP, non-IP: what from_packet gives
        after the wire round trip) as EXACT (repair D26, fixes/C03_D26_exact_ignores_prereqless.diff)?  Read off `ofp_match.is_wildcarded` with
        `ast` (same shapes as harness/c03.py detect_variant); an unknown shape is an error, not a guess.  The model takes it as a parameter
        (`frameFull`); the correspondence (flow-table order and the exact bit of every entry are compared) validates the reading."""
        import ast, os
        tree = ast.parse(open(os.path.join(common.REPO, "pox", "openflow", "libopenflow_01.py")).read())
        cls = next(n for n in tree.body if isinstance(n, ast.ClassDef) and n.name == "ofp_match")
        fn = next(f for f in cls.body if isinstance(f, ast.FunctionDef) and f.name == "is_wildcarded")
        text = "\n".join(ast.unparse(x) for x in fn.body if not (isinstance(x, ast.Expr) and isinstance(getattr(x, "value", None), ast.Constant)))
        hits = [k for k, shape in C11.EXACT_SHAPES.items() if text == shape]
        if len(hits) != 1: raise RuntimeError("ofp_match.is_wildcarded has a shape the C11 model does not know: " + text[:200])
        return hits[0]

    def extra_evidence(self):
        return {"l2_learning_variant": {"relearn_on_move": self.relearn, "drop_entry_has_in_port": self.dropinport},
                "flow_table_variant": {"prerequisite_less_wildcards_rank_exact": self.exactsig},
                "variant_detection": "probed on the running system; source shapes as cross-check", "variant_notes": self.variant_notes}

    def frame(self, op):
        """real frame bytes for a frame description, built with the packet library; `pay` only changes bytes no match looks at"""
        x = op.get("x") or {}
        k = (op["src"], op["dst"], op["kind"], op["key"], op["pay"], common.canon(x))
        fb = self._fcache.get(k)
        if fb is not None: return fb
        src, dst, kind, key, pay = op["src"], op["dst"], op["kind"], op["key"], op["pay"]
        ethernet, ipv4, udp, arp, EthAddr, IPAddr = self.pk
        from pox.lib.packet import tcp, icmp, vlan
        outer, f, _ = fspec(op)
        inner_type = f[2]
        if pay < 100: body = b"p" + bytes([pay & 0xff]) * (1 + pay % 5)
        elif pay < 200: body = bytes([pay & 0xff]) * 300            # longer than miss_send_len (128): the packet-in is truncated, only the buffer has it all
        else: body = bytes([pay & 0xff]) * (pay - 200 + 84)         # UDP: pay 202 -> a frame of exactly 128 bytes, 203 -> 129
        if inner_type == 0x0800:
            ip = ipv4(srcip=IPAddr(x.get("sip", IP_A)), dstip=IPAddr(x.get("dip", IP_B)), protocol=f[4], tos=x.get("tos", 0))
            if kind == "udp":
                ip.payload = udp(srcport=key, dstport=x.get("dport", 9)); ip.payload.payload = body
            elif kind == "tcp":
                t = tcp(srcport=key, dstport=x.get("dport", 9)); t.off = 5; t.payload = body; ip.payload = t
            elif kind == "icmp":
                ic = icmp(type=key & 0xff, code=x.get("code", 0)); ic.payload = body; ip.payload = ic
            else:
                ip.payload = body
            if x.get("frag") is not None:            # (the L4 header, if any, sits whole in the fragment: it re-serialises to the same bytes)
                ip.flags = (x["frag"] >> 13) & 7; ip.frag = x["frag"] & 0x1fff
            l3 = ip
        elif inner_type == 0x0806:
            l3 = arp(opcode=x.get("op", 1), hwsrc=EthAddr(mac_bytes(src)), hwdst=EthAddr(b"\0" * 5 + bytes([pay & 0xff])),
                     protosrc=IPAddr(x.get("sip", IP_A)), protodst=IPAddr(0x0a000000 | (key & 0xffff)))
        else:
            l3 = bytes([pay & 0xff]) * (2 + pay % 7)
        e = ethernet(src=EthAddr(mac_bytes(src)), dst=EthAddr(mac_bytes(dst)))
        if x.get("vlan"):
            v = vlan(id=x["vlan"][0], pcp=x["vlan"][1], eth_type=inner_type); v.payload = l3
            e.type = 0x8100; e.payload = v
        else:
            e.type = inner_type; e.payload = l3
        fb = e.pack()
        self._fcache[k] = fb
        return fb

    class Node:
        def __init__(self, chk, idx, nports, bufs, base=0):
            chk._dpid += 1
            self.chk = chk
            self.idx, self.dpid = idx, chk._dpid
            self.nports, self.base = nports, int(str(base))          # a port number built at run time, not a literal (HARDENING 3)
            self.pipe = Pipe()
            self.w = chk.IOWorker(); self.w.socket = SwSock()
            self.sw = chk.SoftwareSwitch(dpid=self.dpid, ports=0, max_buffers=bufs)
            for i in range(1, nports + 1):                           # logical port i is OpenFlow port base + i
                self.sw.add_port(self.sw.generate_port(self.base + i, name="p%d" % i))
            self.ofc = chk.OFConnection(self.w); self.sw.set_connection(self.ofc)
            self.out = []
            self.dp_fault = None; self.dp_sends = 0; self.dp_hit = False          # (k, spelling): the k-th physical send of this switch raises
            def on_out(e):
                item = (self.logical(e.port.port_no), e.packet.pack())
                if self.dp_fault is not None:
                    self.dp_sends += 1
                    if self.dp_sends == self.dp_fault[0]:
                        self.dp_hit = True
                        raise make_exc(self.dp_fault[1])                          # this frame did not leave the port
                self.out.append(item)
            self.sw.addListener(chk.DpPacketOut, on_out)
            self.csock = CtlSock(self.pipe)
            self.con = chk.of_01.Connection(self.csock)
            self.pump()
        def logical(self, real):
            """logical number of an OpenFlow port number of this switch; numbers that are not its ports are kept apart (negative)"""
            if real is None: return 0
            i = real - self.base
            return i if 1 <= i <= self.nports else -(real + 1)
        def pump(self):
            moved, n = True, 0
            while moved:
                moved = False; n += 1
                if n > 40: raise RuntimeError("control channel does not quiesce")
                if self.pipe.to_switch:
                    d = self.pipe.to_switch; self.pipe.to_switch = b""; self.w._push_receive_data(d); moved = True
                if self.w.send_buf:
                    self.pipe.to_ctl += bytes(self.w.send_buf); self.w.send_buf = b""; moved = True
                if self.pipe.to_ctl:
                    self.con.read(); moved = True
                if not moved and self.chk.live_deferred is not None and self.chk.live_deferred.flush():
                    moved = True                                                  # the socket is writable again: the deferred sender writes what it kept

    def table_summary(self, node):
        rows = []
        for e in node.sw.table.entries:
            m = e.match
            outs = [a.port for a in e.actions]
            ipn = lambda v: None if v is None else v.toUnsigned()
            f = [m.dl_vlan, m.dl_vlan_pcp, m.dl_type, m.nw_tos, m.nw_proto, ipn(m.nw_src), ipn(m.nw_dst), m.tp_src, m.tp_dst]
            tagged = m.dl_vlan is not None and m.dl_vlan != 0xffff
            rows.append([node.logical(m.in_port), int.from_bytes(m.dl_src.raw, "big"), int.from_bytes(m.dl_dst.raw, "big"),
                         0x8100 if tagged else m.dl_type, enc_fields(f),
                         node.logical(outs[0]) if len(outs) == 1 else (0 if not outs else -1),
                         e.idle_timeout, e.hard_timeout, int(round(e.created * 1000)), int(round(e.last_touched * 1000)),
                         1 if e.effective_priority > 0xffff else 0])
        return rows

    def impl(self, case):
        clock = poxenv.clock
        clock.now = T0_MS / 1000.0
        self.configure(case)
        fault = case.get("fault")
        stub_deferred = self.of_01.deferredSender
        if fault and fault["at"] == "ctl":
            self.live_deferred = self.of_01.deferredSender = LiveDeferred()
        nodes = []
        pd = case.get("pd", True)          # rx_packet(packet, port, packet_data=bytes) or rx_packet(packet, port): both are its calling convention
        def deliver(n, fb, port):
            """one frame reaches a port of the real switch; an exception that escapes the code under test is an observable, not a harness error"""
            real = n.base + port
            try:
                if pd: n.sw.rx_packet(self.pk[0](fb), real, packet_data=fb)
                else: n.sw.rx_packet(self.pk[0](fb), real)
                return None
            except Exception as e:
                return type(e).__name__
        def settle(n):
            try:
                n.pump(); return None
            except Exception as e:
                n.pipe.to_switch = b""; n.pipe.to_ctl = b""
                return type(e).__name__
        def fault_fired(n):
            """did the injected fault fire at switch n since the last call (an observable of the arrival it hit)"""
            f = None
            if n.dp_hit: n.dp_hit = False; f = "dp"
            if n.csock.hit: n.csock.hit = False; f = "ctl"
            return f
        try:
            for i, w in enumerate(case["switches"]):
                nodes.append(self.Node(self, i, w["ports"], w["bufs"], w.get("base", 0)))
            for n in nodes:
                if n.dpid not in self.core.openflow.connections: raise RuntimeError("handshake did not complete")
            if fault:
                fn = nodes[fault.get("sw", 0)]
                if fault["at"] == "dp": fn.dp_fault = (fault["k"], fault["exc"])
                else: fn.csock.fault = (fault["k"], fault["exc"])
            link = {}
            for a, pa, b, pb in case.get("links", []):
                link[(a, pa)] = (b, pb); link[(b, pb)] = (a, pa)
            steps = []
            for op in case["ops"]:
                if op["op"] == "adv":
                    clock.now = clock.now + op["ms"] / 1000.0
                    steps.append({"k": "adv"})
                elif op["op"] == "sweep":
                    n = nodes[op["sw"]]
                    n.out.clear(); del self.pins[:]; del self.pin_data[:]; del self.errs[:]
                    n.sw.table.remove_expired_entries(clock.now); n.pump()
                    steps.append({"k": "sweep", "flows": self.table_summary(n), "noise": len(n.out) + len(self.pins) + len(self.errs)})
                elif op["op"] == "burst":
                    # several frames reach ONE switch before the control channel moves: the packet-ins share one read at the controller and the
                    # answers one read at the switch (HARDENING 5).  Frames of a burst have pairwise different bytes, so deliveries and
                    # packet-ins are attributed by content.  No links in burst cases.
                    n = nodes[op["sw"]]
                    n.out.clear(); del self.pins[:]; del self.pin_data[:]; del self.errs[:]
                    fbs = [self.frame(f) for f in op["frames"]]
                    if len(set(fbs)) != len(fbs): raise RuntimeError("burst frames must differ")
                    excs = [deliver(n, fb, f["port"]) for f, fb in zip(op["frames"], fbs)]
                    exc2 = settle(n)
                    flows, bufs = self.table_summary(n), [0 if b is None else 1 for b in n.sw._packet_buffer]
                    arrivals = []
                    for f, fb, ex in zip(op["frames"], fbs, excs):
                        a = {"sw": op["sw"], "port": f["port"], "pin": sum(1 for d in self.pin_data if d == fb), "pin_ok": 1 if all(d == n.dpid for d in self.pins) else 0,
                             "out": [[p, 1] for p, b in n.out if b == fb], "flows": flows, "bufs": bufs}
                        if ex or exc2: a["exc"] = ex or exc2
                        if self.errs: a["errs"] = sorted(set(self.errs))
                        arrivals.append(a)
                    ff = fault_fired(n)
                    if ff:
                        for a in arrivals: a["fault"] = ff
                    stray = [p for p, b in n.out if b not in fbs]
                    steps.append({"k": "burst", "arr": arrivals, "stray": len(stray) + sum(1 for d in self.pin_data if d not in fbs)})
                else:
                    fb = self.frame(op)
                    queue = [(op["sw"], op["port"])]
                    arrivals = []
                    while queue:
                        if len(arrivals) > 64: raise RuntimeError("frame circulates")
                        si, port = queue.pop(0)
                        n = nodes[si]
                        n.out.clear(); del self.pins[:]; del self.pin_data[:]; del self.errs[:]
                        ex1 = deliver(n, fb, port); ex2 = settle(n); ex = ex1 or ex2
                        outs = [[p, 1 if b == fb else 0] for p, b in n.out]
                        arrivals.append({"sw": si, "port": port, "pin": len(self.pins), "pin_ok": 1 if all(d == n.dpid for d in self.pins) else 0,
                                         "out": outs, "flows": self.table_summary(n),
                                         "bufs": [0 if b is None else 1 for b in n.sw._packet_buffer]})
                        if ex: arrivals[-1]["exc"] = ex
                        if self.errs: arrivals[-1]["errs"] = sorted(set(self.errs))
                        ff = fault_fired(n)
                        if ff: arrivals[-1]["fault"] = ff
                        for p, _ in n.out:
                            if (si, p) in link: queue.append(link[(si, p)])
                    steps.append({"k": "rx", "arr": arrivals})
            return {"steps": steps}
        finally:
            for n in nodes:
                try: n.con.disconnect()
                except Exception: pass
            self.live_deferred = None
            self.of_01.deferredSender = stub_deferred

    def configure(self, case):
        """The component's documented options are case parameters.  `transparent` alone is set on the registered component (as before); a case with
        `hold_down` (seconds) or `ignore` (indices of switches the component must leave alone) starts the component the way the command line does:
        `l2_learning.launch(transparent=..., hold_down=..., ignore=...)` with the option TEXTS, after the previous instance stopped listening."""
        hd, ign = int(case.get("hold_down") or 0), sorted(case.get("ignore") or [])
        if hd or ign or self._options_dirty:
            from pox.lib.util import dpid_to_str
            old = self.core.components.get("l2_learning")
            if old is not None:
                gone = [self.core.openflow.removeListener(getattr(old, a)) for a in dir(old) if a.startswith("_handle_") and callable(getattr(old, a))]
                if not any(gone): raise RuntimeError("the previous l2_learning instance could not be made to stop listening")
            dpids = [self._dpid + 1 + i for i in ign]                 # Node() hands out dpids in this order
            kw = {"transparent": str(bool(case["transparent"])), "hold_down": str(hd)}
            if dpids: kw["ignore"] = ",".join(dpid_to_str(d) for d in dpids)
            self.l2.launch(**kw)
            self._options_dirty = bool(hd or ign)
        self.core.l2_learning.transparent = bool(case["transparent"])

    # ------------------------------------------------------------------ cases
    A, B, Cc = 0x0a, 0x0b, 0x0c

    @staticmethod
    def rx(port, src, dst, kind="udp", key=1, pay=0, sw=0, x=None):
        d = {"op": "rx", "sw": sw, "port": port, "src": src, "dst": dst, "kind": kind, "key": key, "pay": pay}
        if x: d["x"] = x
        return d

    def alphabet(self, tier):
        rx, A, B = self.rx, self.A, self.B
        L = [[rx(1, A, B)], [rx(2, A, B)], [rx(2, B, A)], [rx(3, B, A)], [rx(1, B, A)], [rx(1, A, BCAST)], [rx(3, A, STP)],
             [{"op": "adv", "ms": 10125}, {"op": "sweep", "sw": 0}], [{"op": "adv", "ms": 4000}]]
        if tier == "thorough":
            L += [[rx(2, B, A, kind="arp")], [rx(1, A, B, kind="arp")], [{"op": "adv", "ms": 20000}, {"op": "sweep", "sw": 0}]]
        return L

    def corpus(self):
        rx, A, B, Cc = self.rx, self.A, self.B, self.Cc
        one = lambda ops, ports=3, bufs=1, tr=False: {"transparent": tr, "switches": [{"ports": ports, "bufs": bufs}], "links": [], "ops": ops}
        cases = []
        # the decide-checked witness of Properties/C11.lean (known_dst_fresh_defect; a failing input on trees without repair C11-K1, /repo 73d2b4b has it)
        cases.append(one([rx(3, B, A), rx(1, A, B), rx(2, A, B), rx(1, A, B), rx(3, B, A, key=2)]))
        # the same staleness through the drop entry of step 5 (its match has no in_port)
        cases.append(one([rx(1, B, B), rx(2, B, B), rx(3, A, B, key=2)]))
        # the walk of design_spikes/py/ofnet.py
        for bufs in (0, 2):
            cases.append(one([rx(1, A, B), rx(2, B, A), rx(1, A, B), rx(1, A, B), rx(3, A, BCAST), rx(3, A, STP), {"op": "adv", "ms": 11000},
                              {"op": "sweep", "sw": 0}, rx(1, A, B)], bufs=bufs))
        # every kind of destination / ethertype, transparent and not, truncated packet-ins, nonexistent port
        for tr in (False, True):
            for bufs in (0, 1):
                cases.append(one([rx(2, B, A), rx(1, A, STP), rx(1, A, LLDP_MC, kind="lldp", key=0), rx(1, A, B, kind="lldp", key=0), rx(1, A, PAUSE), rx(1, A, FILTER_LAST),
                                  rx(1, A, NOT_FILTERED_MC), rx(1, A, IP_MC), rx(1, A, B, kind="raw", key=0), rx(1, A, B, kind="arp"), rx(1, A, B, pay=100),
                                  rx(2, B, A, pay=101), rx(1, A, B, pay=100), rx(7, A, B), rx(0, A, B), rx(1, A, B, kind="lldp", key=0)], ports=4, bufs=bufs, tr=tr))
        # expiry boundaries: idle 10 s (strict >), hard 30 s, refresh by traffic, late sweep
        for gap in (9875, 10000, 10125):
            cases.append(one([rx(2, B, A), rx(1, A, B), {"op": "adv", "ms": gap}, {"op": "sweep", "sw": 0}, rx(1, A, B)]))
        cases.append(one([rx(2, B, A), rx(1, A, B)] + [x for _ in range(4) for x in ({"op": "adv", "ms": 9000}, rx(1, A, B), {"op": "sweep", "sw": 0})]
                         + [{"op": "adv", "ms": 3125}, {"op": "sweep", "sw": 0}, rx(1, A, B)]))
        cases.append(one([rx(2, B, A), rx(1, A, B), {"op": "adv", "ms": 60000}, rx(1, A, B), {"op": "sweep", "sw": 0}, rx(1, A, B)]))
        # a flow kept alive by traffic past its hard timeout while the destination moves (sweep before every frame, as a switch's expiry timer does)
        for gap, nhit, tail in ((8000, 3, (2000, 2000, 4000)), (6000, 4, (1000, 3000, 3000)), (9000, 3, (1000, 1000, 2000)), (4000, 6, (2000, 2000, 3000))):
            cases.append(one(self.keepalive(gap, nhit, tail), bufs=2))
        # three switches in a line, hosts at the ends
        net = {"transparent": False, "switches": [{"ports": 3, "bufs": 1}, {"ports": 2, "bufs": 0}, {"ports": 3, "bufs": 2}],
               "links": [[0, 3, 1, 1], [1, 2, 2, 1]],
               "ops": [rx(1, A, B, sw=0), rx(2, B, A, sw=2), rx(1, A, B, sw=0), rx(1, A, B, sw=0), rx(3, Cc, BCAST, sw=2), rx(2, A, B, sw=2),
                       {"op": "adv", "ms": 10125}, {"op": "sweep", "sw": 1}, rx(2, B, A, sw=2), rx(2, B, STP, sw=2)]}
        cases.append(net)
        # ---- HARDENING.md families
        import copy
        base_seeds = list(cases)
        # (3) OpenFlow port numbers that are not small literals: across the small-int cache (256/257), the signed 16-bit edge, just below OFPP_MAX
        for base in (254, 32765, 0xfef0):
            for c in base_seeds[:8] + [net]:
                d = copy.deepcopy(c)
                for w in d["switches"]: w["base"] = base
                cases.append(d)
        # (4) the other calling convention of rx_packet (no packet_data)
        for c in base_seeds[2:6]:
            d = copy.deepcopy(c); d["pd"] = False; cases.append(d)
        # (1) two switches that share nothing: same addresses on different ports, interleaved; then a third that connects later in the history's eyes
        two = lambda ops, b0=1, b1=1: {"transparent": False, "switches": [{"ports": 3, "bufs": b0}, {"ports": 3, "bufs": b1}], "links": [], "ops": ops}
        cases.append(two([rx(1, A, B, sw=0), rx(1, B, A, sw=1), rx(2, B, A, sw=0), rx(2, A, B, sw=1), rx(1, A, B, sw=0), rx(1, B, A, sw=1),
                          rx(3, A, B, sw=1), rx(3, B, A, sw=0)]))
        cases.append(two([rx(1, A, BCAST, sw=0), rx(1, A, A, sw=1), rx(2, B, A, sw=1), rx(2, B, A, sw=0), rx(3, Cc, A, sw=1), rx(3, Cc, A, sw=0)], 0, 2))
        cases.append(two([rx(2, B, A, sw=0), rx(1, A, B, sw=0), rx(2, B, A, sw=1), rx(1, A, B, sw=1), {"op": "adv", "ms": 10125}, {"op": "sweep", "sw": 0},
                          rx(1, A, B, sw=0), rx(1, A, B, sw=1)]))
        # (3) rare values where a truth test or `is` could stand for a comparison: transport port 0 / 256 / 257 / 65535, the all-zero MAC, a group
        #     address as SOURCE, ethertype exactly 0x0600, frames of exactly miss_send_len and one more, a full pool of one
        Z, G = 0x000000000000, 0x010000000001
        for bufs in (0, 1):
            cases.append(one([rx(2, B, A, key=0), rx(1, A, B, key=0), rx(1, A, B, key=256), rx(1, A, B, key=0), rx(1, A, B, key=65535), rx(1, A, B, key=257),
                              rx(1, A, B, key=256), rx(2, B, A, kind="arp", key=0), rx(1, A, B, kind="arp", key=0), rx(1, A, B, kind="arp", key=256),
                              rx(1, A, B, kind="arp", key=0)], bufs=bufs))
            cases.append(one([rx(1, Z, B), rx(2, B, Z), rx(1, Z, B), rx(3, A, Z), rx(2, G, A), rx(1, A, G), rx(3, A, B, kind="raw6", key=0), rx(2, B, A, kind="raw6", key=0),
                              rx(3, A, B, kind="raw6", key=0), rx(1, A, B, pay=202), rx(2, B, A, pay=203), rx(1, A, B, pay=203), rx(1, A, BCAST, pay=202),
                              rx(1, A, BCAST, pay=203)], bufs=bufs))
        # (1,3) the same-port drop entry (10 s / 10 s) must be gone when its destination has moved on, however busy the sender keeps it; also
        #       a key-0 conversation must not absorb other conversations after a move
        sw0 = {"op": "sweep", "sw": 0}
        for base in (0, 300):
            ops = [rx(1, B, BCAST), rx(1, A, B)]
            for k in range(4):
                ops += [{"op": "adv", "ms": 4000}, sw0, rx(1, A, B)]
                if k == 1: ops += [rx(2, B, BCAST)]
            d = one(ops, bufs=1); d["switches"][0]["base"] = base; cases.append(d)
            d = one([rx(3, B, A, key=0), rx(1, A, B, key=0), rx(1, A, B, key=0), rx(2, B, BCAST), rx(1, A, B, key=257), rx(1, A, B, key=0),
                     rx(1, A, B, kind="arp", key=0), rx(3, B, BCAST), rx(1, A, B, kind="arp", key=256)], bufs=1)
            d["switches"][0]["base"] = base; cases.append(d)
        # (3,6) the frames themselves: every value of every header field that goes into the installed match, one value per case —
        #       B is known on port 2; the frame A -> B with field value v must come out of port 2 exactly, leave no buffer behind, and its
        #       repetition must be forwarded by the flow just installed (the model says so; the oracle judges the deliveries)
        def probe(kind, key=1, x=None, bufs=1):
            fr = rx(1, A, B, kind=kind, key=key, x=x)
            return one([rx(2, B, BCAST), fr, dict(fr, pay=1)], bufs=bufs)
        for tos in range(256):                                                  # all 64 DSCP x 4 ECN
            cases.append(probe("udp", x={"tos": tos}, bufs=tos % 2))
        for proto in range(256):                                                # every IP protocol number
            kind = {1: "icmp", 6: "tcp", 17: "udp"}.get(proto, "ipraw")
            cases.append(probe(kind, key=8 if proto == 1 else 1, x={"proto": proto}, bufs=proto % 2))
        for kind in ("udp", "tcp"):
            for sp in (0, 1, 255, 256, 32768, 65535):
                for dp in (0, 1, 65535):
                    cases.append(probe(kind, key=sp, x={"dport": dp}))
        for ty in (0, 3, 8, 255):
            for code in (0, 1, 255):
                cases.append(probe("icmp", key=ty, x={"code": code}))
        for vid in (0, 1, 255, 256, 4094, 4095):
            for pcp in (0, 1, 7):
                for kind in ("udp", "arp", "raw", "lldp"):
                    cases.append(probe(kind, key=0 if kind in ("raw", "lldp") else 1, x={"vlan": [vid, pcp]}, bufs=(vid + pcp) % 2))
        for opc in (0, 1, 2, 255, 256, 257, 65535):
            cases.append(probe("arp", x={"op": opc}))
        for sip, dip in ((0, 0xffffffff), (0xffffffff, 0), (0x7f000001, 0xe0000001), (0x0a000001, 0x0a000001)):
            cases.append(probe("udp", x={"sip": sip, "dip": dip})); cases.append(probe("arp", x={"sip": sip}))
        cases.append(probe("tcp", x={"tos": 0x2c, "vlan": [7, 5], "dport": 0}))
        # IPv4 fragments: first (MF, offset 0), middle (MF, offset), last (offset only), DF only (not a fragment), DF+MF, the largest
        # offset — every kind, with a free buffer and without one (no buffer: the frame comes back inside a packet_out for OFPP_TABLE and
        # must hit the entry the controller has just installed)
        for frag in (0x2000, 0x2005, 0x0005, 0x4000, 0x6000, 0x1fff, 0x3fff, 0x0001):
            for kind in ("udp", "tcp", "icmp", "ipraw"):
                for bufs in (0, 1):
                    cases.append(probe(kind, key=8 if kind == "icmp" else 1, x={"frag": frag}, bufs=bufs))
        cases.append(probe("udp", x={"frag": 0x2000, "vlan": [5, 1], "tos": 0x10}, bufs=0))
        # (5) bursts: several frames reach the switch before the control channel moves — several packet-ins in one read at the controller, several
        #     answers in one read at the switch, more misses than buffers; judged by the oracle (ideal bridge), frame by frame
        f = lambda port, src, dst, pay, kind="udp", key=1: {"port": port, "src": src, "dst": dst, "kind": kind, "key": key, "pay": pay}
        for bufs in (0, 1, 2, 4):
            cases.append(one([{"op": "burst", "sw": 0, "frames": [f(1, A, B, 1), f(2, B, A, 2), f(3, Cc, A, 3)]},
                              {"op": "burst", "sw": 0, "frames": [f(1, A, B, 4), f(1, A, Cc, 5), f(2, B, BCAST, 6), f(3, Cc, STP, 7), f(2, B, Cc, 8)]},
                              rx(1, A, B), {"op": "burst", "sw": 0, "frames": [f(1, A, B, 9), f(1, A, B, 10, key=2), f(2, B, A, 11), f(1, A, A, 12)]},
                              {"op": "adv", "ms": 10125}, {"op": "sweep", "sw": 0},
                              {"op": "burst", "sw": 0, "frames": [f(3, B, A, 13), f(1, A, B, 14), f(2, Cc, B, 15), f(2, Cc, A, 16, kind="arp")]}], bufs=bufs))
        return cases + self.option_cases() + self.fault_cases() + self._exhaustive("quick")

    def walk(self, nports=4):
        """a history in which every kind of answer of the control loop occurs several times: floods, first frames of NEW known-unicast
        conversations (each installs a flow and forwards one frame), hits of installed flows, a filtered frame, a host move"""
        rx, A, B, Cc, D = self.rx, self.A, self.B, self.Cc, 0x0d
        return [rx(1, A, BCAST), rx(2, B, A), rx(3, Cc, A), rx(4, D, A), rx(1, A, B), rx(1, A, Cc), rx(2, B, Cc), rx(3, Cc, B), rx(2, B, A), rx(4, D, B),
                rx(1, A, D), rx(3, Cc, STP), rx(3, Cc, D), rx(4, D, Cc), rx(2, D, BCAST), rx(1, A, D, key=2), rx(3, Cc, D, key=2), rx(2, D, Cc, key=2),
                rx(3, Cc, 0xfe), rx(2, B, D), rx(1, A, B, kind="arp"), rx(2, B, A, kind="arp"), rx(4, Cc, BCAST), rx(1, A, Cc, key=3), rx(2, B, Cc, key=3)]

    def option_cases(self):
        """HARDENING 16: the component's documented options are inputs.  hold_down = N s with frames before, at the edges of and after the window
        (virtual clock; unknown / broadcast / multicast / known / filtered / same-port frames inside the window; pools of 0..3 so that frames
        inside the window are buffered and unbuffered), transparent with it, `ignore` naming every subset position of 2..3 switches."""
        rx, A, B, Cc = self.rx, self.A, self.B, self.Cc
        adv = lambda ms: {"op": "adv", "ms": ms}
        out = []
        def inside(k):
            return [rx(1, A, BCAST, key=k), rx(2, B, A, key=k), rx(3, Cc, 0xfe, key=k), rx(1, A, IP_MC, key=k), rx(1, A, STP, key=k), rx(1, A, B, key=k),
                    rx(2, B, B, key=k), rx(3, Cc, A, kind="arp", key=k), rx(2, B, BCAST, kind="arp", key=k), rx(1, A, 0xfd, pay=100, key=k)]
        for hd in (1, 2, 5, 30):
            for bufs in (0, 1, 3):
                for tr in (False, True):
                    if tr and bufs == 1: continue
                    ops = inside(1) + [adv(hd * 1000 - 250)] + inside(2) + [adv(125)] + inside(3)[:4] + [adv(125)] + inside(4) + [adv(125), {"op": "sweep", "sw": 0}] \
                          + inside(5) + [adv(10125), {"op": "sweep", "sw": 0}] + inside(6)
                    out.append({"transparent": tr, "hold_down": hd, "switches": [{"ports": 4, "bufs": bufs}], "links": [], "ops": ops})
            # every frame after the window: the option must change nothing (model-compared)
            out.append({"transparent": False, "hold_down": hd, "switches": [{"ports": 4, "bufs": 2}], "links": [], "ops": [adv(hd * 1000)] + self.walk()})
            out.append({"transparent": False, "hold_down": hd, "switches": [{"ports": 4, "bufs": 0}], "links": [], "ops": [adv(hd * 1000 + 125)] + self.walk()[:12]})
        # a network inside the window and after it
        for hd in (2, 10):
            out.append({"transparent": False, "hold_down": hd, "switches": [{"ports": 3, "bufs": 1}, {"ports": 2, "bufs": 0}, {"ports": 3, "bufs": 2}],
                        "links": [[0, 3, 1, 1], [1, 2, 2, 1]],
                        "ops": [rx(1, A, B, sw=0), rx(2, B, A, sw=2), rx(1, A, B, sw=0), adv(hd * 1000 - 125), rx(3, Cc, BCAST, sw=2), rx(1, A, B, sw=0), adv(125),
                                rx(1, A, BCAST, sw=0), rx(2, B, A, sw=2), rx(1, A, B, sw=0), rx(3, Cc, A, sw=2), rx(2, B, STP, sw=2)]})
        # ignore: the named switches are left alone, every other switch is a learning bridge as before
        for nsw in (2, 3):
            for mask in range(1, 2 ** nsw - 1):
                ign = [i for i in range(nsw) if mask >> i & 1]
                ops = []
                for fr in [rx(1, A, BCAST), rx(2, B, A), rx(1, A, B), rx(3, Cc, A), rx(1, A, B), rx(2, B, Cc), rx(2, B, STP), rx(3, B, BCAST), rx(1, A, B)]:
                    ops += [dict(fr, sw=i) for i in range(nsw)]
                out.append({"transparent": False, "ignore": ign, "hold_down": 2 if mask == 2 else 0,
                            "switches": [{"ports": 3, "bufs": (i + mask) % 3} for i in range(nsw)], "links": [], "ops": ops})
        # a plain case after the option cases: the defaults are back
        out.append({"transparent": False, "switches": [{"ports": 4, "bufs": 1}], "links": [], "ops": self.walk()[:8]})
        return out

    def fault_cases(self):
        """HARDENING 7, 11, 16: a fault at every point of the loop, in every spelling.  dp: the k-th physical send of the switch raises (the tap /
        pcap / socket behind a port refuses one frame) — that frame may be lost, every later frame is forwarded like an ideal bridge and no
        buffer stays occupied.  ctl: the k-th write of the controller to the switch is late (EAGAIN and friends, partial writes: nothing
        is lost, model-compared) or fails for good (the controller drops that switch; the OTHER switches go on unharmed)."""
        out = []
        walk = self.walk()
        one = lambda ops, bufs, fault: {"transparent": False, "fault": fault, "switches": [{"ports": 4, "bufs": bufs}], "links": [], "ops": ops}
        for bufs in (0, 1, 2):
            for k in range(1, 27):                                   # the walk emits 26 frames
                out.append(one(walk, bufs, {"at": "dp", "sw": 0, "k": k, "exc": DP_SPELLINGS[(k + 5 * bufs) % len(DP_SPELLINGS)]}))
        for i, sp in enumerate(DP_SPELLINGS):                        # every spelling at the first forwarded frame of a new conversation and in a flood
            out.append(one(walk, 0, {"at": "dp", "sw": 0, "k": 4, "exc": sp}))
            out.append(one(walk, i % 3, {"at": "dp", "sw": 0, "k": 2, "exc": sp}))
        for bufs in (0, 1):
            for k in range(1, 24, 2 if bufs else 1):
                out.append(one(walk, bufs, {"at": "ctl", "sw": 0, "k": k, "exc": CTL_DELAY[(k + bufs) % len(CTL_DELAY)]}))
        for sp in CTL_DELAY:
            out.append(one(walk[:9], 0, {"at": "ctl", "sw": 0, "k": 5, "exc": sp}))
        two = []
        for fr in walk[:14]: two += [dict(fr, sw=0), dict(fr, sw=1)]
        for k in (1, 2, 5, 6, 9):
            for j, sp in enumerate(CTL_FATAL):
                if (k + j) % 2: continue
                out.append({"transparent": False, "fault": {"at": "ctl", "sw": k % 2, "k": k, "exc": sp},
                            "switches": [{"ports": 4, "bufs": k % 3}, {"ports": 4, "bufs": (k + 1) % 3}], "links": [], "ops": two})
        for k in (3, 7, 11):                                         # a lost frame on one switch of two
            out.append({"transparent": False, "fault": {"at": "dp", "sw": 1, "k": k, "exc": "OSError"},
                        "switches": [{"ports": 4, "bufs": 0}, {"ports": 4, "bufs": 1}], "links": [], "ops": two})
        return out

    def _exhaustive(self, tier):
        """ALL sequences of length 4 over the alphabet (their prefixes are the shorter ones), pools of 0 and 1; the thorough tier adds three
        letters and a pool of 2 and yields only what the quick corpus did not already contain"""
        # the pool-of-1 half runs on OpenFlow ports 255, 256, 257 (equal port numbers are then not always the same int object)
        one = lambda ops, bufs: {"transparent": False, "switches": [{"ports": 3, "bufs": bufs, "base": 254 if bufs == 1 else 0}], "links": [], "ops": ops}
        alpha = self.alphabet(tier)
        nq = len(self.alphabet("quick"))
        out = []
        for bufs in ((0, 1) if tier == "quick" else (0, 1, 2)):
            for idx in itertools.product(range(len(alpha)), repeat=4):
                if tier == "thorough" and bufs < 2 and max(idx) < nq: continue
                out.append(one([op for i in idx for op in alpha[i]], bufs))
        return out

    def keepalive(self, gap, nhit, tail, move_to=3):
        """A<->B converse; A->B repeated every `gap` ms `nhit` times; then B shows up on port `move_to`; A->B again after each delay in `tail`"""
        rx, A, B = self.rx, self.A, self.B
        sw = {"op": "sweep", "sw": 0}
        ops = [rx(1, A, B), rx(2, B, A), rx(1, A, B)]
        for _ in range(nhit):
            ops += [{"op": "adv", "ms": gap}, sw, rx(1, A, B)]
        ops += [{"op": "adv", "ms": tail[0]}, sw, rx(move_to, B, BCAST)]
        for d in tail[1:]:
            ops += [{"op": "adv", "ms": d}, sw, rx(1, A, B)]
        return ops

    def random_keepalive(self, rng):
        """random member of the family above: long-lived conversations with a sweep before every frame, gaps below the idle timeout, a host move"""
        rx = self.rx
        hosts = [0x0a, 0x0b, 0x0c][:rng.randint(2, 3)]
        loc = {h: i + 1 for i, h in enumerate(hosts)}
        if rng.random() < 0.3: loc = {h: 1 for h in hosts}         # everybody behind one port at first (same-port drop entries)
        nports = 4
        ops, t = [], 0
        for h in hosts:
            ops.append(rx(loc[h], h, hosts[(hosts.index(h) + 1) % len(hosts)]))
        total = rng.choice([35000, 45000, 70000])
        a0, b0 = hosts[0], hosts[1]                   # the long-lived conversation
        while t < total:
            d = rng.choice([2000, 3000, 4000, 6000, 8000, 9000, 9875, rng.randrange(8, 80) * 125])
            t += d
            ops += [{"op": "adv", "ms": d}, {"op": "sweep", "sw": 0}]
            r = rng.random()
            if r < 0.72:
                ops.append(rx(loc[a0], a0, b0))
            elif r < 0.84:
                h = rng.choice([b0, b0, rng.choice(hosts)]); loc[h] = rng.randint(1, nports)
                ops.append(rx(loc[h], h, BCAST))
            else:
                a = rng.choice(hosts); b = rng.choice([h for h in hosts if h != a])
                ops.append(rx(loc[a], a, b, key=rng.choice([1, 2])))
        return {"transparent": False, "switches": [{"ports": nports, "bufs": rng.randint(0, 2), "base": rng.choice([0, 254, 32765])}], "links": [], "ops": ops}

    def random_case(self, rng, maxlen=200):
        if rng.random() < 0.2: return self.random_keepalive(rng)
        nsw = rng.choice([1, 1, 1, 2, 3])
        sws = [{"ports": rng.randint(2, 5), "bufs": rng.randint(0, 4), "base": rng.choice([0, 0, 254, 300, 32765, 0xfef0])} for _ in range(nsw)]
        links, used = [], set()
        unlinked = rng.random() < 0.25                # switches that share nothing but the controller component
        for i in range(1, nsw):                       # a tree: switch i hangs off an earlier one
            if unlinked: break
            j = rng.randrange(i)
            pj = rng.choice([p for p in range(1, sws[j]["ports"] + 1) if (j, p) not in used] or [0])
            if pj == 0 or (i, 1) in used: continue
            used.add((j, pj)); used.add((i, 1)); links.append([j, pj, i, 1])
        hosts = [0x0a, 0x0b, 0x0c, 0x0d, 0x0e][:rng.randint(2, 5)]
        if rng.random() < 0.15: hosts[0] = 0                       # the all-zero address is an address
        if rng.random() < 0.1: hosts[-1] = 0x010000000001           # a group address used as a source
        rare = rng.random() < 0.3
        bursty = nsw == 1 and rng.random() < 0.3
        free = [(i, p) for i in range(nsw) for p in range(1, sws[i]["ports"] + 1) if (i, p) not in used] or [(0, 1)]
        if rng.random() < 0.5: free = free[:3]         # few attachment points: hosts share ports and come back to old ones
        loc = {h: rng.choice(free) for h in hosts}
        ops = []
        nkeys = rng.choice([1, 2, 3])
        for _ in range(rng.choice([6, 20, 60, maxlen, rng.randint(1, maxlen)])):
            r = rng.random()
            if r < 0.10:
                ops.append({"op": "adv", "ms": rng.choice([125, 1000, 5000, 9875, 10000, 10125, 20000, 29875, 30000, 30125])})
            elif r < 0.18:
                ops.append({"op": "sweep", "sw": rng.randrange(nsw)})
            else:
                if rng.random() < 0.15:
                    loc[rng.choice(hosts)] = rng.choice(free)          # a host moves
                src = rng.choice(hosts)
                dst = rng.choice(hosts + hosts + [BCAST, STP, LLDP_MC, PAUSE, FILTER_LAST, IP_MC, NOT_FILTERED_MC, 0xfe])
                kind = rng.choice(["udp", "udp", "udp", "udp", "arp", "arp", "lldp", "raw"] + (["raw6"] if rare else []))
                key = rng.randint(1, nkeys) if kind in ("udp", "arp") else 0
                if rare and kind in ("udp", "arp") and rng.random() < 0.5: key = rng.choice([0, 0, 256, 257, 65535])
                sw, port = loc[src]
                if rng.random() < 0.02: port = rng.choice([0, sws[sw]["ports"] + 1])
                pay = rng.choice([0, 0, 1, 2, 100, 101] + ([202, 203] if rare else []))
                if bursty and rng.random() < 0.25:
                    # a burst: up to 6 frames, different bytes (pay), every source on one port only (a host is in one place at a time)
                    frames, where = [], {}
                    for k in range(rng.randint(2, 6)):
                        s2 = rng.choice(hosts); where.setdefault(s2, loc[s2][1])
                        d2 = rng.choice(hosts + [BCAST, STP, 0xfe])
                        frames.append({"port": where[s2], "src": s2, "dst": d2, "kind": rng.choice(["udp", "udp", "arp"]), "key": rng.randint(1, nkeys), "pay": 10 + len(ops) % 60 + k * 0 + k})
                    if len({(f["src"], f["dst"], f["kind"], f["key"], f["pay"]) for f in frames}) == len(frames):
                        ops.append({"op": "burst", "sw": 0, "frames": frames}); continue
                x = None
                if rare and rng.random() < 0.6:
                    kind = rng.choice(["udp", "udp", "tcp", "icmp", "ipraw", "arp", "raw"])
                    key = rng.choice([0, 1, 2, 8, 255, 256, 65535]) if kind in ("udp", "tcp", "icmp", "arp") else 0
                    x = {}
                    if kind in ("udp", "tcp", "icmp", "ipraw") and rng.random() < 0.7: x["tos"] = rng.randrange(256)
                    if kind == "ipraw": x["proto"] = rng.choice([0, 2, 4, 41, 47, 50, 89, 132, 253, 255])
                    if kind in ("udp", "tcp") and rng.random() < 0.3: x["dport"] = rng.choice([0, 53, 65535])
                    if kind == "icmp" and rng.random() < 0.3: x["code"] = rng.choice([0, 1, 255])
                    if kind == "arp" and rng.random() < 0.3: x["op"] = rng.choice([0, 2, 256, 257])
                    if rng.random() < 0.25: x["vlan"] = [rng.choice([0, 1, 100, 4095]), rng.choice([0, 3, 7])]
                    if kind in ("udp", "tcp", "icmp", "ipraw") and rng.random() < 0.25: x["frag"] = rng.choice([0x2000, 0x2000, 0x2010, 0x0010, 0x4000, 0x6000])
                ops.append(self.rx(port, src, dst, kind, key, pay, sw, x))
        c = {"transparent": rng.random() < 0.25, "pd": rng.random() < 0.7, "switches": sws, "links": links, "ops": ops}
        # options of the component and injected faults (drawn last: the histories above are the same as without them)
        r = rng.random()
        if r < 0.10: c["hold_down"] = rng.choice([1, 2, 5, 10, 30])
        elif r < 0.20: c["fault"] = {"at": "dp", "sw": rng.randrange(nsw), "k": rng.randint(1, 30), "exc": rng.choice(DP_SPELLINGS)}
        elif r < 0.26: c["fault"] = {"at": "ctl", "sw": rng.randrange(nsw), "k": rng.randint(1, 30), "exc": rng.choice(CTL_DELAY)}
        elif r < 0.30 and nsw > 1: c["fault"] = {"at": "ctl", "sw": rng.randrange(nsw), "k": rng.randint(1, 20), "exc": rng.choice(CTL_FATAL)}
        elif r < 0.34 and nsw > 1: c["ignore"] = sorted(rng.sample(range(nsw), rng.randint(1, nsw - 1)))
        if r < 0.34 and rng.random() < 0.3: c["hold_down"] = rng.choice([1, 5, 10])
        return c

    def generate(self, rng, tier):
        if tier == "thorough":
            for c in self._exhaustive("thorough"):
                yield c
        for _ in range(300 if tier == "quick" else 3000):
            yield self.random_case(rng)

    def search_cases(self, rng, tier):
        while True:
            yield self.random_case(rng, maxlen=60)

    # ------------------------------------------------------------------ model side
    def model_request(self, case):
        if any(op["op"] == "burst" for op in case["ops"]): return None      # bursts are judged by the oracle only (the model answers packet-ins one at a time)
        if case.get("ignore"): return None                                   # an uncontrolled switch has no model counterpart
        f = case.get("fault")
        if f and not (f["at"] == "ctl" and f["exc"] in CTL_DELAY): return None   # lost frames: oracle only.  A write that is merely late changes nothing: model-compared
        if case.get("hold_down"):
            # the model has no hold-down: it applies when every frame arrives after the window (then the option must change nothing)
            now, until = T0_MS, T0_MS + 1000 * int(case["hold_down"])
            for op in case["ops"]:
                if op["op"] == "adv": now += op["ms"]
                elif op["op"] == "rx" and now < until: return None
        ops = []
        for op in case["ops"]:
            if op["op"] == "rx":
                outer, f, l4 = fspec(op)
                ops.append({"op": "rx", "sw": op["sw"], "port": op["port"], "src": op["src"], "dst": op["dst"], "etype": outer,
                            "key": enc_fields(f), "l4": 1 if l4 else 0, "pay": op["pay"]})
            else:
                ops.append(op)
        return {"transparent": bool(case["transparent"]), "relearn": self.relearn, "dropinport": self.dropinport, "exactsig": self.exactsig, "t0": T0_MS, "switches": [{"ports": w["ports"], "bufs": w["bufs"]} for w in case["switches"]], "links": case.get("links", []), "ops": ops}

    def model_obs(self, case, resp):
        # buffers: the NUMBER of occupied buffers is compared, not which slots of the switch's private list they sit in (a switch
        # that hands out its buffer ids in another order still never leaks; the ids themselves are C18's subject)
        if isinstance(resp, dict) and "steps" in resp:
            resp = copy.deepcopy(resp)
            for st in resp["steps"]:
                for a in (st.get("arr") or []):
                    if isinstance(a.get("bufs"), list): a["bufs"] = sum(1 for b in a["bufs"] if b)
                    if isinstance(a.get("flows"), list): a["flows"] = sorted(a["flows"])      # (the table's order among equal priorities is open)
                if isinstance(st.get("bufs"), list): st["bufs"] = sum(1 for b in st["bufs"] if b)
                if isinstance(st.get("flows"), list): st["flows"] = sorted(st["flows"])
        return resp

    def impl_view(self, case, obs):
        steps = []
        for st in obs["steps"]:
            if st["k"] == "rx":
                arr = []
                for a in st["arr"]:
                    d = {"sw": a["sw"], "port": a["port"], "pin": a["pin"], "stuck": 0, "out": a["out"], "flows": sorted(a["flows"]), "bufs": sum(1 for b in a["bufs"] if b)}
                    if a.get("exc"): d["exc"] = a["exc"]             # an exception escaping the real loop has no model counterpart
                    if a.get("errs"): d["errs"] = a["errs"]
                    arr.append(d)
                steps.append({"k": "rx", "arr": arr})
            elif st["k"] == "sweep":
                d = {"k": "sweep", "flows": sorted(st["flows"])}
                if st["noise"]: d["noise"] = st["noise"]        # a sweep that emits frames or packet-ins has no model counterpart
                steps.append(d)
            else:
                steps.append(st)
        return {"steps": steps}

    # ------------------------------------------------------------------ the property, written directly (ideal bridge)
    def oracle(self, case, obs):
        return self.oracle_ex(case, obs)[0]

    def oracle_ex(self, case, obs):
        """(failure text or None, structural tag).  Per switch: seen[mac] = ports, most recent first (every arrival counts, like a
        hardware bridge).  The flow cache of the SPECIFICATION is tracked too (`spec`): an entry exists from the packet-in that must have
        installed it (idle 10 s / hard 30 s, the same-port drop entry 10 s / 10 s) until the first sweep after one of its timeouts has
        passed; frames that arrive without a packet-in refresh the idle timer.  "No older cached flow is still installed" is judged
        against that cache, so a flow that outlives its timeouts and keeps forwarding to an old port is a failure of the property."""
        nsw = len(case["switches"])
        seen = [dict() for _ in range(nsw)]
        via_flow = [dict() for _ in range(nsw)]    # mac -> True when its most recent arrival was forwarded by a cached flow (no packet-in)
        spec = [dict() for _ in range(nsw)]        # (in_port or 0, src, dst, kind, key) -> [created, touched, idle_ms, hard_ms]
        now = T0_MS
        # documented options: during the first `hold_down` seconds after the switch connected (all switches connect at T0) the component
        # does not flood, by design; switches named in `ignore` are not controlled by the component, so the property says nothing about them
        hold_until = T0_MS + 1000 * int(case.get("hold_down") or 0)
        ignored = set(case.get("ignore") or [])
        fault = case.get("fault") or {}
        lossy = fault.get("at") == "dp" or (fault.get("at") == "ctl" and fault.get("exc") in CTL_FATAL)
        dead = set()                               # switches whose control connection the controller gave up after a fatal write error
        if len(obs["steps"]) != len(case["ops"]): return "harness: step count", "harness"
        for op, st in zip(case["ops"], obs["steps"]):
            if op["op"] == "adv":
                now += op["ms"]; continue
            if op["op"] == "sweep":
                sp = spec[op["sw"]]
                for k in [k for k, (cr, to, idle, hard) in sp.items() if now - to > idle or now - cr > hard]: del sp[k]
                continue
            if op["op"] == "rx": groups = [(op, st["arr"])]
            elif op["op"] == "burst":
                if st.get("stray"): return "a burst produced deliveries or packet-ins of frames that were not sent", "burst-stray"
                groups = [(f, [a]) for f, a in zip(op["frames"], st["arr"])]
            else: continue
            for fop, arrs in groups:
                src, dst = fop["src"], fop["dst"]
                hdr = hdr_of(fop)
                et = hdr[2]                                        # what the controller sees as the frame's type (0x8100 for a tagged frame)
                hops = [(a["sw"], a["port"]) for a in arrs]
                if len(set(hops)) != len(hops):                    # the harness builds loop-free topologies only
                    return "one frame reached the same switch port twice: %s" % sorted(h for h in set(hops) if hops.count(h) > 1), "net-dup"
                for a in arrs:
                    si, port = a["sw"], a["port"]
                    nports = case["switches"][si]["ports"]
                    if si in ignored: continue
                    hit = bool(a.get("fault")) and lossy           # the injected fault fired while this frame was processed: it may be lost
                    if hit and fault.get("at") == "ctl": dead.add(si)
                    if si in dead: continue                        # no controller any more: not a switch "controlled by the component"
                    if not (1 <= port <= nports):
                        if a["out"] or a["pin"]: return "frame on a nonexistent port was processed", "bad-port"
                        continue
                    ports = [p for p, _ in a["out"]]
                    where = "sw%d port %d %012x->%012x" % (si, port, src, dst)
                    cached = [k for k in ((port,) + hdr, (0,) + hdr) if k in spec[si]]
                    if a["pin"]:
                        for k in cached: del spec[si][k]                 # the switch had no such entry (any more)
                    else:
                        for k in cached: spec[si][k][1] = now
                    if not a["pin_ok"]: return "packet-in raised for another switch (%s)" % where, "pin-dpid"
                    if any(not ok for _, ok in a["out"]): return "emitted bytes differ from the frame that arrived (%s)" % where, "bytes"
                    if port in ports: return "frame sent back out its ingress port (%s)" % where, "echo"
                    if len(set(ports)) != len(ports): return "frame delivered twice to a port (%s): %s" % (where, ports), "dup"
                    if any(not (1 <= p <= nports) for p in ports): return "delivery to a nonexistent port", "bad-out-port"
                    if any(a["bufs"]):
                        return "buffer still occupied at quiescence (%s): %s" % (where, a["bufs"]), ("buffer-leak:send-raised" if hit else "buffer-leak")
                    others = [p for p in range(1, nports + 1) if p != port]
                    known = seen[si].get(dst, [])
                    if src == dst: known = [port] + known          # the frame itself is the latest sighting of its own destination
                    filt = (not case["transparent"]) and (is_filtered_mac(dst) or et == LLDP_TYPE)
                    if filt:
                        if ports: return "bridge-filtered / LLDP frame forwarded (%s) to %s" % (where, ports), "filtered-forwarded"
                    elif hit:
                        # the frame that met the fault may be lost, wholly or on some ports; what did come out must still be allowed
                        allowed = others if (is_mc(dst) or not known) else [p for p in known if p != port]
                        if any(p not in allowed for p in ports):
                            return "frame that met the injected fault was delivered where it must not go (%s): %s" % (where, ports), "fault-frame-astray"
                        if a["pin"] and not (is_mc(dst) or not known):     # the entry may have been installed before the fault: it counts as cached
                            if known[0] == port: spec[si][(0,) + hdr] = [now, now, 10000, 10000]
                            else: spec[si][(port,) + hdr] = [now, now, 10000, 30000]
                    elif is_mc(dst) or not known:
                        if now < hold_until and a["pin"] and not ports:
                            pass                                   # hold-down: not flooded, as documented (the other clauses still apply)
                        elif sorted(ports) != others:
                            return "%s destination not flooded to all other ports (%s): %s" % ("multicast" if is_mc(dst) else "unknown", where, ports), \
                                   ("mc-not-flooded" if is_mc(dst) else "unknown-not-flooded")
                    else:
                        if any(p not in known for p in ports):
                            return "delivered to a port where the destination was never seen (%s): %s, seen %s" % (where, ports, known), "known-not-subset"
                        want = [] if known[0] == port else [known[0]]
                        if a["pin"]:                               # packet-in <=> no installed flow matched the frame
                            if ports != want:
                                tag = "fresh:dst-last-seen-through-cached-flow" if via_flow[si].get(dst) else "fresh:other"
                                return "no cached flow, yet not delivered to exactly the most recent port (%s): %s, seen %s" % (where, ports, known), tag
                            if ports: spec[si][(port,) + hdr] = [now, now, 10000, 30000]
                            else: spec[si][(0,) + hdr] = [now, now, 10000, 10000]
                        elif not cached and ports != want:
                            return ("forwarded by a cached flow that its idle 10 s / hard 30 s timeouts and a sweep should have removed, not to the most "
                                    "recent port (%s): %s, seen %s" % (where, ports, known)), "fresh:cached-flow-outlived-timeout"
                    if a.get("errs") and not hit:
                        return ("an exception was contained (logged, message or event dropped) while this frame was processed: a controller message or "
                                "a packet-in was not acted on (%s): %s" % (where, a["errs"])), "swallowed-exception:" + a["errs"][0]
                    seen[si].setdefault(src, [])
                    seen[si][src] = [port] + seen[si][src]
                    via_flow[si][src] = (a["pin"] == 0)
        return None, None

    def finding_key(self, case, obs, failure):
        if isinstance(obs, dict) and "steps" in obs:
            f, tag = self.oracle_ex(case, obs)
            if tag: return tag
        return re.sub(r"\d+", "N", str(failure))[:80]

    def nontrivial(self, case, obs):
        kinds = set()
        for st in obs["steps"]:
            if st["k"] != "rx": continue
            for a in st["arr"]:
                kinds.add("pin" if a["pin"] else "hit")
                kinds.add("multi" if len(a["out"]) > 1 else ("one" if a["out"] else "none"))
        return {"pin", "hit"} <= kinds or len(kinds) >= 4

    def shrink_candidates(self, case):
        import copy
        ops = case["ops"]
        for i in range(len(ops)):
            c = copy.deepcopy(case); del c["ops"][i]; yield c
        for i, op in enumerate(ops):
            if op["op"] == "rx" and op.get("pay"):
                c = copy.deepcopy(case); c["ops"][i]["pay"] = 0; yield c


CHECK = C11
