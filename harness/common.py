"""Shared machinery of the /verif checks (see DESIGN.md §1).

A check = translate -> lake build -> axiom audit -> correspondence (real code vs Lean model executable)
          -> property oracle on the real code's observables -> failing-input search -> evidence.
Exit codes: 0 pass, 1 violation (line `VIOLATION property=<id> replay=<path>`), 2 infrastructure failure.
"""
import os, sys, json, time, random, subprocess, hashlib, re, fcntl, threading, traceback, copy

VERIF = os.path.dirname(os.path.dirname(os.path.abspath(__file__)))
REPO = os.environ.get("POX_REPO", "/repo")
LEAN = os.path.join(VERIF, "lean")
EVIDENCE_DIR = os.path.join(VERIF, "evidence")
REPLAY_DIR = os.path.join(VERIF, "replays")
ALLOWED_AXIOMS = {"propext", "Classical.choice", "Quot.sound"}
FORBIDDEN = re.compile(r"\b(sorry|admit|native_decide|bv_decide|implemented_by|unsafe)\b|^\s*axiom\s|maxHeartbeats\s+0\b", re.M)

if REPO not in sys.path:
    sys.path.insert(0, REPO)


def log(*a):
    print(*a, file=sys.stderr, flush=True)


# ----------------------------------------------------------------------------- lean side

class _LakeLock:
    def __enter__(self):
        os.makedirs(os.path.join(LEAN, ".lake"), exist_ok=True)
        self.f = open(os.path.join(LEAN, ".lake", "verif.lock"), "w")
        fcntl.flock(self.f, fcntl.LOCK_EX)
    def __exit__(self, *a):
        fcntl.flock(self.f, fcntl.LOCK_UN)
        self.f.close()


def write_if_changed(path, text):
    """Generated Lean files are rewritten only when their text changes (keeps lake incremental)."""
    try:
        if open(path).read() == text:
            return False
    except FileNotFoundError:
        pass
    os.makedirs(os.path.dirname(path), exist_ok=True)
    tmp = path + ".tmp%d" % os.getpid()
    open(tmp, "w").write(text)
    os.replace(tmp, path)
    return True


def lake_build(targets, timeout=1500):
    with _LakeLock():
        p = subprocess.run(["lake", "build"] + list(targets), cwd=LEAN, stdout=subprocess.PIPE,
                           stderr=subprocess.STDOUT, text=True, timeout=timeout)
    return p.returncode == 0, p.stdout


def strip_lean_comments(src):
    out, i, depth, n = [], 0, 0, len(src)
    while i < n:
        if src.startswith("/-", i):
            depth += 1; i += 2; continue
        if depth and src.startswith("-/", i):
            depth -= 1; i += 2; continue
        if depth:
            if src[i] == "\n": out.append("\n")
            i += 1; continue
        if src.startswith("--", i):
            while i < n and src[i] != "\n": i += 1
            continue
        if src[i] == '"':
            j = i + 1
            while j < n and src[j] != '"':
                j += 2 if src[j] == "\\" else 1
            out.append('""'); i = j + 1; continue
        out.append(src[i]); i += 1
    return "".join(out)


def lean_sources_of(modules):
    """transitive closure of `import PoxModel.*` starting from the given module names"""
    seen, todo = {}, list(modules)
    while todo:
        m = todo.pop()
        if m in seen or not (m.startswith("PoxModel") or m.startswith("Drivers")):
            continue
        path = os.path.join(LEAN, *m.split(".")) + ".lean"
        try:
            src = open(path).read()
        except FileNotFoundError:
            seen[m] = None; continue
        seen[m] = path
        for mm in re.findall(r"^\s*(?:public\s+)?import\s+([\w.]+)", src, re.M):
            todo.append(mm)
    return {m: p for m, p in seen.items() if p}


def audit(prop_module, theorems, extra_modules=()):
    """(ok, report).  Forbidden-token grep over every PoxModel source the property depends on, then `#print axioms`
    for each property theorem: allowed axioms are propext / Classical.choice / Quot.sound only."""
    report = {"forbidden_hits": [], "axioms": {}, "missing": []}
    srcs = lean_sources_of([prop_module] + list(extra_modules))
    for m, path in sorted(srcs.items()):
        code = strip_lean_comments(open(path).read())
        for mo in FORBIDDEN.finditer(code):
            line = code.count("\n", 0, mo.start()) + 1
            report["forbidden_hits"].append("%s:%d:%s" % (m, line, mo.group(0).strip()))
    auditdir = os.path.join(LEAN, ".lake", "audit")
    os.makedirs(auditdir, exist_ok=True)
    f = os.path.join(auditdir, prop_module.split(".")[-1] + "_%d.lean" % os.getpid())
    open(f, "w").write("".join("import %s\n" % m for m in [prop_module] + list(extra_modules)) + "".join("#print axioms %s\n" % t for t in theorems))
    try:
        p = subprocess.run(["lake", "env", "lean", f], cwd=LEAN, stdout=subprocess.PIPE, stderr=subprocess.STDOUT,
                           text=True, timeout=900)
    finally:
        try: os.unlink(f)
        except OSError: pass
    out = p.stdout
    flat = re.sub(r"\s+", " ", out)
    for t in theorems:
        mo = re.search(r"'%s' depends on axioms: \[([^\]]*)\]" % re.escape(t), flat)
        if mo:
            report["axioms"][t] = sorted(a.strip() for a in mo.group(1).split(",") if a.strip())
        elif re.search(r"'%s' does not depend on any axioms" % re.escape(t), flat):
            report["axioms"][t] = []
        else:
            report["missing"].append(t)
    bad = {t: ax for t, ax in report["axioms"].items() if not set(ax) <= ALLOWED_AXIOMS}
    report["bad_axioms"] = bad
    report["raw_tail"] = out[-1500:] if (report["missing"] or bad) else ""
    ok = not report["forbidden_hits"] and not report["missing"] and not bad
    return ok, report


class Driver:
    """model executable speaking the JSON line protocol (lean/PoxModel/Base/Proto.lean)"""
    def __init__(self, name):
        self.path = os.path.join(LEAN, ".lake", "build", "bin", name)
        self.p = subprocess.Popen([self.path], stdin=subprocess.PIPE, stdout=subprocess.PIPE, text=True, bufsize=1 << 20)
    def ask_many(self, reqs):
        lines = [json.dumps(r, separators=(",", ":")) + "\n" for r in reqs]
        def feed():
            try:
                for l in lines: self.p.stdin.write(l)
                self.p.stdin.flush()
            except BrokenPipeError:
                pass
        th = threading.Thread(target=feed); th.start()
        outs = []
        for _ in lines:
            l = self.p.stdout.readline()
            if not l:
                outs.append({"error": "driver died"}); continue
            try: outs.append(json.loads(l))
            except ValueError: outs.append({"error": "unparsable driver output: " + l[:200]})
        th.join()
        return outs
    def ask(self, req):
        return self.ask_many([req])[0]
    def close(self):
        try:
            self.p.stdin.close(); self.p.wait(timeout=10)
        except Exception:
            self.p.kill()


# ----------------------------------------------------------------------------- anchored-line coverage

_AST_CACHE = {}


def resolve_qualname(path, qual):
    """(first line, last line) of the def/class `A.b.c` in the file, or None"""
    import ast
    tree = _AST_CACHE.get(path)
    if tree is None:
        try:
            tree = ast.parse(open(path).read())
        except Exception:
            return None
        _AST_CACHE[path] = tree
    node = tree
    for part in qual.split("."):
        nxt = None
        for ch in getattr(node, "body", []):
            if isinstance(ch, (ast.FunctionDef, ast.AsyncFunctionDef, ast.ClassDef)) and ch.name == part:
                nxt = ch; break
        if nxt is None:
            return None
        node = nxt
    first = min([node.lineno] + [d.lineno for d in getattr(node, "decorator_list", [])])
    return (first, node.end_lineno)


class AnchorCoverage:
    """sys.settrace line tracer restricted to the anchored files/line ranges of a property (DESIGN §1 step 4)."""
    def __init__(self, anchors):
        # anchors: list of (path relative to repo, first line, last line) ; (path, None, None) = whole file
        #          (path, "Class.method" | "function") = that definition, resolved on the current source (robust to line shifts)
        self.ranges = {}
        self.unresolved = []
        for anc in anchors:
            rel = anc[0]
            if len(anc) >= 2 and isinstance(anc[1], str):
                r = resolve_qualname(os.path.join(REPO, rel), anc[1])
                if r is None:
                    self.unresolved.append("%s:%s" % (rel, anc[1])); continue
                a, b = r
            else:
                a, b = anc[1], anc[2]
            self.ranges.setdefault(os.path.join(REPO, rel), []).append((a or 1, b or 10 ** 9))
        self.hit = set()
        self.executable = set()
        for path, rs in self.ranges.items():
            try:
                code = compile(open(path).read(), path, "exec")
            except Exception:
                continue
            todo = [code]
            while todo:
                c = todo.pop()
                # only statements inside function bodies: module- and class-level lines (and the `def` line itself) run at
                # import time, before any case, and say nothing about what the cases exercise
                if c.co_flags & 0x1:
                    for _, _, ln in c.co_lines():
                        if ln and ln != c.co_firstlineno and any(a <= ln <= b for a, b in rs):
                            self.executable.add((path, ln))
                todo.extend(k for k in c.co_consts if hasattr(k, "co_lines"))
    def _local(self, frame, event, arg):
        if event == "line":
            self.hit.add((frame.f_code.co_filename, frame.f_lineno))
        return self._local
    def _global(self, frame, event, arg):
        if frame.f_code.co_filename in self.ranges:
            return self._local
        return None
    def start(self):
        sys.settrace(self._global)
    def stop(self):
        sys.settrace(None)
    def summary(self):
        ex = self.executable
        hit = self.hit & ex
        missed = sorted(ex - hit)
        return {"anchored_executable_lines": len(ex), "anchored_lines_hit": len(hit),
                "anchored_line_coverage_pct": round(100.0 * len(hit) / len(ex), 1) if ex else None,
                "unresolved_anchors": self.unresolved,
                "uncovered_sample": ["%s:%d" % (os.path.relpath(p, REPO), l) for p, l in missed[:25]]}


# ----------------------------------------------------------------------------- known findings

class Findings:
    def __init__(self):
        self.path = os.path.join(VERIF, "known_findings.json")
        try:
            d = json.load(open(self.path))
        except FileNotFoundError:
            d = {"findings": [], "fixed": []}
        self.open = [f for f in d.get("findings", []) if f.get("status", "open") == "open"]
    def match(self, prop, key):
        """key: the structural description of the failing input class produced by the property's harness"""
        for f in self.open:
            if f["property"] != prop:
                continue
            if f.get("key") == key or (f.get("key_regex") and re.fullmatch(f["key_regex"], key)):
                return f
        return None


# ----------------------------------------------------------------------------- check base class

def canon(o):
    return json.dumps(o, sort_keys=True, separators=(",", ":"), default=str)


class Check:
    id = None
    title = ""
    prop_module = None            # e.g. "PoxModel.Properties.C02"
    extra_modules = ()            # further property modules whose theorems are audited with this check
    lean_targets = ()             # extra lake targets (the driver exe)
    driver = None                 # exe name
    theorems = ()                 # fully qualified names audited with #print axioms
    anchors = ()                  # (relpath, first, last)
    trusted_base = ()
    assumptions = ()
    design_ref = ""
    coverage_cases = 150          # how many cases run under the line tracer
    search_budget = {"quick": 3000, "thorough": 40000}

    # --- to be provided by the property
    def translate(self):
        """regenerate Lean files from REPO; return list of (path, changed)"""
        return []
    def corpus(self):
        return []
    def generate(self, rng, tier):
        return iter(())
    def search_cases(self, rng, tier):
        """wider stream used only by the failing-input search (defaults to generate with a fresh rng)"""
        return self.generate(rng, tier)
    def impl(self, case):
        raise NotImplementedError
    def model_request(self, case):
        """JSON request for the driver, or None when the case has no model counterpart (oracle only)"""
        return None
    def model_obs(self, case, resp):
        return resp
    def impl_view(self, case, obs):
        """projection of impl observables compared with the model's answer"""
        return obs
    def oracle(self, case, obs):
        """None if the property holds on this case, else a short description"""
        return None
    def finding_key(self, case, obs, failure):
        return failure
    def nontrivial(self, case, obs):
        return True
    def shrink_candidates(self, case):
        """smaller variants of a failing case (default: drop one element of case['ops'])"""
        ops = case.get("ops") if isinstance(case, dict) else None
        if isinstance(ops, list):
            for i in range(len(ops)):
                c = copy.deepcopy(case); del c["ops"][i]; yield c
    def setup(self):
        pass
    def extra_evidence(self):
        return {}

    # --- machinery
    def safe_impl(self, case):
        try:
            return self.impl(case)
        except Exception as e:                         # harness-level: the property code decides what an exception means
            return {"harness_exception": "%s: %s" % (type(e).__name__, e), "tb": traceback.format_exc()[-800:]}

    def fails(self, case):
        obs = self.safe_impl(case)
        if isinstance(obs, dict) and "harness_exception" in obs:
            return obs, "harness exception " + obs["harness_exception"]
        return obs, self.oracle(case, obs)

    def shrink(self, case, key):
        cur = case
        for _ in range(200):
            for c in self.shrink_candidates(cur):
                obs, f = self.fails(c)
                if f is not None and self.finding_key(c, obs, f) == key:
                    cur = c; break
            else:
                return cur
        return cur


def write_replay(prop, name, payload):
    os.makedirs(REPLAY_DIR, exist_ok=True)
    path = os.path.join(REPLAY_DIR, "%s_%s.json" % (prop, name))
    json.dump(payload, open(path, "w"), indent=1, sort_keys=True, default=str)
    return path


def _replay_fails(prop, path):
    """does `check <prop> --replay <path>` report the failure in a fresh process?  (True also when that cannot be determined)"""
    try:
        p = subprocess.run([os.path.join(VERIF, "check"), prop, "--replay", path, "--no-build"], cwd=VERIF, stdout=subprocess.PIPE,
                           stderr=subprocess.STDOUT, text=True, timeout=600, env=dict(os.environ))
        return p.returncode != 0
    except Exception:
        return True


def run_check(chk, argv):
    import argparse
    ap = argparse.ArgumentParser()
    ap.add_argument("--tier", default=os.environ.get("VERIF_TIER", "quick"))
    ap.add_argument("--replay")
    ap.add_argument("--no-build", action="store_true")
    args = ap.parse_args(argv)
    tier = args.tier if args.tier in ("quick", "thorough") else "quick"
    seed = int(os.environ.get("VERIF_SEED", "0") or 0)
    t0 = time.perf_counter()
    P = chk.id
    findings = Findings()
    try:
        chk.setup()
    except (Exception, SystemExit) as e:
        # the harness cannot even attach to this tree (an interface it drives is gone, a source shape it reads to pick
        # the model variant is unknown): the tie between model and code is broken before any input was run.  That is
        # reported like any other broken obligation — not as an infrastructure error, which would hide a changed tree.
        import traceback
        path = write_replay(P, "broken", {"property": P, "kind": "broken-obligation", "case": None,
                                          "broken": [["harness-setup", "%s: %s" % (type(e).__name__, e)]], "traceback": traceback.format_exc()[-1500:],
                                          "search": {"cases_tried": 0, "found": False}})
        print("VIOLATION property=%s replay=%s no-failing-input-found" % (P, path))
        os.makedirs(EVIDENCE_DIR, exist_ok=True)
        json.dump({"property_id": P, "tier": tier, "seed": seed, "level": "proof",
                   "coverage": {"obligations": len(chk.theorems), "discharged": 0, "checker_cmd": "none: harness setup failed",
                                "trusted_base": list(chk.trusted_base), "broken": [["harness-setup", str(e)[:500]]]},
                   "assumptions": list(chk.assumptions), "wall_s": round(time.perf_counter() - t0, 2), "violations": 1},
                  open(os.path.join(EVIDENCE_DIR, P + ".json"), "w"), indent=1, default=str)
        log("%s %s: harness setup failed (%s: %s) -> exit 1" % (P, tier, type(e).__name__, str(e)[:200]))
        return 1

    if args.replay:
        rp = json.load(open(args.replay))
        case = rp.get("case")
        if case is None:
            print("replay names a broken obligation, no input: %s" % rp.get("broken")); return 1
        obs, f = chk.fails(case)
        print(json.dumps({"case": case, "observed": obs, "failure": f}, indent=1, default=str))
        return 1 if f else 0

    broken = []          # (kind, detail)
    # 1 translate
    try:
        gen = chk.translate()
    except Exception as e:
        gen = []
        broken.append(("translator", "%s: %s" % (type(e).__name__, e)))
    # 2 build
    build_ok, build_log = True, ""
    if not args.no_build:
        try:
            build_ok, build_log = lake_build([chk.prop_module] + list(chk.extra_modules) + list(chk.lean_targets))
        except subprocess.TimeoutExpired:
            log("lake build timed out"); return 2
        if not build_ok:
            first = re.search(r"error: ([^\n]*)", build_log)
            broken.append(("lean-build", first.group(0) if first else build_log[-400:]))
    # 3 audit
    audit_report = {}
    discharged = 0
    if build_ok:
        ok, audit_report = audit(chk.prop_module, list(chk.theorems), chk.extra_modules)
        discharged = sum(1 for t in chk.theorems if t in audit_report["axioms"] and t not in audit_report["bad_axioms"])
        if audit_report["forbidden_hits"]:
            discharged = 0
        if not ok:
            broken.append(("audit", json.dumps({k: audit_report[k] for k in ("forbidden_hits", "missing", "bad_axioms")})))
    # 3b thorough tier: independent re-check of the compiled property module
    leancheck = None
    if build_ok and tier == "thorough" and not args.no_build:
        try:
            with _LakeLock():
                p = subprocess.run(["lake", "env", "leanchecker", chk.prop_module] + list(chk.extra_modules), cwd=LEAN, stdout=subprocess.PIPE,
                                   stderr=subprocess.STDOUT, text=True, timeout=1500)
            leancheck = (p.returncode == 0)
            if not leancheck:
                broken.append(("leanchecker", p.stdout[-400:]))
        except subprocess.TimeoutExpired:
            log("leanchecker timed out"); return 2
    # 4 correspondence
    rng = random.Random(seed * 1000003 + 17)
    cases = list(chk.corpus())
    n_corpus = len(cases)
    cases += list(chk.generate(rng, tier))
    cov = AnchorCoverage(chk.anchors) if chk.anchors else None
    results = []
    stride = max(1, len(cases) // max(1, chk.coverage_cases))
    for i, case in enumerate(cases):
        if cov and i % stride == 0: cov.start()
        try:
            obs, f = chk.fails(case)
        finally:
            if cov: cov.stop()
        results.append((case, obs, f))
    model_answers = [None] * len(cases)
    if build_ok and chk.driver:
        reqs, idx = [], []
        for i, (case, obs, f) in enumerate(results):
            r = chk.model_request(case)
            if r is None and hasattr(chk, "model_request2") and not (isinstance(obs, dict) and "harness_exception" in obs):
                r = chk.model_request2(case, obs)         # request that replays behaviour observed on the implementation
            if r is not None:
                reqs.append(r); idx.append(i)
        if reqs:
            try:
                d = Driver(chk.driver)
                outs = d.ask_many(reqs); d.close()
            except Exception as e:
                outs = [{"error": "driver: %s" % e}] * len(reqs)
            for i, o in zip(idx, outs):
                model_answers[i] = o
    known_hit, violations, disagreements = {}, [], []
    distinct = set()
    harness_errors = []
    for i, (case, obs, f) in enumerate(results):
        if f is not None and isinstance(obs, dict) and "harness_exception" in obs:
            # the harness itself could not run this case on this tree (an interface it drives has changed, or the model/translator
            # has nothing for it): that is a broken tie, not an input on which the property fails
            harness_errors.append((case, obs)); continue
        if f is not None:
            key = chk.finding_key(case, obs, f)
            kf = findings.match(P, key)
            if kf:
                known_hit.setdefault(kf["id"], (kf, case)); continue
            violations.append((key, case, obs, f)); continue
        if chk.nontrivial(case, obs):
            distinct.add(hashlib.sha1(canon(case).encode()).hexdigest())
        if model_answers[i] is not None:
            mo = chk.model_obs(case, model_answers[i])
            iv = chk.impl_view(case, obs)
            if canon(mo) != canon(iv):
                disagreements.append((case, iv, mo))
    if harness_errors:
        broken.append(("harness", "%d of %d cases could not be run by the harness; first: %s" % (len(harness_errors), len(cases), harness_errors[0][1]["harness_exception"][:300])))
    # 5 failing-input search when something is broken and no failing input is in hand
    searched = 0
    if (broken or disagreements) and not violations:
        srng = random.Random(seed * 7919 + 101)
        budget = chk.search_budget[tier]
        pool = [c for c, _, _ in disagreements]
        def stream():
            for c in pool: yield c
            for c in chk.search_cases(srng, "thorough"): yield c
        for c in stream():
            if searched >= budget: break
            searched += 1
            obs, f = chk.fails(c)
            if f is not None and not (isinstance(obs, dict) and "harness_exception" in obs):
                key = chk.finding_key(c, obs, f)
                if findings.match(P, key): continue
                violations.append((key, c, obs, f)); break
    # 6 report
    rc = 0
    for fid, (kf, case) in sorted(known_hit.items()):
        print("KNOWN-FINDING: property=%s %s %s" % (P, fid, kf.get("what", "")))
    seen_keys = set()
    for key, case, obs, f in violations:
        if key in seen_keys: continue
        seen_keys.add(key)
        small = chk.shrink(case, key)
        sobs, sf = chk.fails(small)
        rid = hashlib.sha1(canon(key).encode()).hexdigest()[:10]
        path = write_replay(P, rid, {"property": P, "kind": "failing-input", "key": key, "case": small, "observed": sobs, "failure": sf,
                                     "broken": [list(b) for b in broken]})
        # the replay must fail on its own, in a fresh process: state leaked by earlier cases of this run (a class-level
        # cache in the code under test) can make a shrunk case fail here and nowhere else.  If it does not reproduce, fall
        # back to the case as found, and if that does not reproduce either say so in the replay.
        note = None
        if not _replay_fails(P, path):
            path = write_replay(P, rid, {"property": P, "kind": "failing-input", "key": key, "case": case, "observed": obs, "failure": f,
                                         "broken": [list(b) for b in broken], "note": "the shrunk case did not fail in a fresh process; this is the case as found"})
            if not _replay_fails(P, path):
                note = "fails only after the earlier cases of the run (state carried between cases); run the check itself to reproduce"
                write_replay(P, rid, {"property": P, "kind": "failing-input", "key": key, "case": case, "observed": obs, "failure": f,
                                      "broken": [list(b) for b in broken], "note": note})
        print("VIOLATION property=%s replay=%s" % (P, path)); rc = 1
        if len(seen_keys) >= 5: break
    if not violations and (broken or disagreements):
        what = [list(b) for b in broken]
        if disagreements:
            c, iv, mo = disagreements[0]
            what.append(["correspondence", "model %s and implementation disagree on %d of %d cases" % (chk.driver, len(disagreements), len(cases))])
        path = write_replay(P, "broken", {"property": P, "kind": "broken-obligation", "broken": what, "case": None,
                                          "first_disagreement": ({"case": disagreements[0][0], "impl": disagreements[0][1], "model": disagreements[0][2]} if disagreements else None),
                                          "search": {"cases_tried": searched, "found": False}})
        print("VIOLATION property=%s replay=%s no-failing-input-found" % (P, path)); rc = 1
    # 7 evidence
    wall = time.perf_counter() - t0
    samples = [c for c, _, _ in results[n_corpus:n_corpus + 2]] + [c for c, _, _ in results[:1]]
    validated = sum(1 for a in model_answers if a is not None) - len(disagreements)
    coverage = {
        "obligations": len(chk.theorems), "discharged": discharged,
        "checker_cmd": "cd lean && lake build %s && lake env lean <#print axioms of the %d property theorems>" % (chk.prop_module, len(chk.theorems)),
        "trusted_base": ["Lean 4.33.0 kernel", "axioms: " + ", ".join(sorted({a for ax in audit_report.get("axioms", {}).values() for a in ax}) or ["none"]),
                         "no sorry/native_decide/bv_decide/own axioms (grep + #print axioms audited on this run)"] + list(chk.trusted_base),
        "theorems": {t: audit_report.get("axioms", {}).get(t) for t in chk.theorems},
        "generated_files": [[os.path.relpath(p, VERIF), ch] for p, ch in gen],
        "evaluations": len(cases), "distinct_nontrivial": len(distinct),
        "rule": getattr(chk, "rule", "cases = corpus + seeded generator; distinct = sha1 of canonical case; non-trivial per property harness"),
        "samples": samples[:3] if samples else [],
        "traces_validated_against_impl": max(validated, 0),
        "model_disagreements": len(disagreements),
        "corpus_cases": n_corpus,
        "known_findings_hit": sorted(known_hit),
        "failing_input_search_cases": searched,
        "broken": [list(b) for b in broken],
        "leanchecker_ok": leancheck,
    }
    if cov: coverage.update(cov.summary())
    coverage.update(chk.extra_evidence())
    ev = {"property_id": P, "tier": tier, "seed": seed, "level": "proof", "coverage": coverage,
          "assumptions": list(chk.assumptions), "wall_s": round(wall, 2), "violations": len(seen_keys) + (1 if rc and not seen_keys else 0)}
    # evidence/ describes runs against /repo itself; a run pointed at another tree (POX_REPO: seeded / harmless / candidate-fix
    # experiments) writes its evidence next to the replays instead, so that the committed evidence is never that of a scratch tree
    evdir = EVIDENCE_DIR if os.path.realpath(REPO) == os.path.realpath("/repo") else os.path.join(VERIF, "replays", "evidence_other_tree")
    ev["tree"] = os.path.realpath(REPO)
    os.makedirs(evdir, exist_ok=True)
    json.dump(ev, open(os.path.join(evdir, P + ".json"), "w"), indent=1, default=str)
    log("%s %s: %d cases (%d corpus), %d model-validated, %d disagreements, %d theorems audited, %.1fs -> exit %d"
        % (P, tier, len(cases), n_corpus, max(validated, 0), len(disagreements), discharged, wall, rc))
    return rc
