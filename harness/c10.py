"""C10 — malformed OpenFlow input is contained to the offending connection (DESIGN §5 C10)."""
import os
import signal, socket, errno, random
import itertools
import common, poxenv, ofgen
from common import Check


class Spin(BaseException):
    pass


class cpu_budget:
    """raise Spin in the running code once it has used `secs` of CPU time — or 8x that in wall time, for code that
    blocks instead of spinning (e.g. a loop that fills the pinger pipe) — repeating, so a swallowed exception fires again.
    The handlers stay installed for the life of the process (a tick that arrives after the block is ignored)."""
    armed = False
    installed = False
    @staticmethod
    def _h(sig, frm):
        if cpu_budget.armed: raise Spin()
    def __init__(self, secs): self.secs = secs
    def __enter__(self):
        if not cpu_budget.installed:
            signal.signal(signal.SIGVTALRM, cpu_budget._h); signal.signal(signal.SIGALRM, cpu_budget._h)
            cpu_budget.installed = True
        cpu_budget.armed = True
        signal.setitimer(signal.ITIMER_VIRTUAL, self.secs, 0.02)
        signal.setitimer(signal.ITIMER_REAL, self.secs * 8, 0.05)
    def __exit__(self, *a):
        cpu_budget.armed = False
        signal.setitimer(signal.ITIMER_VIRTUAL, 0, 0)
        signal.setitimer(signal.ITIMER_REAL, 0, 0)
        return False


RX_ERRNO = {"reset": errno.ECONNRESET, "enoent": errno.ENOENT, "pipe": errno.EPIPE}


class RSock:
    """scripted receive side; everything written is collected"""
    def __init__(self): self.chunks, self.sent = [], b""
    def recv(self, n, flags=0):
        if not self.chunks: raise socket.error(errno.EAGAIN, "EAGAIN")
        c = self.chunks.pop(0)
        if isinstance(c, int): raise socket.error(c, os.strerror(c))      # scripted socket error (errno)
        assert len(c) <= n
        return c
    def send(self, d, flags=0): self.sent += bytes(d); return len(d)
    def shutdown(self, *a): pass
    def close(self): pass
    def fileno(self): return -1
    def getpeername(self): return ("peer", 6633)


def canon_obj(o, depth=0):
    """structural dump of a decoded message (no addresses), to compare two decodings"""
    if depth > 6: return "…"
    if isinstance(o, (bytes, bytearray)): return bytes(o).hex()
    if isinstance(o, (int, str, bool, type(None), float)): return o
    if isinstance(o, (list, tuple)): return [canon_obj(x, depth + 1) for x in o]
    if isinstance(o, dict): return {str(k): canon_obj(v, depth + 1) for k, v in sorted(o.items(), key=lambda kv: str(kv[0]))}
    if hasattr(o, "toRaw"):
        try: return ["addr", bytes(o.toRaw()).hex()]
        except Exception: pass
    if hasattr(o, "__dict__"):
        return [type(o).__name__, {k: canon_obj(v, depth + 1) for k, v in sorted(vars(o).items())}]
    return str(type(o).__name__)


def segment(stream, cuts, cap=2048):
    cuts = sorted(set(c for c in cuts if 0 < c < len(stream)))
    out, prev = [], 0
    for c in cuts + [len(stream)]:
        piece = stream[prev:c]; prev = c
        while len(piece) > cap:
            out.append(piece[:cap]); piece = piece[cap:]
        if piece: out.append(piece)
    return out


from c10_live import LiveMixin


class C10(LiveMixin, Check):
    id = "C10"
    _kit = (RSock, RX_ERRNO, cpu_budget, Spin)
    prop_module = "PoxModel.Properties.C10"
    lean_targets = ["drv_c10"]
    driver = "drv_c10"
    theorems = ["Pox.C10.ctl_terminates", "Pox.C10.sw_terminates", "Pox.C10.ctl_unguarded_spins", "Pox.C10.sw_contained",
                "Pox.C10.siblings_untouched", "Pox.C10.ctl_no_overread", "Pox.C10.sw_no_overread",
                "Pox.C10.ctl_disconnect_stops", "Pox.C10.ctl_no_disconnect_same", "Pox.C10.ctl_disconnect_persists",
                "Pox.C10.sw_trace_is_feed", "Pox.C10.sw_answered_or_closed", "Pox.C10.sw_replies_only_for_skips",
                "Pox.C10.ctl_trace_is_feed", "Pox.C10.ctl_accounted", "Pox.C10.ctl_task_contained", "Pox.C10.sw_deliver_window_only",
                "Pox.C10.round_order_irrelevant", "Pox.C10.round_independent", "Pox.C10.ctl_round_contained", "Pox.C10.ctl_round_is_serveRound", "Pox.C10.ctl_round_completes",
                "Pox.C10.history_isolated", "Pox.C10.offender_never_existed", "Pox.C10.closed_is_silent", "Pox.C10.live_event_is_own"]
    anchors = [("pox/openflow/of_01.py", "Connection.read"), ("pox/openflow/of_01.py", "OpenFlow_01_Task.run"),
               ("pox/datapaths/switch.py", "OFConnection.read"), ("pox/datapaths/switch.py", "OFConnection._error_handler"),
               ("pox/datapaths/switch.py", "OFConnection._extract_message_xid"), ("pox/lib/ioworker/__init__.py", "RecocoIOLoop.run"),
               ("pox/lib/ioworker/__init__.py", "IOWorker._do_recv"), ("pox/openflow/libopenflow_01.py", "_read"), ("pox/openflow/libopenflow_01.py", "_unpack"),
               ("pox/openflow/libopenflow_01.py", "_skip"), ("pox/openflow/libopenflow_01.py", "_unpack_actions"),
               ("pox/openflow/of_01.py", "Connection.__init__"), ("pox/openflow/of_01.py", "Connection._incoming_stats_reply"),
               ("pox/openflow/of_01.py", "DefaultOpenFlowHandlers.handle_STATS_REPLY")]
    coverage_cases = 10 ** 9      # every case runs under the line tracer (cheap here)
    design_ref = "DESIGN.md §5 C10"
    technique = ("Lean 4 proof over the two read-loop models with the decoders completely unconstrained (termination by a consumption bound, no escaping exception on the switch side, "
                 "sibling isolation, declared-length windows) + differential correspondence replaying the observed decoder behaviour through the model + mutation-stream oracle on the real code")
    level_text = ("Theorems: for EVERY decoder behaviour (any offset, exception, missing) and every byte string, both read loops terminate within len/8+1 iterations, the switch-side path never lets "
                  "an exception escape (so its I/O loop survives), feeding one connection leaves all others untouched, and every delivered message was decoded from exactly its declared-length window. "
                  "Each run replays the real decoders' observed behaviour through the model on a mutation stream (every length value, type/version bytes, truncations, flips, random) and checks the loops' "
                  "outcome; independently the oracle checks no spin (CPU budget), surviving I/O loop, unchanged sibling traffic and that each delivered object does not depend on bytes outside its window. "
                  "Live histories (real handshake / statistics-assembly / port handlers on three connections under the real controller loop): theorems history_isolated / offender_never_existed say that in "
                  "the model every connection's events and final state are those of its own inputs alone; the oracle demands the same of the code by running each history with and without the offender "
                  "(events on nexus and connection, port view, registration, bytes written), and the statistics events of all connections are compared with LiveNet.runNet.")
    level_note = ("Trusted: Lean kernel, standard axioms, hand-written Model/Framing.lean, the harness. Both I/O loops are the real ones: the controller side drives the real "
                  "OpenFlow_01_Task.run generator (its listening socket is bound to 127.0.0.1:0 and never connected to), the switch side the real RecocoIOLoop.run generator; the harness "
                  "answers each Select they yield. What the ~50 decoders do with garbage is NOT modelled: it is observed, fed to the model as a table, and checked by the oracle "
                  "(window independence, exceptions contained).")
    trusted_base = ["model Model/Framing.lean (ctlLoop/swLoop) hand-written; tied by this correspondence run", "answering the Select operations that the two real I/O loop generators yield (the harness plays the select hub)"]
    assumptions = ["select is level-triggered: a connection whose bytes were not read in a round (the controller loop abandons the rest of a round when one read raises) is reported readable again; the model's ctlRound/ctlRounds are the pass and its repetitions (theorem ctl_round_completes: together they are serveRound)",
                   "the listening socket is outside the model: an exception while ACCEPTING a connection ends the controller's I/O loop for all connections (not reachable by bytes on an established connection)",
                   "message handlers that disconnect the connection in the middle of a read are covered by ctl_disconnect_stops / ctl_disconnect_persists and the `disc` cases; what a handler does beyond raising or disconnecting is outside the model",
                   "a message handler that RAISES is caught by both read loops (cases `hraise`); in the model handlers do not exist, so a raising handler and a returning one are the same step; a failure inside OFConnection._error_handler itself is not modelled",
                   "sw_contained (no branch of swLoop yields `dead`) and siblings_untouched (feedAt is List.set) hold by construction of the model; that the real loops behave like it is what every run tests by driving the real RecocoIOLoop.run / OpenFlow_01_Task.run generators with three connections",
                   "the no-over-read theorems constrain the offset a decoder reports; that a decoder does not PEEK past its window is the hypothesis WindowLocal (theorem sw_deliver_window_only), proved of the real decoders on well-formed messages by C01 and tested on every delivered window here (re-decoding it followed by other bytes)",
                   "live histories: the model's inputs `up` (handshake complete) and `close` (malformed bytes take effect / peer gone / wrong barrier reply) are derived from the script of the history, byte-accurately (a message counts when its last byte — for a bad header its 8th byte — has arrived); the handshake itself is C13's model; "
                   "the differential oracle runs the history twice in one process (first without the offender): state leaking BETWEEN the two runs would show as a failure of the first live case, not hide one",
                   "non-termination is detected by a budget of 4 s CPU time (or 32 s wall time when blocked) per read call", "recv returns at most the bytes asked for"]
    rule = ("[live] histories over three controller connections with the REAL handlers (steps = symbolic messages per connection with a number of bytes held back in flight; "
            "the offender completes or half-completes its handshake, leaves unfinished multipart replies of every type with xids the siblings also use, deferred port status and half a message, "
            "then sends a bad version / a length < 8 / a message whose decoder raises / a wrong barrier reply or loses its peer); every sibling's events (nexus and connection level, aggregated "
            "statistics included), port view, registration and what it was written must equal those of the same history WITHOUT the offender; the statistics events of all connections are model-compared (LiveNet.runNet); "
            "[rounds] a case may serve all three connections in ONE select round per step, in a given order, and let a sibling lose its peer in that round; "
            "case = (side, valid prefix messages, one malformed region, valid suffix messages, two sibling connections with valid traffic, cut positions); malformed region = every length value 0..len+8 of "
            "each of the 22 message types (corpus), type/version bytes, embedded lengths, truncations, byte flips, random bytes; non-trivial = the malformed region differs from a valid message")

    def setup(self):
        poxenv.boot()
        import pox.openflow.of_01 as of_01, pox.openflow.libopenflow_01 as of
        import pox.lib.ioworker as iow
        from pox.datapaths.switch import OFConnection
        self.of_01, self.of, self.iow, self.OFConnection = of_01, of, iow, OFConnection
        self.spins = 0

    # ------------------------------------------------------------------ generators
    def _valid(self, rng, kind=None):
        for _ in range(50):
            try:
                return ofgen.build(ofgen.message(rng, kind=kind, small=True)).pack()
            except Exception:
                continue
        return self.of.ofp_hello(xid=1).pack()

    def _mk(self, rng, side, bad, npre=1, npost=1, cuts=()):
        return {"side": side, "pre": [self._valid(rng).hex() for _ in range(npre)], "bad": bad.hex(),
                "post": [self._valid(rng).hex() for _ in range(npost)],
                "sib": [[self._valid(rng).hex() for _ in range(2)] for _ in range(2)], "cuts": list(cuts)}

    def corpus(self):
        rng = random.Random(10)
        cases = []
        for side in ("ctl", "sw"):
            for kind in ofgen.MESSAGE_KINDS:
                m = self._valid(rng, kind)
                if len(m) > 120: m = self._valid(rng, kind)
                for L in list(range(0, min(len(m), 70) + 9)) + [len(m) - 1, len(m) + 1, 0xffff]:      # every length value
                    if L < 0: continue
                    b = bytearray(m); b[2] = (L >> 8) & 0xff; b[3] = L & 0xff
                    cases.append(self._mk(rng, side, bytes(b)))
                for v in (0, 2, 4, 0xff):                                                               # version byte
                    b = bytearray(m); b[0] = v; cases.append(self._mk(rng, side, bytes(b)))
                for t in (22, 23, 0x7f, 0xff):                                                          # type byte
                    b = bytearray(m); b[1] = t; cases.append(self._mk(rng, side, bytes(b)))
            # embedded lengths: every action / queue / queue-property / flow-stats-entry length field set to each small value
            for m, offs in self._embedded(rng):
                for off in offs:
                    for v in (0, 1, 4, 7, 8, 9, 12, 16, 0xffff):
                        b = bytearray(m); b[off] = v >> 8; b[off + 1] = v & 0xff
                        cases.append(self._mk(rng, side, bytes(b)))
            # a length (header, actions_len, or an embedded one) OVERSTATED by 1..3 while the read ends 0..4 bytes into the
            # next message: a decoder that trusts the length then reads a 4-byte sub-header from fewer than 4 bytes
            of = self.of
            acts = [of.ofp_action_output(port=1), of.ofp_action_vlan_vid(vlan_vid=5)]
            lists = [(of.ofp_flow_mod(xid=1, match=of.ofp_match(in_port=1), actions=acts).pack(), [2]),
                     (of.ofp_packet_out(xid=2, in_port=1, actions=acts, data=b"").pack(), [2, 14]),
                     (of.ofp_packet_out(xid=2, in_port=1, actions=acts, data=b"\x01\x02\x03").pack(), [14]),
                     (of.ofp_stats_reply(xid=3, type=of.OFPST_FLOW, body=[of.ofp_flow_stats(match=of.ofp_match(), actions=acts)]).pack(), [2, 12]),
                     (of.ofp_queue_get_config_reply(xid=4, port=1, queues=[of.ofp_packet_queue(queue_id=1, properties=[of.ofp_queue_prop_min_rate(rate=5)])]).pack(), [2, 20])]
            for m, offs in lists:
                for off in offs:
                    for d in (1, 2, 3):
                        for k in (0, 1, 2, 3, 4):
                            b = bytearray(m); v = ((b[off] << 8) | b[off + 1]) + d
                            b[off] = v >> 8; b[off + 1] = v & 0xff
                            c = self._mk(rng, side, bytes(b), npre=1, npost=2)
                            c["cuts"] = [sum(len(x) // 2 for x in c["pre"]) + len(b) + k]
                            cases.append(c)
            # controller side: the handler of the k-th valid message disconnects the connection (a failed send, a
            # failed handshake): nothing after it may be dispatched, in this read or later ones
            if side == "ctl":
                for k in range(4):
                    for cuts in ((), (9,), (30, 31)):
                        c = self._mk(rng, side, self._valid(rng), npre=2, npost=2, cuts=cuts)
                        seq = c["pre"] + [c["bad"]] + c["post"]
                        c["disc"] = [seq[k]]
                        cases.append(c)
            # a handler that raises on the k-th message: the message counts as processed, the loop and everything after it
            # carry on exactly as if the handler had returned (both sides catch and log handler exceptions)
            for k in range(5):
                for cuts in ((), (9,), (30, 31)):
                    c = self._mk(rng, side, self._valid(rng), npre=2, npost=2, cuts=cuts)
                    seq = c["pre"] + [c["bad"]] + c["post"]
                    c["hraise"] = [seq[k]] if k < 4 else seq
                    cases.append(c)
            # the peer goes away (end of stream, reset, broken pipe, ENOENT) before / between / inside / after messages
            for kind in ("eof", "reset", "pipe", "enoent") + (("exc",) if side == "sw" else ()):
                for after in range(0, 5):
                    for cuts in ((), (9,), (12, 30), (5, 9, 40, 41)):
                        c = self._mk(rng, side, self._valid(rng), npre=1, npost=2, cuts=cuts)
                        c["rx"] = {"kind": kind, "after": after}
                        cases.append(c)
            # several connections readable in ONE select round, in every service order: a connection that gives up (length
            # field < 8, wrong version), one that is answered/skipped, a valid one — next to siblings of which one may lose its
            # peer (end of stream, reset, broken pipe) in that very round
            hello = bytearray(self.of.ofp_hello(xid=3).pack())
            bads = [bytes(hello[:2]) + b"\x00\x04" + bytes(hello[4:]), bytes([4]) + bytes(self.of.ofp_echo_request(xid=4).pack()[1:]),
                    bytes([1, 0x63, 0, 8, 0, 0, 0, 5]), self.of.ofp_echo_request(xid=6).pack()]
            for bad in bads:
                for order in itertools.permutations((0, 1, 2)):
                    for sibrx in (None, {"k": 1, "at": 1, "kind": "eof"}, {"k": 2, "at": 1, "kind": "reset"}, {"k": 1, "at": 1, "kind": "pipe"}, {"k": 2, "at": 0, "kind": "eof"}):
                        c = self._mk(rng, side, bad, npre=1, npost=2)
                        c["sib"] = [[self._valid(rng).hex() for _ in range(3)] for _ in range(2)]
                        c["cuts"] = [sum(len(x) // 2 for x in c["pre"])]          # step 0: the valid prefix; step 1: the bad message and what follows
                        c["round"] = list(order)
                        if sibrx: c["sibrx"] = sibrx
                        cases.append(c)
            # idle periods between the reads: valid traffic, a skipped message, a give-up — the loop goes round again every time
            for bad in bads:
                c = self._mk(rng, side, bad, npre=2, npost=2, cuts=(9, 30))
                c["idle"] = True
                cases.append(c)
            # a connection that gave up keeps receiving data in LATER reads: complete valid messages, each in its own read,
            # must not be processed any more
            for bad in bads[:2]:
                for npost in (1, 3):
                    c = self._mk(rng, side, bad, npre=1, npost=npost)
                    e, p = [], 0
                    for x in c["pre"] + [c["bad"]] + c["post"]:
                        p += len(x) // 2; e.append(p)
                    c["cuts"] = e[:-1]
                    cases.append(c)
            # a wrong-version message as the very first data on a connection, arriving with only 4..7 of its bytes in the
            # first read (the bad-version path builds its reply from a partial header), and after valid traffic
            for v in (0, 4, 0x43):
                for k in (4, 5, 6, 7, 8, 9):
                    for npre in (0, 1):
                        m = bytearray(self._valid(rng)); m[0] = v
                        c = self._mk(rng, side, bytes(m), npre=npre, npost=1, cuts=())
                        plen = sum(len(x) // 2 for x in c["pre"])
                        c["cuts"] = [plen + k]
                        cases.append(c)
            # messages near the 64 KiB limit: unknown type, bad length inside, and valid
            for t, L in ((0x63, 65528), (0x63, 65535), (2, 65535), (10, 65000), (13, 65528)):
                body = bytes((i * 7) & 0xff for i in range(L - 8))
                b = bytes([1, t, L >> 8, L & 0xff, 0, 0, 0, 9]) + body
                cases.append(self._mk(rng, side, b, cuts=(2048, 30000)))
        # siblings that hold half a message (and several messages per read) while the offender gives up / is answered / raises
        for side in ("ctl", "sw"):
            hello = bytearray(self.of.ofp_hello(xid=3).pack())
            bads = [bytes(hello[:2]) + b"\x00\x04" + bytes(hello[4:]), bytes([4]) + bytes(self.of.ofp_echo_request(xid=4).pack()[1:]),
                    bytes([1, 0x63, 0, 8, 0, 0, 0, 5]), self.of.ofp_stats_reply(xid=6, type=1, body=b"\0\0\0").pack()]
            for bad in bads:
                for sc in ([[3], [12]], [[8, 9], [1, 2, 3]], [[4, 20, 21], [7]], [[10 ** 6], [5, 11, 17, 23, 29, 35]]):
                    for order in (None, [0, 1, 2], [2, 0, 1]):
                        c = self._mk(rng, side, bad, npre=1, npost=1, cuts=(5, 13))
                        c["sib"] = [[self._valid(rng).hex() for _ in range(3)] for _ in range(2)]
                        c["sibcuts"] = sc
                        if order: c["round"] = order
                        cases.append(c)
        # live histories (c10_live.py): the REAL handlers on every connection; the offender leaves unfinished multipart replies of
        # every type (colliding xids), half a message, a pending handshake, deferred port status behind, then dies in every way
        cases.extend(self._live_corpus())
        return cases

    def _embedded(self, rng):
        """(message bytes, offsets of embedded 16-bit length fields) for the list-carrying message types"""
        of = self.of
        acts = [of.ofp_action_output(port=1), of.ofp_action_vlan_vid(vlan_vid=5), of.ofp_action_dl_addr(type=4, dl_addr=of.EthAddr("00:00:00:00:00:01")),
                of.ofp_action_enqueue(port=1, queue_id=2)]
        def act_offs(start, alist):
            out, p = [], start
            for a in alist:
                out.append(p + 2); p += len(a)
            return out
        res = []
        fm = of.ofp_flow_mod(xid=1, match=of.ofp_match(in_port=1), actions=acts).pack()
        res.append((fm, act_offs(72, acts)))
        po = of.ofp_packet_out(xid=2, in_port=1, actions=acts, data=b"\x00" * 20).pack()
        res.append((po, [14] + act_offs(16, acts)))
        fs = of.ofp_flow_stats(match=of.ofp_match(in_port=1), actions=acts)
        sr = of.ofp_stats_reply(xid=3, type=of.OFPST_FLOW, body=[fs, of.ofp_flow_stats(match=of.ofp_match(), actions=acts[:1])]).pack()
        res.append((sr, [12] + act_offs(12 + 88, acts) + [12 + len(fs)]))
        q = of.ofp_packet_queue(queue_id=1, properties=[of.ofp_queue_prop_min_rate(rate=5), of.ofp_queue_prop_none()])
        qr = of.ofp_queue_get_config_reply(xid=4, port=1, queues=[q, of.ofp_packet_queue(queue_id=2)]).pack()
        res.append((qr, [16 + 4, 16 + 8 + 2, 16 + 8 + 16 + 2, 16 + len(q) + 4]))
        return res

    def generate(self, rng, tier):
        n = 400 if tier == "quick" else 12000
        for _ in range(n // 4):
            yield self._live_random(rng)
        for _ in range(n):
            side = rng.choice(["ctl", "sw"])
            m = bytearray(self._valid(rng))
            r = rng.random()
            if r < 0.25:                                       # embedded length / any 16-bit field
                if len(m) > 10:
                    p = rng.randrange(8, len(m) - 1); v = rng.choice([0, 1, 4, 7, 8, 9, 0xffff, rng.randint(0, 300)])
                    m[p] = v >> 8; m[p + 1] = v & 0xff
            elif r < 0.45:                                     # truncation with a consistent header
                k = rng.randint(8, max(8, len(m)))
                m = m[:k]; m[2] = len(m) >> 8; m[3] = len(m) & 0xff
            elif r < 0.6:                                      # truncation with the original header (stream just continues)
                m = m[:rng.randint(1, len(m))]
            elif r < 0.8:                                      # byte flips
                for _ in range(rng.choice([1, 1, 2, 5])):
                    m[rng.randrange(len(m))] ^= 1 << rng.randrange(8)
            elif r < 0.9:
                m = bytearray(rng.randint(0, 255) for _ in range(rng.randint(1, 64)))
            else:                                              # header length field
                L = rng.choice([0, 1, 7, 8, len(m) - 1, len(m) + 1, rng.randint(0, 200)])
                m[2] = (L >> 8) & 0xff; m[3] = L & 0xff
            total = 400
            cuts = sorted(rng.randint(1, total) for _ in range(rng.choice([0, 0, 1, 2, 4])))
            c = self._mk(rng, side, bytes(m), npre=rng.randint(0, 2), npost=rng.randint(0, 2), cuts=cuts)
            if rng.random() < 0.3: c["idle"] = True             # idle periods (select time-outs) between the reads
            if rng.random() < 0.3:                              # all three connections readable in the same select rounds
                c["round"] = rng.sample([0, 1, 2], 3)
                if rng.random() < 0.4: c["sibrx"] = {"k": rng.choice([1, 2]), "at": rng.randint(0, 1), "kind": rng.choice(["eof", "reset", "pipe"])}
            if "sibrx" not in c and rng.random() < 0.4:       # siblings' streams cut anywhere: half messages held across the offender's reads
                c["sibcuts"] = [sorted(rng.randint(1, 120) for _ in range(rng.choice([1, 2, 4]))) for _ in range(2)]
            yield c

    # ------------------------------------------------------------------ implementation
    def impl(self, case):
        if self.spins >= 3:
            return {"skipped": "spin budget exhausted earlier in this run"}
        if case.get("live"): return self._impl_live(case)
        return self._impl_ctl(case) if case["side"] == "ctl" else self._impl_sw(case)

    def _recorders(self, table, delivered, objs):
        last = [None]
        def wrap(u):
            if u is None: return None
            def w(raw, offset=0):
                key = bytes(raw[offset:]).hex()
                try:
                    r = u(raw, offset)
                except Exception:
                    table[key] = {"k": key, "r": "raise"}; raise
                table[key] = {"k": key, "r": "ok", "n": r[0] - offset}
                last[0] = (bytes(raw[offset:r[0]]), r[1], u)
                return r
            return w
        def deliver(con, msg):
            win, obj, u = last[0]
            delivered.append(win.hex()); objs.append((win, canon_obj(obj), u))
        return wrap, deliver

    def _sib_chunks(self, case):
        """what each sibling's peer writes per read: one message per read, or (`sibcuts`) its stream cut at arbitrary positions,
        so that a sibling holds HALF a message while the offender misbehaves"""
        msgs = [[bytes.fromhex(x) for x in s] for s in case["sib"]]
        sc = case.get("sibcuts")
        if not sc or case.get("sibrx"): return msgs
        return [segment(b"".join(m), sc[k]) for k, m in enumerate(msgs)]

    def _plan(self, case):
        stream = b"".join(bytes.fromhex(x) for x in case["pre"]) + bytes.fromhex(case["bad"]) + b"".join(bytes.fromhex(x) for x in case["post"])
        return stream, segment(stream, case["cuts"])

    def _impl_ctl(self, case):
        """three real Connections served by the REAL OpenFlow_01_Task.run loop (a generator: it yields a Select whose
        first argument is the very list of sockets it serves; we append our connections to it and answer each Select)"""
        of_01 = self.of_01
        core = poxenv.boot()
        stream, chunks = self._plan(case)
        table, delivered, objs = {}, [], []
        wrap, deliver = self._recorders(table, delivered, objs)
        socks = [RSock() for _ in range(3)]
        cons = [of_01.Connection(s) for s in socks]
        cons[0].unpackers = [wrap(u) for u in cons[0].unpackers]
        disc = set(case.get("disc", []))
        hraise = set(case.get("hraise", []))
        def deliver_d(con, msg):
            deliver(con, msg)
            if delivered[-1] in disc: con.disconnect("handler gave up", defer_event=True)
            if delivered[-1] in hraise: raise RuntimeError("scripted handler failure")
        cons[0].handlers = [deliver_d] * 256
        sib_del = [[], []]
        for k in (1, 2):
            cons[k].handlers = [(lambda c, m, k=k: sib_del[k - 1].append(bytes(m.pack()).hex()))] * 256
        raised, gaveup = [False] * 3, [False] * 3
        for i, c in enumerate(cons):                      # remember whether read() returned False or raised
            def rd(c=c, i=i, real=c.read):
                try:
                    r = real()
                except BaseException:
                    raised[i] = True; raise
                if r is False: gaveup[i] = True
                return r
            c.read = rd
        task = of_01.OpenFlow_01_Task(port=0, address="127.0.0.1")
        g = task.run()
        alive, spin = [True], [False]
        try:
            sel = next(g)
            served = sel._args[0]
            served.extend(cons)
        except StopIteration:
            alive[0] = False; served = []
        def status(i):
            if cons[i] in served: return "alive"
            return "dead" if raised[i] else "closed"
        def feed(i, data):
            if not alive[0] or cons[i] not in served: return False
            if case.get("idle"):
                # select times out with nothing to report (an idle period): the loop must simply go round again
                try: g.send(([], [], []))
                except StopIteration: alive[0] = False; return False
            socks[i].chunks.append(data)
            try:
                with cpu_budget(4.0):
                    g.send(([cons[i]], [], []))
            except StopIteration:
                alive[0] = False
            except Spin:
                spin[0] = True; alive[0] = False
            return True
        def feed_round(items):
            # ONE select round in which several connections are readable, served in the given order
            live = [(i, d) for i, d in items if alive[0] and cons[i] in served]
            for i, d in live: socks[i].chunks.append(d)
            if not live: return set()
            for _ in range(8):
                # select is level-triggered: a connection whose data was not read in this round (the loop abandons the rest of
                # a round when one read raises) is reported readable again in the next one
                rl = [cons[i] for i, _ in live if cons[i] in served and socks[i].chunks]
                if not rl or not alive[0]: break
                try:
                    with cpu_budget(4.0):
                        g.send((rl, [], []))
                except StopIteration:
                    alive[0] = False
                except Spin:
                    spin[0] = True; alive[0] = False
            return set(i for i, _ in live)
        counts = []
        sib_msgs = self._sib_chunks(case)
        rx, snap = case.get("rx"), {}
        def inject():
            # the peer closes / resets the connection: recv returns b"" or raises
            snap.update(status_pre=("spin" if spin[0] else status(0)), buf_pre=bytes(cons[0].buf).hex())
            feed(0, b"" if rx["kind"] == "eof" else RX_ERRNO[rx["kind"]])
            snap["rx_status"] = "spin" if spin[0] else status(0)
        order, sibrx = case.get("round"), case.get("sibrx")
        if order:
            for n in range(max([len(chunks)] + [len(x) for x in sib_msgs])):
                items = []
                for i in order:
                    if i == 0:
                        if n < len(chunks): items.append((0, chunks[n]))
                    elif sibrx and sibrx["k"] == i and n == sibrx["at"]:
                        items.append((i, b"" if sibrx["kind"] == "eof" else RX_ERRNO[sibrx["kind"]]))
                    elif n < len(sib_msgs[i - 1]) and not (sibrx and sibrx["k"] == i and n > sibrx["at"]):
                        items.append((i, sib_msgs[i - 1][n]))
                if 0 in feed_round(items): counts.append(len(delivered))
        else:
            for n, ch in enumerate(chunks):
                if rx and n == rx["after"]: inject()
                if feed(0, ch): counts.append(len(delivered))
                for k in (1, 2):
                    if n < len(sib_msgs[k - 1]): feed(k, sib_msgs[k - 1][n])
            if rx and rx["after"] >= len(chunks): inject()
            for k in (1, 2):
                for m in sib_msgs[k - 1][len(chunks):]: feed(k, m)
        st0 = "spin" if spin[0] else status(0)
        sib_status = [status(1), status(2)]
        if alive[0]:                                       # let the task leave its loop so that its listening socket is released
            core.running = False
            try: g.send(([], [], []))
            except StopIteration: pass
            except BaseException: pass
            finally: core.running = True
        if spin[0]: self.spins += 1
        return {"delivered": delivered, "counts": counts, "buf": bytes(cons[0].buf).hex() if st0 == "alive" else None, "status": st0,
                "sib_status": sib_status, "sib_delivered": sib_del, "loop_alive": alive[0] or spin[0], "table": list(table.values()),
                "splice": self._splice(objs), "chunks": [c.hex() for c in chunks], "replies": len(socks[0].sent),
                "gaveup_served": [i for i in range(3) if (gaveup[i] or raised[i]) and cons[i] in served], **snap}

    def _impl_sw(self, case):
        iow = self.iow
        stream, chunks = self._plan(case)
        table, delivered, objs = {}, [], []
        wrap, deliver = self._recorders(table, delivered, objs)
        loop = iow.RecocoIOLoop()
        socks = [RSock() for _ in range(3)]
        workers = [loop.new_worker(s) for s in socks]
        ofcs = [self.OFConnection(w) for w in workers]
        ofcs[0].unpackers = [wrap(u) for u in ofcs[0].unpackers]
        hraise = set(case.get("hraise", []))
        def deliver_h(con, msg):
            deliver(con, msg)
            if delivered[-1] in hraise: raise RuntimeError("scripted handler failure")
        ofcs[0].set_message_handler(deliver_h)
        skips = []                                        # (reason, xid of the offending message) per skipped/refused message
        real_eh = ofcs[0]._error_handler
        def eh(reason, info):
            head = bytes(workers[0].receive_buf[:8])
            skips.append([int(reason), int.from_bytes(head[4:8], "big") if len(head) >= 8 else 0])
            if int(reason) == 2:                          # no decoder for this type: tell the model (no decoder call to record)
                k = bytes(workers[0].receive_buf).hex(); table[k] = {"k": k, "r": "none"}
            return real_eh(reason, info)
        ofcs[0]._error_handler = eh
        sib_del = [[], []]
        for k in (1, 2):
            ofcs[k].set_message_handler(lambda c, m, k=k: sib_del[k - 1].append(bytes(m.pack()).hex()))
        g = loop.run()
        alive = [True]
        state = {"spin": False}
        def iteration(rl):
            if not alive[0]: return
            try:
                with cpu_budget(4.0):
                    g.send((rl, [], []))
            except StopIteration:
                alive[0] = False
            except Spin:
                state["spin"] = True; alive[0] = False
        try:
            next(g)
        except StopIteration:
            alive[0] = False
        counts = []
        sib_msgs = self._sib_chunks(case)
        shut_at = [None]                                   # bytes written to connection 0 when it was first seen shut down
        def is_shut(i): return workers[i] not in loop._workers or workers[i].closed or workers[i]._shutdown_send
        def feed(i, data):
            # OFConnection.close() = IOWorker.shutdown(send): the connection stops processing (the offending bytes stay at
            # the head of its buffer) and its send side is shut down once flushed — but the worker stays in the loop and
            # whatever the peer still sends is still read: the loop must survive that too (no spinning on the same bytes)
            if workers[i] not in loop._workers or workers[i].closed: return False
            if case.get("idle"): iteration([])               # an idle period: select times out with nothing to report
            socks[i].chunks.append(data); iteration([workers[i]])
            if i == 0 and shut_at[0] is None and is_shut(0): shut_at[0] = len(socks[0].sent) + len(workers[0].send_buf)
            return True
        def feed_round(items):
            live = [(i, d) for i, d in items if workers[i] in loop._workers and not workers[i].closed]
            for i, d in live: socks[i].chunks.append(d)
            if not live: return set()
            for _ in range(8):                           # level-triggered select (see the controller side)
                rl = [workers[i] for i, _ in live if workers[i] in loop._workers and not workers[i].closed and socks[i].chunks]
                if not rl: break
                iteration(rl)
            if shut_at[0] is None and is_shut(0): shut_at[0] = len(socks[0].sent) + len(workers[0].send_buf)
            return set(i for i, _ in live)
        rx, snap = case.get("rx"), {}
        def st_now():
            return "spin" if state["spin"] else ("closed" if (workers[0] not in loop._workers or workers[0].closed or workers[0]._shutdown_send) else "alive")
        def inject():
            snap.update(status_pre=st_now(), buf_pre=bytes(workers[0].receive_buf).hex())
            if rx["kind"] == "exc":                      # select reports an exceptional condition on the socket
                try: g.send(([], [], [workers[0]]))
                except StopIteration: alive[0] = False
            else:
                feed(0, b"" if rx["kind"] == "eof" else RX_ERRNO[rx["kind"]])
            snap["rx_status"] = st_now()
        order, sibrx = case.get("round"), case.get("sibrx")
        del_at_shut = [None]                               # messages delivered when connection 0 was first seen shut down
        def note_shut():
            if del_at_shut[0] is None and is_shut(0): del_at_shut[0] = len(delivered)
        if order:
            for n in range(max([len(chunks)] + [len(x) for x in sib_msgs])):
                items = []
                for i in order:
                    if i == 0:
                        if n < len(chunks): items.append((0, chunks[n]))
                    elif sibrx and sibrx["k"] == i and n == sibrx["at"]:
                        items.append((i, b"" if sibrx["kind"] == "eof" else RX_ERRNO[sibrx["kind"]]))
                    elif n < len(sib_msgs[i - 1]) and not (sibrx and sibrx["k"] == i and n > sibrx["at"]):
                        items.append((i, sib_msgs[i - 1][n]))
                was_shut = is_shut(0)
                if 0 in feed_round(items) and not was_shut: counts.append(len(delivered))
                note_shut()
        else:
            for n, ch in enumerate(chunks):
                if rx and n == rx["after"]: inject()
                was_shut = is_shut(0)
                if feed(0, ch) and not was_shut: counts.append(len(delivered))     # the model stops at the shutdown; later chunks only test survival
                note_shut()
                for k in (1, 2):
                    if n < len(sib_msgs[k - 1]): feed(k, sib_msgs[k - 1][n])
            if rx and rx["after"] >= len(chunks): inject()
            for k in (1, 2):
                for m in sib_msgs[k - 1][len(chunks):]: feed(k, m)
        note_shut()
        if state["spin"]: self.spins += 1
        st = "spin" if state["spin"] else ("closed" if (workers[0].closed or workers[0]._shutdown_send) else "alive")
        errs, sent, p = [], socks[0].sent + bytes(workers[0].send_buf), 0
        if shut_at[0] is not None: sent = sent[:shut_at[0]]     # replies up to the shutdown (a shut connection that is sent more data repeats its last word)
        while p + 12 <= len(sent):                        # error replies the offender was sent: (type, code, xid)
            ln = (sent[p + 2] << 8) | sent[p + 3]
            if ln < 8: break
            if sent[p + 1] == 1:
                errs.append([(sent[p + 8] << 8) | sent[p + 9], (sent[p + 10] << 8) | sent[p + 11], int.from_bytes(sent[p + 4:p + 8], "big"), bytes(sent[p + 12:p + ln]).hex()])
            p += ln
        return {"delivered": delivered, "counts": counts, "buf": bytes(workers[0].receive_buf).hex() if st == "alive" else None, "status": st,
                "sib_status": ["closed" if (workers[k].closed or workers[k]._shutdown_send) else "alive" for k in (1, 2)], "sib_delivered": sib_del, "loop_alive": alive[0],
                "table": list(table.values()), "splice": self._splice(objs), "chunks": [c.hex() for c in chunks], "replies": len(socks[0].sent),
                "skips": skips, "errors": errs, "after_shut": (len(delivered) - del_at_shut[0]) if del_at_shut[0] is not None else 0, **snap}

    def _splice(self, objs):
        """does any delivered object depend on bytes outside its declared-length window?"""
        for win, dump, u in objs:
            for suffix in (b"", b"\x00" * 16, b"\xff" * 16, b"\x01\x0e\x00\x48" + b"\x5a" * 12):
                try:
                    off, o = u(win + suffix, 0)
                    d = canon_obj(o)
                except Exception as e:
                    return "window %s decodes inside the stream but raises %s when followed by %s" % (win.hex()[:24], type(e).__name__, suffix.hex()[:8])
                if off != len(win) or d != dump:
                    return "window %s decodes differently when followed by other bytes" % win.hex()[:24]
        return None

    # ------------------------------------------------------------------ model
    def model_request(self, case):
        return None          # needs the observed decoder table: built in model_request2

    def model_request2(self, case, obs):
        if "skipped" in obs or obs["status"] == "spin" or not obs["loop_alive"]: return None
        if case.get("live"):
            return {"side": "ctl", "n": case["live"]["n"], "live": self._live_abstract(case["live"])}
        return {"side": case["side"], "chunks": obs["chunks"][:len(obs["counts"])], "table": obs["table"], "disc": case.get("disc", [])}

    def impl_view(self, case, obs):
        if case.get("live"): return self._live_view(case, obs)
        st, buf = obs["status"], obs["buf"]
        if obs.get("rx_status") == "closed" and obs.get("status_pre") == "alive":
            st, buf = "alive", obs["buf_pre"]          # the model is asked about the chunks read before the peer went away
        v = {"delivered": obs["delivered"], "counts": obs["counts"], "status": st}
        if st == "alive": v["buf"] = buf
        if case["side"] == "sw": v["errors"] = obs["errors"]          # every error reply, in order: [type, code, xid, data]
        return v

    def model_obs(self, case, resp):
        if "error" in resp: return resp
        if case.get("live"): return [{"nexus": per, "con": per} for per in resp["events"]]
        v = {"delivered": resp["delivered"], "counts": resp["counts"], "status": resp["status"]}
        if resp["status"] == "alive": v["buf"] = resp["buf"]
        if case["side"] == "sw": v["errors"] = resp["errors"]
        return v

    # ------------------------------------------------------------------ the property on the implementation
    def oracle(self, case, obs):
        if "skipped" in obs: return None
        if case.get("live"): return self._live_oracle(case, obs)
        side = case["side"]
        if obs["status"] == "spin": return side + ": processing does not terminate (CPU budget exceeded)"
        if not obs["loop_alive"]: return side + ": the I/O loop serving all connections died"
        if obs["status"] == "dead" and side == "sw": return "sw: exception escaped the read path"
        sibrx = case.get("sibrx")
        for k in (0, 1):
            if sibrx and sibrx["k"] == k + 1:
                # this sibling's peer went away at step `at`: IT is closed and no longer served, with everything before delivered
                want = "alive" if (side == "sw" and sibrx["kind"] == "enoent") else "closed"
                got = "closed" if obs["sib_status"][k] in ("closed", "dead") else obs["sib_status"][k]
                if got != want: return side + ": after %s on a sibling's socket that connection is %s, expected %s" % (sibrx["kind"], obs["sib_status"][k], want)
                if obs["sib_delivered"][k] != case["sib"][k][:sibrx["at"]]: return side + ": messages of the sibling whose peer went away changed or lost"
                continue
            if obs["sib_status"][k] != "alive": return side + ": sibling connection %s" % obs["sib_status"][k]
            if obs["sib_delivered"][k] != case["sib"][k]: return side + ": sibling connection's messages changed or lost"
        if obs.get("gaveup_served"):
            return side + ": a connection whose read gave up or raised is neither closed nor removed from the loop (connection %d)" % obs["gaveup_served"][0]
        if obs.get("after_shut"):
            return side + ": %d message(s) were processed on a connection after it had been closed for malformed input" % obs["after_shut"]
        if case.get("rx") and "rx_status" in obs:
            # end of stream / a socket error on ONE connection: that connection is closed (not crashed), the loop and the
            # siblings carry on (checked above); ENOENT on the switch side is the documented "SSL does this sometimes" no-op
            want = "alive" if (side == "sw" and case["rx"]["kind"] == "enoent" and obs["status_pre"] == "alive") else "closed"
            if obs["status_pre"] == "alive" and obs["rx_status"] != want:
                return side + ": after %s on the socket the connection is %s, expected %s" % (case["rx"]["kind"], obs["rx_status"], want)
        pre = case["pre"]
        if case.get("disc"):
            seq = case["pre"] + [case["bad"]] + case["post"]
            k = seq.index(case["disc"][0])
            if obs["delivered"] != seq[:k + 1]: return "ctl: %d messages dispatched, expected exactly the %d up to the one whose handler disconnected" % (len(obs["delivered"]), k + 1)
            if obs["status"] == "alive" and len(obs["delivered"]) < len(seq) and obs["buf"] == "": return "ctl: input after the disconnect was consumed"
            return None
        if obs["delivered"][:len(pre)] != pre and not case.get("rx"): return side + ": valid messages before the malformed bytes were not delivered"
        if obs["splice"]: return side + ": " + obs["splice"]
        if side == "sw":
            # "either the bytes are answered with an error and skipped or that one connection is closed":
            # every message the switch skipped (no decoder for its type: reason 2; undecodable / wrong length: reason 3)
            # must have been answered with OFPET_BAD_REQUEST and the matching code, carrying the message's xid
            want = [[1, {2: 1, 3: 6}[r], x] for r, x in obs.get("skips", []) if r in (2, 3)]
            got = [e[:3] for e in obs.get("errors", []) if e[0] == 1 and e[1] in (1, 6)]
            # reason 4 = the message handler raised AFTER the message was decoded and consumed; only a scripted handler does
            silent = [r for r, x in obs.get("skips", []) if r not in (1, 2, 3) and not (r == 4 and case.get("hraise"))]
            if silent and obs["status"] == "alive": return "sw: message skipped without an error reply (handler reason %d)" % silent[0]
            if want != got: return "sw: skipped messages %s but error replies %s" % (want[:3], got[:3])
        return None

    def finding_key(self, case, obs, failure):
        import re
        return re.sub(r"window [0-9a-f]+", "window", failure)[:110]

    def shrink_candidates(self, case):
        if case.get("live"):
            import copy
            for i in range(len(case["live"]["steps"])):
                c = copy.deepcopy(case); del c["live"]["steps"][i]; yield c

    def nontrivial(self, case, obs):
        if case.get("live"): return any(c and not c["served"] for c in obs.get("run", {}).get("cons", []))
        return any(e["r"] != "ok" for e in obs.get("table", [])) or obs.get("status") != "alive" or len(obs.get("delivered", [])) != len(case["pre"]) + 1 + len(case["post"])


CHECK = C10
