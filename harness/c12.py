"""C12 — datapath applies actions and port rules as the specification prescribes (DESIGN §5 C12).

Implementation side: a real SoftwareSwitch behind a real OFConnection/IOWorker (harness/swnet.py); every controller message
goes in as bytes (port_mod, set_config, flow_mod, packet_out, stats_request), data-plane frames through rx_packet.  Observed:
every DpPacketOut (port, frame serialised at event time) and every message the switch sends, in one interleaved log per
operation, the exception class if the handler raised, and the port-stats reply at the end.
Model side: lean/Drivers/C12.lean (Model/Actions.lean + the declarative Spec/ActionsSpec.lean).
Oracle: an independent re-statement of the property on raw bytes (below: `spec_rewrite`, `expand`, counter sums)."""
import struct, copy, re, os, json
import common, poxenv
from common import Check

P_MAX, P_IN_PORT, P_TABLE, P_NORMAL, P_FLOOD, P_ALL, P_CONTROLLER, P_LOCAL, P_NONE = 0xff00, 0xfff8, 0xfff9, 0xfffa, 0xfffb, 0xfffc, 0xfffd, 0xfffe, 0xffff
PC_PORT_DOWN, PC_NO_STP, PC_NO_RECV, PC_NO_RECV_STP, PC_NO_FLOOD, PC_NO_FWD, PC_NO_PACKET_IN = 1, 2, 4, 8, 16, 32, 64
HANDLED = PC_PORT_DOWN | PC_NO_RECV | PC_NO_RECV_STP | PC_NO_FLOOD | PC_NO_FWD | PC_NO_PACKET_IN
STP_MAC = bytes([1, 0x80, 0xc2, 0, 0, 0])
NPORTS = 3
REWRITES = ("set_vlan_vid", "set_vlan_pcp", "strip_vlan", "set_dl_src", "set_dl_dst", "set_nw_src", "set_nw_dst", "set_nw_tos",
            "set_tp_src", "set_tp_dst")
UDP_SPECIAL = (53, 67, 68, 520, 4789, 5353)

# ----------------------------------------------------------------------------- independent byte-level helpers

def rfc1071(data):
    """RFC 1071: one's-complement sum of big-endian 16-bit words (odd byte padded right), carries folded, complemented"""
    if len(data) % 2: data = data + b"\0"
    s = 0
    for i in range(0, len(data), 2):
        s += (data[i] << 8) | data[i + 1]
    while s >> 16:
        s = (s & 0xffff) + (s >> 16)
    return (~s) & 0xffff

def raw_sums(data):
    """unfolded sums of the 16-bit words of `data` (odd byte padded right), read big-endian and read little-endian: the two
    integers a checksum routine may be folding, depending on the word order it adds in"""
    if len(data) % 2: data = data + b"\0"
    be = sum((data[i] << 8) | data[i + 1] for i in range(0, len(data), 2))
    le = sum(data[i] | (data[i + 1] << 8) for i in range(0, len(data), 2))
    return be, le

# boundary conditions on an unfolded one's-complement sum S (fold1 = (S >> 16) + (S & 0xffff) is what one folding step leaves)
SUM_TARGETS = (("double-carry", lambda S: ((S >> 16) + (S & 0xffff)) >= 0x10000),           # the first fold itself overflows: a second fold is needed
               ("fold1=0x10000", lambda S: ((S >> 16) + (S & 0xffff)) == 0x10000),         # ... by exactly one
               ("fold1=0xffff", lambda S: ((S >> 16) + (S & 0xffff)) == 0xffff),           # checksum 0x0000 (UDP sends 0xffff)
               ("fold1=0xfffe", lambda S: ((S >> 16) + (S & 0xffff)) == 0xfffe),           # checksum 0x0001
               ("low16=0", lambda S: S >= 0x10000 and (S & 0xffff) == 0),                  # only carries left
               ("low16=0xffff", lambda S: (S & 0xffff) == 0xffff))

def steer(block_with_zero_field, avoid=()):
    """values v of a 16-bit big-endian field (zero in the given checksummed block, at an even offset) that drive the block's sum to
    each boundary condition, for both word orders: [(v, 'be|le:condition')]"""
    be0, le0 = raw_sums(block_with_zero_field)
    out, seen = [], set()
    for order, s0 in (("be", be0), ("le", le0)):
        for name, cond in SUM_TARGETS:
            for v in range(1, 65536):
                w = v if order == "be" else ((v & 0xff) << 8) | (v >> 8)
                if v not in avoid and cond(s0 + w):
                    if v not in seen: seen.add(v); out.append((v, order + ":" + name))
                    break
    return out

def be16(b, i): return (b[i] << 8) | b[i + 1]
def put16(b, i, v): return b[:i] + bytes([(v >> 8) & 0xff, v & 0xff]) + b[i + 2:]

def l4sum(src, dst, proto, seg):
    return rfc1071(src + dst + bytes([0, proto]) + struct.pack("!H", len(seg)) + seg)

def ip_packet(src, dst, proto, payload, tos=0, ident=0, flags=0, frag=0, ttl=64, options=b""):
    hl = 5 + len(options) // 4
    h = struct.pack("!BBHHHBBH4s4s", 0x40 | hl, tos, hl * 4 + len(payload), ident, (flags << 13) | frag, ttl, proto, 0, src, dst) + options
    return put16(h, 10, rfc1071(h)) + payload

def tcp_seg(src, dst, sport, dport, seq, ack, res, flags, win, urg, opts, payload):
    h = struct.pack("!HHIIBBHHH", sport, dport, seq, ack, ((5 + len(opts) // 4) << 4) | res, flags, win, 0, urg) + opts
    return put16(h + payload, 16, l4sum(src, dst, 6, h + payload))

def udp_seg(src, dst, sport, dport, payload):
    h = struct.pack("!HHHH", sport, dport, 8 + len(payload), 0)
    c = l4sum(src, dst, 17, h + payload)
    return put16(h + payload, 6, c or 0xffff)

def icmp_msg(typ, code, rest):
    m = bytes([typ, code, 0, 0]) + rest
    return put16(m, 2, rfc1071(m))

def eth_frame(dst, src, ethertype, payload, tag=None):
    if tag is None: return dst + src + struct.pack("!H", ethertype) + payload
    return dst + src + struct.pack("!HHH", 0x8100, tag, ethertype) + payload

class Loc:
    """where the headers the actions can touch sit in a frame (independent of pox.lib.packet)"""
    def __init__(self, b):
        self.tagged = False; self.l3 = 14; self.ip = False; self.l4 = None; self.proto = None
        self.type = be16(b, 12)
        if self.type == 0x8100 and len(b) >= 18:
            self.tagged = True; self.type = be16(b, 16); self.l3 = 18
        o = self.l3
        if self.type == 0x0800 and len(b) - o >= 20:
            hl = b[o] & 15; tot = be16(b, o + 2)
            if b[o] >> 4 == 4 and hl >= 5 and tot >= 20 and hl * 4 <= tot and hl * 4 <= len(b) - o:
                self.ip = True; self.hl = hl; self.proto = b[o + 9]
                self.frag = be16(b, o + 6) & 0x1fff; self.mf = (be16(b, o + 6) >> 13) & 1
                self.end = o + min(tot, len(b) - o)
                l4 = o + hl * 4
                if self.frag == 0 and not self.mf:
                    if self.proto == 17 and self.end - l4 >= 8: self.l4 = l4
                    if self.proto == 6 and self.end - l4 >= 20 and 20 <= (b[l4 + 12] >> 4) * 4 <= self.end - l4: self.l4 = l4

def refresh(b):
    """lengths are left alone (rewrites never change them); IPv4 header checksum and TCP/UDP checksum recomputed"""
    L = Loc(b)
    if not L.ip: return b
    o = L.l3
    if L.l4 is not None:
        seg = b[L.l4:L.end]; src, dst = b[o + 12:o + 16], b[o + 16:o + 20]
        if L.proto == 6:
            seg = put16(seg, 16, 0); seg = put16(seg, 16, l4sum(src, dst, 6, seg))
        else:
            seg = put16(seg, 6, 0); seg = put16(seg, 6, l4sum(src, dst, 17, seg) or 0xffff)
        b = b[:L.l4] + seg + b[L.end:]
    h = put16(b[o:o + L.hl * 4], 10, 0)
    return b[:o] + put16(h, 10, rfc1071(h)) + b[o + L.hl * 4:]

def spec_rewrite(a, b):
    """OpenFlow 1.0 header-rewrite action `a` applied to the wire bytes `b` (checksums kept valid)"""
    k = a["a"]; L = Loc(b)
    if k == "set_vlan_vid" or k == "set_vlan_pcp":
        if not L.tagged: b = b[:12] + struct.pack("!HH", 0x8100, 0) + b[12:]
        tci = be16(b, 14)
        tci = (tci & 0xf000) | (a["v"] & 0x0fff) if k == "set_vlan_vid" else (tci & 0x1fff) | ((a["v"] & 7) << 13)
        return put16(b, 14, tci)
    if k == "strip_vlan":
        return b[:12] + b[16:] if L.tagged else b
    if k == "set_dl_src": return b[:6] + bytes.fromhex(a["v"]) + b[12:]
    if k == "set_dl_dst": return bytes.fromhex(a["v"]) + b[6:]
    if k in ("set_nw_src", "set_nw_dst", "set_nw_tos"):
        if not L.ip: return b
        o = L.l3
        if k == "set_nw_src": b = b[:o + 12] + struct.pack("!I", a["v"]) + b[o + 16:]
        elif k == "set_nw_dst": b = b[:o + 16] + struct.pack("!I", a["v"]) + b[o + 20:]
        else: b = b[:o + 1] + bytes([(a["v"] & 0xfc) | (b[o + 1] & 0x03)]) + b[o + 2:]      # OpenFlow 1.0: the 6-bit DSCP field; ECN stays
        return refresh(b)
    if k in ("set_tp_src", "set_tp_dst"):
        if not L.ip or L.l4 is None: return b
        return refresh(put16(b, L.l4 + (0 if k == "set_tp_src" else 2), a["v"]))
    return b

def port_up(cfg, no):
    for n, c, s in cfg:
        if n == no: return not (c & PC_NO_FWD) and not (c & PC_PORT_DOWN) and not (s & 1)
    return False

def expand(cfg, port, ingress):
    """physical ports an output to `port` reaches (cfg = [(no, config, state)] in port order)"""
    if port < P_MAX: return [port] if port != ingress and port_up(cfg, port) else []
    if port == P_IN_PORT: return [ingress] if port_up(cfg, ingress) else []
    if port == P_FLOOD: return [n for n, c, s in cfg if n != ingress and not (c & PC_NO_FLOOD) and port_up(cfg, n)]
    if port == P_ALL: return [n for n, c, s in cfg if n != ingress and port_up(cfg, n)]
    return []

def kinds(acts): return [a["a"] for a in acts]

# ----------------------------------------------------------------------------- the check

class C12(Check):
    id = "C12"
    prop_module = "PoxModel.Properties.C12"
    lean_targets = ["drv_c12"]
    driver = "drv_c12"
    theorems = ["Pox.C12.port_guards", "Pox.C12.flood_excludes_ingress", "Pox.C12.counters_exact", "Pox.C12.actions_spec",
                "Pox.C12.checksums_ok", "Pox.C12.rx_spec", "Pox.C12.rx_obj_spec", "Pox.C12.rx_accepts_exact", "Pox.C12.outputs_only", "Pox.C12.actions_total", "Pox.C12.buffers_spec", "Pox.C12.port_mod_spec",
                "Pox.C12.enqueue_d7_defect", "Pox.C12.table_recount_d8_defect", "Pox.C12.vlan_pcp_c121_defect", "Pox.C12.strip_vlan_c122_defect", "Pox.C12.nw_tos_c126_defect"]
    _SW = "pox/datapaths/switch.py"
    anchors = [("pox/datapaths/switch.py", "SoftwareSwitchBase." + n) for n in (
        "_rx_port_mod", "rx_packet", "_lookup_packet", "_set_port_config_bit", "_output_packet", "_process_actions_for_packet",
        "_action_output", "_action_set_vlan_vid", "_action_set_vlan_pcp", "_action_strip_vlan", "_action_set_dl_src", "_action_set_dl_dst",
        "_action_set_nw_src", "_action_set_nw_dst", "_action_set_nw_tos", "_action_set_tp_src", "_action_set_tp_dst", "_action_enqueue")]
    design_ref = "DESIGN.md §5 C12"
    technique = ("Lean 4 proof (induction over action lists and operation histories of an executable model of the switch data path, "
                 "refinement to a declarative specification built on the C14 header/checksum theorems) + differential correspondence "
                 "of the compiled model against the real SoftwareSwitch over real OpenFlow bytes + independent byte-level oracle")
    level_text = ("Theorems over all well-formed frames of the modelled chain type (Ethernet, 802.1Q, ARP, IPv4 with options, UDP, TCP with options, "
                  "ICMP), all action lists, all port configurations: actions_spec (emitted frames = declarative spec byte for byte, i-th output sees exactly "
                  "the rewrites before it), checksums_ok (every emitted IPv4/UDP/TCP/ICMP header has the RFC 1071 checksum and length fields of C14), "
                  "and — for all frames, without well-formedness — port_guards, flood_excludes_ingress, counters_exact over all operation histories, "
                  "port_mod_spec. Each run re-checks the hand-written model against the real switch.")
    level_note = ("Trusted: Lean kernel, standard axioms, hand-written Model/Actions.lean + the C14 packet models, harness/c12.py + swnet.py. "
                  "Flow matching is reduced to in_port/wildcard rules (C03), the buffer pool is assumed not to fill (C18). "
                  "The model follows the code variant detected in the tree (repairs D7, D8, C12-1, C12-2, C12-6). The Lean specification's header rewrites "
                  "(Spec.rewrite1: atL3/ifIpv4/ifL4, 6-bit DSCP for set_nw_tos) are transcribed from OpenFlow 1.0 §3.3 with their own traversal and share no "
                  "helper with the model; they do share the C14 packet chain type and, for the set-VLAN actions, the reading 'an untagged frame gets a zero tag first'. "
                  "Frames that are not well-formed are covered by actions_total / outputs_only (no exception but pack(), emitted bytes = pack() of the handler-rewritten "
                  "tree), not by actions_spec; that pack() cannot fail on a parsed tree is C15's subject and here only tested.")
    trusted_base = ["model Model/Actions.lean hand-written from switch.py (rx_packet, _lookup_packet, _output_packet, _process_actions_for_packet, _action_*, "
                    "_rx_port_mod, _set_port_config_bit); tied by this correspondence run",
                    "packet models of C14 (Model/PacketHdr.lean, Checksum.lean)", "harness/swnet.py byte-level switch node"]
    assumptions = ["single-threaded datapath", "packet buffers are only counted (max_buffers minus packet-ins sent; nothing is released during a case — ids and release are C18)",
                   "flow entries match on in_port or on everything; entries never output to OFPP_TABLE (OpenFlow 1.0 restricts TABLE to packet-out)",
                   "frames are at least 14 bytes and stay inside the classes modelled by C14 (no LLC/IPv6/LLDP/MPLS/EAPOL, no DHCP/DNS/RIP/VXLAN UDP ports, no IGMP/GRE)",
                   "little-endian host (checksum model)"]
    rule = ("case = (3 ports, history of port_mod / link / set_config / flow_mod / packet_out(data, actions) / rx(frame, port) ops); corpus = every one of the 128 "
            "config-bit combinations on each port against FLOOD/ALL/explicit/IN_PORT outputs, every single action and every ordered pair of actions around an output "
            "on 12 frame shapes; every combination of the handled config bits and of LINK_DOWN in the port descriptions the switch starts with "
            "(constructor / add_port / re-added / joining a running switch) with traffic from the first frame; received destinations over the "
            "reserved block 01:80:c2:00:00:00..0f, its neighbours and every one-bit neighbour of the bridge group address against every "
            "NO_RECV / NO_RECV_STP combination; generator = action lists to length 6 over the 12 action types and the virtual ports, random 7-bit configs on all three ports; "
            "non-trivial = at least one frame or packet-in leaves the switch and (a rewrite precedes an output or a non-default config bit is set)")
    coverage_cases = 4000
    search_budget = {"quick": 3000, "thorough": 30000}

    # Which of the repairs D7 / D8 / C12-1 / C12-2 / C12-6 the tree under test has is read off the source: the statement that matters is
    # pattern-matched in its function (flag True = the unrepaired line, as in Model/Actions.lean `Variant`).  A shape that is neither
    # is not guessed: the repaired variant is assumed and the correspondence run reports what differs.
    VARIANT_SHAPES = {
        "d7": ("_action_enqueue", {True: "self._output_packet(packet, action.tp_port, in_port)", False: "self._output_packet(packet, action.port, in_port)"}),
        "d8": ("_output_packet", {True: "self.rx_packet(packet, in_port)", False: "self._lookup_packet(packet, in_port)"}),
        "c121": ("_action_set_vlan_pcp", {True: "packet.payload.pcp = action.vlan_pcp", False: "packet.payload.pcp = action.vlan_pcp & 7"}),
        "c126": ("_action_set_nw_tos", {True: "nw.tos = action.nw_tos", False: "nw.tos = nw.tos & 3 | action.nw_tos & 252"}),
        "c122": ("_action_strip_vlan", {True: "if isinstance(packet.payload, vlan):", False: "if isinstance(packet.payload, vlan) and packet.payload.payload is not None:"})}

    def detect_variant(self):
        import ast
        tree = ast.parse(open(os.path.join(common.REPO, self._SW)).read())
        cls = [n for n in tree.body if isinstance(n, ast.ClassDef) and n.name == "SoftwareSwitchBase"][0]
        fns = {f.name: f for f in cls.body if isinstance(f, ast.FunctionDef)}
        out, notes = {}, []
        for flag, (fn, shapes) in self.VARIANT_SHAPES.items():
            lines = set()
            if fn in fns:
                for n in ast.walk(fns[fn]):
                    if isinstance(n, ast.stmt): lines.add(ast.unparse(n).split("\n")[0].strip())
            hits = [k for k, shape in shapes.items() if shape in lines]
            if len(hits) == 1: out[flag] = hits[0]
            else:
                out[flag] = False; notes.append("%s: %s has neither known shape" % (flag, fn))
        return out, notes

    def setup(self):
        self.variant, self.variant_notes = self.detect_variant()
        un = [x.strip() for x in os.environ.get("C12_UNREPAIRED", "").split(",") if x.strip()]     # manual override
        for k in un: self.variant[k] = True
        for n in self.variant_notes: common.log("C12 variant detection: " + n)
        poxenv.boot()
        import swnet, pox.openflow.libopenflow_01 as of
        from pox.lib.addresses import EthAddr, IPAddr
        from pox.datapaths.switch import DpPacketOut
        from pox.lib.packet.ethernet import ethernet
        self.swnet, self.of, self.EthAddr, self.IPAddr, self.DpPacketOut, self.ethernet = swnet, of, EthAddr, IPAddr, DpPacketOut, ethernet
        # C13-4 (flow_mod pre-check of action types) is probed by behaviour, not by source shape: does a flow_mod whose actions include
        # a type the switch has no handler for get installed?  (True = the unrepaired behaviour: installed silently)
        if "c134" not in un:
            try:
                node = swnet.SwitchNode(dpid=1, ports=1)
                st, rep, _ = node.send(of.ofp_flow_mod(command=of.OFPFC_ADD, match=of.ofp_match(in_port=1),
                                                       actions=[of.ofp_action_vendor_generic(vendor=1, body=b"\0\0\0\0"), of.ofp_action_output(port=1)]))
                self.variant["c134"] = len(node.sw.table) > 0
            except Exception as e:
                self.variant["c134"] = True; self.variant_notes.append("c134: probe failed (%s), unrepaired behaviour assumed" % type(e).__name__)

    def extra_evidence(self):
        return {"code_variant": {k: ("unrepaired" if v else "repaired") for k, v in self.variant.items()}, "variant_notes": self.variant_notes}

    # ------------------------------------------------------------------ implementation side
    def hw(self, no):
        return bytes.fromhex("02%06x%04x" % (1, no))

    def mk_action(self, a):
        of = self.of; k = a["a"]
        if k == "output": return of.ofp_action_output(port=a["port"], max_len=a["max_len"])
        if k == "enqueue": return of.ofp_action_enqueue(port=a["port"], queue_id=a["queue"])
        if k == "set_vlan_vid": return of.ofp_action_vlan_vid(vlan_vid=a["v"])
        if k == "set_vlan_pcp": return of.ofp_action_vlan_pcp(vlan_pcp=a["v"])
        if k == "strip_vlan": return of.ofp_action_strip_vlan()
        if k == "set_dl_src": return of.ofp_action_dl_addr.set_src(self.EthAddr(bytes.fromhex(a["v"])))
        if k == "set_dl_dst": return of.ofp_action_dl_addr.set_dst(self.EthAddr(bytes.fromhex(a["v"])))
        if k == "set_nw_src": return of.ofp_action_nw_addr.set_src(self.IPAddr(struct.pack("!I", a["v"])))
        if k == "set_nw_dst": return of.ofp_action_nw_addr.set_dst(self.IPAddr(struct.pack("!I", a["v"])))
        if k == "set_nw_tos": return of.ofp_action_nw_tos(nw_tos=a["v"])
        if k == "set_tp_src": return of.ofp_action_tp_port.set_src(a["v"])
        if k == "set_tp_dst": return of.ofp_action_tp_port.set_dst(a["v"])
        if k == "vendor": return of.ofp_action_vendor_generic(vendor=a["v"], body=b"\0\0\0\0")
        raise ValueError(k)

    def portnos(self, case):
        if case.get("initports"): return [d["no"] for d in self.initports(case)]
        return case.get("portnos") or list(range(1, case.get("nports", NPORTS) + 1))

    @staticmethod
    def initports(case):
        """the port descriptions the switch is built from, in the order in which they enter it: the ones handed to the constructor
        (`ports=[...]`), then the ones handed to add_port() (via `add`; `readd`: the number was added with other bits and deleted
        again first)"""
        ps = case["initports"]
        return [d for d in ps if d.get("via", "ctor") == "ctor"] + [d for d in ps if d.get("via", "ctor") != "ctor"]

    def mk_phy(self, d, config=None, state=None):
        of = self.of
        p = of.ofp_phy_port()
        p.port_no = d["no"]; p.hw_addr = self.EthAddr(bytes.fromhex(d["hw"]) if d.get("hw") else self.hw(d["no"])); p.name = "p%d" % d["no"]
        p.config = d["config"] if config is None else config
        p.state = d["state"] if state is None else state
        p.curr = p.advertised = p.supported = p.peer = of.OFPPF_10MB_HD
        return p

    def impl(self, case):
        of = self.of
        if case.get("initports"):
            ps = self.initports(case)
            ctor = [self.mk_phy(d) for d in ps if d.get("via", "ctor") == "ctor"]
            if case.get("ports_as") == "tuple": ctor = tuple(ctor)
            node = self.swnet.SwitchNode(dpid=1, ports=ctor, max_buffers=case.get("bufs", 4096), miss_send_len=case.get("miss0", 128))
            for d in ps:
                via = d.get("via", "ctor")
                if via == "ctor": continue
                if via == "readd":                  # the same number was there before, with every handled bit the other way round
                    node.sw.add_port(self.mk_phy(d, config=(d["config"] ^ HANDLED) & 0x7f, state=d["state"] ^ 1))
                    node.sw.delete_port(d["no"])
                node.sw.add_port(self.mk_phy(d))
            node.drain()
        elif case.get("portnos"):
            node = self.swnet.SwitchNode(dpid=1, ports=0, max_buffers=case.get("bufs", 4096), miss_send_len=case.get("miss0", 128))
            for no in case["portnos"]: node.sw.add_port(node.sw.generate_port(no, name="p%d" % no))
            node.drain()
        else:
            node = self.swnet.SwitchNode(dpid=1, ports=case.get("nports", NPORTS), max_buffers=case.get("bufs", 4096), miss_send_len=case.get("miss0", 128))
        sw = node.sw
        log = []
        sw.addListener(self.DpPacketOut, lambda e: log.append({"k": "frame", "port": e.port.port_no, "data": e.packet.pack().hex()}))
        real_send = sw.send
        def send(message, connection=None):
            log.append(("msg", message.pack() if hasattr(message, "pack") else bytes(message)))     # encoded at send time
            return real_send(message, connection)
        sw.send = send
        raised = []
        inner = node.ofc.on_message_received
        def handler(con, msg):
            try: return inner(con, msg)
            except Exception as e:
                raised.append(type(e).__name__); raise
        node.ofc.on_message_received = handler
        bids = []                                      # buffer ids handed out so far, in order
        def canon_log():
            out = []
            for e in log:
                if isinstance(e, dict): out.append(e); continue
                b = e[1]; t = b[1]
                o = of._message_type_to_class[t](); o.unpack(b, 0)
                if isinstance(o, of.ofp_packet_in):
                    if o.buffer_id is not None: bids.append(o.buffer_id)
                    out.append({"k": "pin", "in_port": o.in_port, "reason": o.reason, "data": o.data.hex(), "total": o.total_len, "buffered": o.buffer_id is not None})
                elif isinstance(o, of.ofp_error): out.append({"k": "error", "type": o.type, "code": o.code})
                elif isinstance(o, of.ofp_port_status): out.append({"k": "port_status", "port": o.desc.port_no, "config": o.desc.config, "state": o.desc.state})
                elif isinstance(o, of.ofp_stats_reply) and o.type == of.OFPST_PORT:
                    body = o.body if isinstance(o.body, (list, tuple)) else [o.body]
                    out.append({"k": "stats", "ports": [{"no": x.port_no, "rx_p": x.rx_packets, "rx_b": x.rx_bytes, "tx_p": x.tx_packets, "tx_b": x.tx_bytes} for x in body]})
                elif isinstance(o, of.ofp_features_reply):
                    out.append({"k": "features", "ports": [{"no": x.port_no, "config": x.config, "state": x.state} for x in o.ports]})
                else: out.append({"k": "other", "cls": type(o).__name__})
            return out
        def cfg(): return [[n, p.config, p.state] for n, p in sw.ports.items()]
        prio = [60000]
        def mk_msg(op):
            k = op["op"]
            if k == "portmod": return of.ofp_port_mod(port_no=op["port"], hw_addr=self.EthAddr(bytes.fromhex(op["hw"])), config=op["config"], mask=op["mask"])
            if k == "setconfig": return of.ofp_set_config(flags=op["flags"], miss_send_len=op["miss"])
            if k == "flow":
                m = of.ofp_match() if op["in_port"] is None else of.ofp_match(in_port=op["in_port"])
                prio[0] -= 1
                return of.ofp_flow_mod(command=of.OFPFC_ADD, match=m, priority=prio[0], actions=[self.mk_action(a) for a in op["acts"]])
            if k == "pktout" and "buffer" in op:           # a packet the switch buffered earlier (the k-th buffer id it handed out)
                bid = bids[op["buffer"]] if op["buffer"] < len(bids) else 0x7ffffff0
                return of.ofp_packet_out(buffer_id=bid, in_port=op["in_port"], actions=[self.mk_action(a) for a in op["acts"]])
            if k == "pktout": return of.ofp_packet_out(data=bytes.fromhex(op["data"]), in_port=op["in_port"], actions=[self.mk_action(a) for a in op["acts"]])
            if k == "stats": return of.ofp_stats_request(body=of.ofp_port_stats_request(port_no=of.OFPP_NONE if op.get("port") is None else op["port"]))
            if k == "features": return of.ofp_features_request()
            raise ValueError(k)
        outs, cfgs, exc, partial = [], [], None, None
        twin = None
        if case.get("twin"):
            # HARDENING items 1, 10: a SECOND switch in the same process, same port numbers with every handled bit the other way
            # round, sees the same traffic between any two operations; what it does is nobody's business here, and nothing
            # it does may show on the switch under test
            nos = self.portnos(case); base = dict((d["no"], d) for d in case.get("initports") or [])
            twin = self.swnet.SwitchNode(dpid=2, ports=[self.mk_phy({"no": n, "config": (base.get(n, {}).get("config", PC_NO_STP) ^ HANDLED) & 0x7f,
                                                                     "state": base.get(n, {}).get("state", 0) ^ 1}) for n in nos], max_buffers=3, miss_send_len=7)
        def twin_do(op):
            try:
                if op["op"] == "rx": twin.rx(bytes.fromhex(op["data"]), op["port"])
                elif op["op"] in ("portmod", "flow", "setconfig", "stats", "features") or (op["op"] == "pktout" and "data" in op):
                    o2 = dict(op, config=~op["config"] & 0xffffffff) if op["op"] == "portmod" else op
                    twin.send(mk_msg(o2)); prio[0] += 1 if op["op"] == "flow" else 0
            except Exception: pass
        for op in case["ops"]:
            if twin is not None:
                for o2 in (op["ops"] if op["op"] == "batch" else [op]): twin_do(o2)
            del log[:]; del raised[:]
            cfgs.append(cfg())
            k = op["op"]; st = "ok"
            if k == "batch":                            # several controller messages in ONE read of the connection
                st, _, _ = node.send(b"".join(mk_msg(o).pack() for o in op["ops"]))
            elif k == "rx" and op.get("nopd"):          # the packet object only (packet_data=None): rx_bytes and a miss use packet.pack()
                try: sw.rx_packet(self.ethernet(bytes.fromhex(op["data"])), op["port"])
                except Exception as e: st = "raise:" + type(e).__name__
                node.drain()
            elif k == "rx":
                st, _, _ = node.rx(bytes.fromhex(op["data"]), op["port"])
            elif k == "link":
                p = sw.ports[op["port"]]
                p.state = (p.state | 1) if op["down"] else (p.state & ~1)
            elif k == "addport":                        # a port joins the running switch (oracle only: the model's port table is fixed)
                try: sw.add_port(self.mk_phy(op))
                except Exception as e: st = "raise:" + type(e).__name__
                node.drain()
            else:
                st, _, _ = node.send(mk_msg(op))
            if st.startswith("raise:"): raised.append(st[6:])
            elif st != "ok": raised.append(st)
            if raised:
                exc = raised[0]; partial = canon_log(); break
            outs.append(canon_log())
        ports = None
        if exc is None:
            del log[:]
            st, rep, _ = node.send(of.ofp_stats_request(body=of.ofp_port_stats_request(port_no=of.OFPP_NONE)))
            stats = {s.port_no: s for s in rep[0].body} if rep and isinstance(rep[0], of.ofp_stats_reply) else {}
            ports = [{"no": n, "config": p.config, "state": p.state, "rx_p": stats[n].rx_packets, "rx_b": stats[n].rx_bytes,
                      "tx_p": stats[n].tx_packets, "tx_b": stats[n].tx_bytes} for n, p in sw.ports.items() if n in stats]
        else:
            ports = [{"no": n, "config": p.config, "state": p.state, "rx_p": sw.port_stats[n].rx_packets, "rx_b": sw.port_stats[n].rx_bytes,
                      "tx_p": sw.port_stats[n].tx_packets, "tx_b": sw.port_stats[n].tx_bytes} for n, p in sw.ports.items()]
        return {"outs": outs, "exc": exc, "partial": partial, "ports": ports, "cfg": cfgs}

    # ------------------------------------------------------------------ model side
    def _flat(self, case):
        """the history with batches flattened, and for every top-level op how many flat ops it stands for"""
        flat, sizes = [], []
        for op in case["ops"]:
            if op["op"] == "batch": flat += op["ops"]; sizes.append(len(op["ops"]))
            else: flat.append(op); sizes.append(1)
        return flat, sizes

    def model_request(self, case):
        if case.get("oracle_only"): return None
        if case.get("initports"):
            ports = [{"no": d["no"], "hw": d.get("hw") or self.hw(d["no"]).hex(), "config": d["config"], "state": d["state"]} for d in self.initports(case)]
        else:
            ports = [{"no": i, "hw": self.hw(i).hex(), "config": PC_NO_STP, "state": 0} for i in self.portnos(case)]
        return {"var": dict(self.variant), "ports": ports, "bufs": case.get("bufs", 4096), "miss": case.get("miss0", 128), "ops": self._flat(case)[0]}

    @staticmethod
    def _by_channel(outs):
        """one op's log in canonical order: per output port the frames in their own order, then what went to the controller in its own
        order (the order in which one FLOOD / ALL expansion visits DIFFERENT ports is not constrained by the property)"""
        if outs is None: return None
        return sorted(outs, key=lambda o: (0, o["port"]) if o.get("k") == "frame" else (1, 0))

    def model_obs(self, case, resp):
        if "error" in resp: return resp
        flat, sizes = self._flat(case)
        outs, spec, i = [], [], 0
        for op, n in zip(case["ops"], sizes):
            if i + n > len(resp["outs"]): break                      # the model stopped inside / before this op
            outs.append(self._by_channel([o for part in resp["outs"][i:i + n] for o in part]))
            spec.append(self._by_channel(resp["spec"][i]) if op["op"] != "batch" else None)
            i += n
        r = {"outs": outs, "exc": resp["exc"], "ports": resp["ports"] if resp["exc"] is None else None}
        if case.get("wf"): r["spec"] = spec
        return r

    def impl_view(self, case, obs):
        outs = [self._by_channel(o) for o in obs["outs"]]
        r = {"outs": outs, "exc": obs["exc"], "ports": obs["ports"] if obs["exc"] is None else None}
        if case.get("wf"):
            r["spec"] = [o if op["op"] in ("pktout", "rx") else None for op, o in zip(case["ops"], outs)]
        return r

    # ------------------------------------------------------------------ the property on the implementation's observables
    def _table(self, rules, cfg, miss, cur, ingress, wire):
        """what the flow table does with a frame: (expected log, the frame as the matching entry's rewrites leave it)"""
        for r in rules:
            if r["in_port"] is None or r["in_port"] == ingress:
                return self._apply(r["acts"], cur, ingress, cfg, None, miss)
        for n, c, s in cfg:
            if n == ingress and c & PC_NO_PACKET_IN: return [], cur
        d = wire if wire is not None else cur
        return [{"k": "pin", "in_port": ingress, "reason": 0, "_full": d, "_limit": miss}], cur

    def _apply(self, acts, cur, ingress, cfg, rules, miss):
        """expected log of an action list and the frame after it (rules = None: inside a flow entry, TABLE is not followed).
        The frame handed to the table by output:TABLE comes back with the entry's rewrites (resubmit semantics)."""
        out = []
        for a in acts:
            k = a["a"]
            if k == "vendor":
                out.append({"k": "error", "type": 2, "code": 0}); break
            if k in ("output", "enqueue"):
                port = a["port"]
                if port == P_CONTROLLER:
                    out.append({"k": "pin", "in_port": ingress, "reason": 1, "_full": cur, "_limit": a["max_len"] if k == "output" else None})
                elif port == P_TABLE:
                    if rules is not None:
                        o, cur = self._table(rules, cfg, miss, cur, ingress, None); out += o
                else:
                    out += [{"k": "frame", "port": p, "data": cur.hex()} for p in expand(cfg, port, ingress)]
            else:
                cur = spec_rewrite(a, cur)
        return out, cur

    def _expect(self, op, cfg, st):
        """one operation against the oracle's own state `st` (flow rules, miss_send_len, flags, free buffers, buffered frames,
        expected counters) and the port table `cfg`: (expected log, port table afterwards, (where, frame, ingress) or None)"""
        k = op["op"]
        if k == "portmod":
            cur = dict((n, (c, s)) for n, c, s in cfg)
            if op["port"] not in cur: return [{"k": "error", "type": 4, "code": 0}], cfg, None
            if bytes.fromhex(op["hw"]) != bytes.fromhex(st["hw"].get(op["port"], self.hw(op["port"]).hex())): return [{"k": "error", "type": 4, "code": 1}], cfg, None
            c, s = cur[op["port"]]
            m = op["mask"] & HANDLED
            c2 = (c & ~m) | (op["config"] & m)
            s2, out = s, []
            if (c2 ^ c) & PC_PORT_DOWN:                       # LINK_DOWN follows an administrative change; a port-status reports it
                s2 = (s & ~1) | (c2 & 1)
                if s2 != s: out.append({"k": "port_status", "port": op["port"], "config": (c & ~1) | (c2 & 1), "state": s2})
            return out, [(n, c2, s2) if n == op["port"] else (n, cc, ss) for n, cc, ss in cfg], None
        if k == "setconfig":
            st["miss"], st["flags"] = op["miss"], op["flags"]; return [], cfg, None
        if k == "flow":
            # with the C13-4 pre-check an action type the switch cannot carry out is refused: BAD_ACTION / BAD_TYPE, nothing installed;
            # a tree without it installs the entry as it is (and stops at that action when the entry is used)
            if any(a["a"] == "vendor" for a in op["acts"]) and not self.variant.get("c134", True):
                return [{"k": "error", "type": 2, "code": 0}], cfg, None
            st["rules"].append(op); return [], cfg, None
        if k == "link":
            return [], [(n, c, (s | 1) if op["down"] else (s & ~1)) if n == op["port"] else (n, c, s) for n, c, s in cfg], None
        if k == "addport":                                     # announced to the controller as it was handed in; its rules apply from now on
            if op.get("hw"): st["hw"][op["no"]] = op["hw"]
            return [{"k": "port_status", "port": op["no"], "config": op["config"], "state": op["state"]}], cfg + [(op["no"], op["config"], op["state"])], None
        if k == "stats":
            sel = [n for n, c, s in cfg if op.get("port") is None or n == op["port"]]
            return [{"k": "stats", "ports": [{"no": n, "rx_p": st["erx"].get(n, [0, 0])[0], "rx_b": st["erx"].get(n, [0, 0])[1],
                                              "tx_p": st["etx"].get(n, [0, 0])[0], "tx_b": st["etx"].get(n, [0, 0])[1]} for n in sel]}], cfg, None
        if k == "features":
            return [{"k": "features", "ports": [{"no": n, "config": c, "state": s} for n, c, s in cfg]}], cfg, None
        if k == "pktout" and "buffer" in op:
            i = op["buffer"]
            if i < len(st["bufstore"]) and st["bufstore"][i] is not None:
                frame, ingress, safe = st["bufstore"][i]; st["bufstore"][i] = None
                if not safe: return None, cfg, None            # a buffer whose packet later actions may have changed: not judged
                exp, _ = self._apply(op["acts"], frame, ingress, cfg, st["rules"], st["miss"])
                return exp, cfg, ("pktout(buffer)", frame, ingress)
            # OFPET_BAD_REQUEST with OFPBRC_BUFFER_EMPTY (7: used before) / OFPBRC_BUFFER_UNKNOWN (8: never handed out); nothing emitted
            return [{"k": "error", "type": 1, "code": 7 if i < len(st["bufstore"]) else 8}], cfg, None
        if k == "pktout":
            frame = bytes.fromhex(op["data"]); ingress = op["in_port"]
            exp, _ = self._apply(op["acts"], frame, ingress, cfg, st["rules"], st["miss"])
            return exp, cfg, ("pktout", frame, ingress)
        frame = bytes.fromhex(op["data"]); ingress = op["port"]
        c = dict((n, c) for n, c, s in cfg).get(ingress)
        stp = frame[:6] == STP_MAC
        L = Loc(frame)
        isfrag = L.ip and (L.mf or L.frag != 0)
        accepted = c is not None and not (c & PC_NO_RECV and not stp) and not (c & PC_NO_RECV_STP and stp) and not ((st["flags"] & 3) == 1 and isfrag)
        st["dropped"] = None
        if not accepted:
            st["dropped"] = "unknown-port" if c is None else ("fragment-under-FRAG_DROP" if ((st["flags"] & 3) == 1 and isfrag and not (c & PC_NO_RECV and not stp) and not (c & PC_NO_RECV_STP and stp)) else "receive-disabled-port")
            return [], cfg, ("rx", frame, ingress)
        r = st["erx"].setdefault(ingress, [0, 0]); r[0] += 1; r[1] += len(frame)
        exp, _ = self._table(st["rules"], cfg, st["miss"], frame, ingress, frame)
        for o in exp:
            if o["k"] == "pin": o["_rxmiss"] = True
        return exp, cfg, ("rx", frame, ingress)

    def oracle(self, case, obs):
        flat = self._flat(case)[0]
        if obs["exc"] == "RecursionError" and any(a["a"] in ("output", "enqueue") and a["port"] == P_TABLE for op in flat if op["op"] == "flow" for a in op["acts"]):
            # a flow entry that outputs to OFPP_TABLE is outside OpenFlow 1.0 ("only ... for packet-out messages") and outside this
            # property's assumptions: the lookup re-enters itself until Python's recursion limit.  Compared model-vs-code only
            # (the model's nesting allowance runs out the same way); reported as candidate finding C12-5, not as a violation.
            return None
        if obs["exc"] is not None:
            return "operation %d (%s) raised %s" % (len(obs["outs"]), case["ops"][len(obs["outs"])]["op"], obs["exc"])
        canon = bool(case.get("canon"))
        if case.get("initports"):
            # the rules of the property apply to the ports as they were handed to the switch, from the first frame on: the
            # administrative bits are the administrator's, and a port that came with its link down has its link down
            first = obs["cfg"][0] if obs["cfg"] else [(p["no"], p["config"], p["state"]) for p in obs["ports"]]
            have = dict((n, (c, s)) for n, c, s in first)
            for d in self.initports(case):
                if d["no"] not in have: return "port %d was handed to the switch (%s) and is not in its port table" % (d["no"], d.get("via", "ctor"))
                c, s = have[d["no"]]
                if c != d["config"] or (d["state"] & 1 and not s & 1):
                    return "port %d enters the switch (%s) with config %#x state %#x and is held with config %#x state %#x" % (d["no"], d.get("via", "ctor"), d["config"], d["state"], c, s)
        st = {"rules": [], "miss": case.get("miss0", 128), "flags": 0, "free": case.get("bufs", 4096), "bufstore": [], "etx": {}, "erx": {},
              "hw": dict((d["no"], d["hw"]) for d in case.get("initports") or [] if d.get("hw"))}
        tx = {}; rx = {}
        l4rw = any(a["a"] in ("set_nw_src", "set_nw_dst", "set_tp_src", "set_tp_dst") for o2 in flat if "acts" in o2 for a in o2["acts"])
        for i, (op, got) in enumerate(zip(case["ops"], obs["outs"])):
            cfg = [tuple(x) for x in obs["cfg"][i]]
            real_after = [tuple(x) for x in obs["cfg"][i + 1]] if i + 1 < len(obs["cfg"]) else [(p["no"], p["config"], p["state"]) for p in obs["ports"]]
            batch = op["op"] == "batch"
            for o in got:
                if o["k"] == "frame":
                    t = tx.setdefault(o["port"], [0, 0]); t[0] += 1; t[1] += len(o["data"]) // 2
                    if not batch and not port_up(cfg, o["port"]): return "op %d: frame emitted on port %d which is down / link-down / NO_FWD / unknown" % (i, o["port"])
                if o["k"] == "other": return "op %d: unexpected message %s" % (i, o["cls"])
            exp, infos, judged = [], [], True
            for sub in (op["ops"] if batch else [op]):
                before = cfg
                e, cfg, info = self._expect(sub, cfg, st)
                if e is None: judged = False; break
                for o in e:                                        # the pool, in log order: a buffer while one is free, then none
                    if o["k"] == "pin":
                        full, limit = o.pop("_full"), o.pop("_limit"); rxmiss = o.pop("_rxmiss", False)
                        o["buffered"] = st["free"] > 0
                        if st["free"] > 0:
                            st["free"] -= 1; st["bufstore"].append((full, o["in_port"], rxmiss))
                        o["data"] = (full[:limit] if (o["buffered"] and limit is not None) else full).hex(); o["total"] = len(full)
                    if o["k"] == "frame" and batch:          # (inside a batch the counters a read-out must show come from the expected frames)
                        t = st["etx"].setdefault(o["port"], [0, 0]); t[0] += 1; t[1] += len(o["data"]) // 2
                exp += e
                if info: infos.append(info)
                if sub["op"] == "portmod" and not batch:
                    want = dict((n, c) for n, c, s in cfg).get(sub["port"]); have = dict((n, c) for n, c, s in real_after).get(sub["port"])
                    if want != have:
                        return "op %d: port_mod config %#x mask %#x on %#x gives %#x, expected %#x" % (i, sub["config"], sub["mask"], dict((n, c) for n, c, s in before)[sub["port"]], have, want)
            if not batch:                                      # what later read-outs must show: the frames that really left
                for o in got:
                    if o["k"] == "frame":
                        t = st["etx"].setdefault(o["port"], [0, 0]); t[0] += 1; t[1] += len(o["data"]) // 2
            if not judged: continue
            # The property speaks of "the frames the switch emits ON EACH PORT" (and of what it sends to the controller): the order in which
            # one FLOOD / ALL expansion visits different ports is not constrained.  Both logs are therefore put into a canonical order
            # before they are compared: the per-port sequences and the controller-bound sequence each keep their own order (stable sort).
            chan = lambda o: (0, o["port"]) if o["k"] == "frame" else (1, 0)
            got = sorted(got, key=chan); exp = sorted(exp, key=chan)
            if sorted(cfg) != sorted(real_after) and op["op"] in ("portmod", "batch", "link", "addport"):
                return "op %d: port_mod/link sequence leaves ports (no, config, state) %s, expected %s" % (i, sorted(real_after), sorted(cfg))
            where, frame, ingress = infos[-1] if infos else (op["op"], b"", None)
            if op["op"] == "rx" and st.get("dropped") and got:
                return "op %d rx: a frame that must be dropped (%s) was processed: %s" % (i, st["dropped"], [(o["k"], o.get("port")) for o in got][:6])
            if op["op"] == "rx":                      # (accepted receptions were tallied by _expect; the counters are compared at the end)
                c = dict((n, c) for n, c, s in cfg).get(ingress)
                if c is not None and (c & PC_NO_RECV) and frame[:6] != STP_MAC and got: return "op %d: frame from a NO_RECV port was processed" % i
            bg = [o.get("buffered") for o in got if o["k"] == "pin"]; be = [o.get("buffered") for o in exp if o["k"] == "pin"]
            if len(bg) == len(be) and bg != be: return "op %d %s: packet-in buffer ids %s, expected %s" % (i, where, bg, be)
            # ports and kinds always; bytes when the frame is canonical (lengths/checksums valid, so recomputing them is the identity)
            if [(o["k"], o.get("port"), o.get("in_port"), o.get("reason")) for o in got] != [(o["k"], o.get("port"), o.get("in_port"), o.get("reason")) for o in exp]:
                gp = [o.get("port") for o in got if o["k"] == "frame"]; ep = [o.get("port") for o in exp if o["k"] == "frame"]
                if ingress is not None and ingress in gp and ingress not in ep: return "op %d %s: frame emitted on the ingress port %d without IN_PORT" % (i, where, ingress)
                return "op %d %s: outputs %s, specification %s" % (i, where, [(o["k"], o.get("port")) for o in got], [(o["k"], o.get("port")) for o in exp])
            cls = ""
            for _, fr, _ing in infos:
                L = Loc(fr) if len(fr) >= 14 else None
                if L is not None and L.ip:
                    if L.mf and L.frag == 0: cls = " [ip-first-fragment]"
                    elif L.end < len(fr) and not cls: cls = " [ethernet-trailer]"
            for j, (g, e) in enumerate(zip(got, exp)):
                if g == e: continue
                if g["k"] == "stats" and batch and not canon: continue      # frame lengths of a non-canonical frame are not predicted
                if g["k"] in ("stats", "features"):
                    return "op %d: %s reply %s, expected %s" % (i, g["k"], json.dumps(g["ports"])[:300], json.dumps(e["ports"])[:300])
                if g["k"] in ("error", "port_status"):
                    return "op %d %s: message %s, expected %s" % (i, where, g, e)
                if canon and not (cls == " [ip-first-fragment]" and l4rw):     # a fragment's L4 checksum cannot be recomputed: not compared
                    return "op %d %s: output %d (%s) differs from the specification%s: got %s expected %s" % (i, where, j, g["k"], cls, g.get("data"), e.get("data"))
        f = self._noop_check(case, obs)
        if f: return f
        rx = st["erx"]
        for p in obs["ports"]:
            t = tx.get(p["no"], [0, 0]); r = rx.get(p["no"], [0, 0])
            if [p["tx_p"], p["tx_b"]] != t: return "port %d tx counters %s but %s frames/bytes were transmitted" % (p["no"], [p["tx_p"], p["tx_b"]], t)
            if [p["rx_p"], p["rx_b"]] != r: return "port %d rx counters %s but %s frames/bytes were accepted from the wire" % (p["no"], [p["rx_p"], p["rx_b"]], r)
        return None

    def _noop_check(self, case, obs):
        """SET_TP_* on a frame whose IPv4 payload is not TCP/UDP, and SET_NW_* / SET_TP_* on a frame that is not IPv4, are no-ops:
        the same history without those actions must produce exactly the same log.  Needs no assumption on the frame (works for
        frames whose lengths/checksums are not canonical), and does not involve the model."""
        flat = self._flat(case)[0]
        frames = [bytes.fromhex(op["data"]) for op in flat if "data" in op]
        if not frames or any(len(fr) < 14 for fr in frames) or any(op["op"] in ("stats", "features") or "buffer" in op for op in flat): return None
        # strip_vlan can bring a header behind a second tag into view: the premise must hold for every tag-stripped form too
        forms = []
        for fr in frames:
            forms.append(fr)
            while len(fr) >= 18 and fr[12:14] == b"\x81\x00":
                fr = fr[:12] + fr[16:]; forms.append(fr)
        locs = [Loc(fr) for fr in forms]
        drop = set()
        if all(not (L.ip and L.proto in (6, 17)) for L in locs): drop |= {"set_tp_src", "set_tp_dst"}
        if all(not L.ip and L.type != 0x0800 for L in locs): drop |= {"set_nw_src", "set_nw_dst", "set_nw_tos", "set_tp_src", "set_tp_dst"}
        if not drop or not any(a["a"] in drop for op in flat if "acts" in op for a in op["acts"]): return None
        c2 = copy.deepcopy(case)
        for op in c2["ops"]:
            for o in (op["ops"] if op["op"] == "batch" else [op]):
                if "acts" in o: o["acts"] = [a for a in o["acts"] if a["a"] not in drop]
        o2 = self.impl(c2)
        if o2["exc"] is not None or o2["outs"] != obs["outs"] or o2["ports"] != obs["ports"]:
            i = next((j for j, (a, b) in enumerate(zip(obs["outs"], o2["outs"])) if a != b), len(o2["outs"]))
            used = sorted(set(a["a"] for op in flat if "acts" in op for a in op["acts"] if a["a"] in drop))
            return "op %d: %s changed a frame that has no such header (no-op expected): with the actions %s, without %s" % (
                i, "+".join(used), json.dumps(obs["outs"][i] if i < len(obs["outs"]) else None)[:300], json.dumps(o2["outs"][i] if i < len(o2["outs"]) else o2["exc"])[:300])
        return None

    def finding_key(self, case, obs, failure):
        acts = [a for op in self._flat(case)[0] if op["op"] in ("pktout", "flow") for a in op["acts"]]
        ks = kinds(acts)
        if "reply" in failure and "expected" in failure: return "readout:" + failure.split(": ", 1)[1].split(" ")[0] + "-reply-stale-or-wrong"
        if "port_mod/link sequence" in failure: return "port_mod:sequence-leaves-wrong-config"
        if "handed to the switch" in failure or "enters the switch" in failure: return "ports:initial-description-not-kept"
        if ": message {" in failure: return "messages:unexpected-error-or-port-status"
        if "raised" in failure:
            exc = failure.rsplit(" ", 1)[-1]
            if exc == "AttributeError" and "enqueue" in ks: return "action:enqueue:AttributeError"
            if exc == "error" and any(a["a"] == "set_vlan_pcp" and a["v"] > 7 for a in acts): return "action:set_vlan_pcp:out-of-range:struct.error"
            if exc == "RecursionError": return "flow-entry:output-TABLE:RecursionError"
            op = case["ops"][len(obs["outs"])]
            fr = bytes.fromhex(op.get("data", ""))
            if exc == "TypeError" and "strip_vlan" in ks and len(fr) < 18 and fr[12:14] == b"\x81\x00": return "action:strip_vlan:truncated-tag:TypeError"
            return "exception:%s" % exc
        if "rx counters" in failure:
            if any(a["a"] in ("output", "enqueue") and a["port"] == P_TABLE for a in acts): return "counters:rx:output-TABLE-recount"
            return "counters:rx"
        if "tx counters" in failure:
            if any(a["a"] == "set_vlan_pcp" and a["v"] > 7 for a in acts): return "action:set_vlan_pcp:out-of-range:struct.error"
            return "counters:tx"
        if "must be dropped" in failure: return "rx:dropped-frame-processed:" + failure.split("(", 1)[1].split(")")[0]
        if "packet-in buffer ids" in failure: return "buffers:packet-in-buffering"
        if "ingress port" in failure: return "ports:ingress-not-excluded"
        if "NO_RECV" in failure: return "ports:no-recv-processed"
        if "which is down" in failure: return "ports:emitted-on-guarded-port"
        if "outputs" in failure and "specification" in failure:
            if any(a["a"] in ("output", "enqueue") and a["port"] == P_TABLE for a in acts): return "outputs:port-set:output-TABLE"
            return "outputs:port-set"
        if "no-op expected" in failure:
            return "bytes:noop-action-changed-frame:" + failure.split(": ", 1)[1].split(" changed")[0]
        if "differs from the specification" in failure:
            if "[ip-first-fragment]" in failure: return "bytes:ip-first-fragment:l4-reserialised"
            if "[ethernet-trailer]" in failure: return "bytes:ethernet-trailer-dropped"
            mo = re.search(r"got ([0-9a-f]+) expected ([0-9a-f]+)", failure)
            tci_only = bool(mo) and len(mo.group(1)) == len(mo.group(2)) and mo.group(1)[:28] == mo.group(2)[:28] and mo.group(1)[32:] == mo.group(2)[32:]
            if tci_only and any(a["a"] == "set_vlan_vid" and a["v"] > 4095 for a in acts): return "bytes:set_vlan_vid:out-of-range"
            if tci_only and any(a["a"] == "set_vlan_pcp" and a["v"] > 7 for a in acts): return "action:set_vlan_pcp:out-of-range:struct.error"
            if mo and any(a["a"] == "set_nw_tos" for a in acts) and len(mo.group(1)) == len(mo.group(2)):
                g, e = bytes.fromhex(mo.group(1)), bytes.fromhex(mo.group(2))
                if len(g) >= 34:
                    L = Loc(e)
                    if L.ip and g[:L.l3 + 1] == e[:L.l3 + 1] and (g[L.l3 + 1] ^ e[L.l3 + 1]) & 0xfc == 0 and g[L.l3 + 1] != e[L.l3 + 1] and g[L.l3 + 2:L.l3 + 10] == e[L.l3 + 2:L.l3 + 10]:
                        return "bytes:set_nw_tos:ecn-bits"
            rw = sorted(set(k for k in ks if k in REWRITES))
            return "bytes:" + ("+".join(rw) if rw else "no-rewrite")
        if "port_mod" in failure: return "port_mod:" + re.sub(r"[^a-zA-Z_ ]+", "", failure.split(":", 1)[1]).strip().replace(" ", "-")[:40]
        return re.sub(r"\d+", "N", failure)[:60]

    def nontrivial(self, case, obs):
        emitted = any(o["k"] in ("frame", "pin") for outs in obs["outs"] for o in outs)
        acts = [a for op in self._flat(case)[0] if op["op"] in ("pktout", "flow") for a in op["acts"]]
        rewrites = any(a["a"] in REWRITES for a in acts)
        cfgbits = any(c != PC_NO_STP or s for snap in obs["cfg"] for n, c, s in snap)
        return emitted and (rewrites or cfgbits)

    def shrink_candidates(self, case):
        ops = case["ops"]
        for flag in ("twin", "miss0", "ports_as"):
            if flag in case:
                c = copy.deepcopy(case); del c[flag]; yield c
        for i, d in enumerate(case.get("initports") or []):          # one port back to the default description / to the constructor
            if d["config"] != PC_NO_STP or d["state"]:
                c = copy.deepcopy(case); c["initports"][i].update(config=PC_NO_STP, state=0); yield c
            if d.get("via", "ctor") != "ctor":
                c = copy.deepcopy(case); c["initports"][i]["via"] = "ctor"; yield c
        for i in range(len(ops)):
            c = copy.deepcopy(case); del c["ops"][i]; yield c
        for i, op in enumerate(ops):
            if "acts" in op:
                for j in range(len(op["acts"])):
                    c = copy.deepcopy(case); del c["ops"][i]["acts"][j]; yield c
            if op["op"] == "batch":
                for j in range(len(op["ops"])):
                    c = copy.deepcopy(case); del c["ops"][i]["ops"][j]; yield c
                c = copy.deepcopy(case); c["ops"][i:i + 1] = op["ops"]; yield c         # the same messages one by one

    # ------------------------------------------------------------------ generators
    MACS = ["001122334455", "66778899aabb", "ffffffffffff", "0180c2000000", "020000000001"]

    def g_frame(self, rng, shape=None, canon=True):
        """(frame bytes, shape name, canon, wf).  canon: the byte-level oracle applies (lengths and checksums of the input are
        valid, so that recomputing them is the identity); wf: the frame parses into a well-formed chain of the modelled
        classes, so the Lean specification must agree with the code as well"""
        shape = shape or rng.choice(["tcp", "tcp", "udp", "udp", "icmp", "icmperr", "arp", "other", "ipother", "tcpopt", "ipopt"])
        dst = bytes.fromhex(rng.choice(self.MACS)); src = bytes.fromhex(rng.choice(self.MACS[:2] + ["0a0b0c0d0e0f"]))
        if rng.random() < 0.1: dst = bytes(rng.randint(0, 255) for _ in range(6))
        tag = None
        if rng.random() < 0.45: tag = rng.choice([0, 1, 0x0fff, 0xe000, 0x1005, 0xffff, rng.randint(0, 0xffff)])
        ips = bytes([10, 0, 0, rng.randint(1, 254)]); ipd = bytes(rng.choice([[10, 0, 0, 2], [192, 168, 1, 1], [255, 255, 255, 255], [rng.randint(1, 223) for _ in range(4)]]))
        data = bytes(rng.randint(0, 255) for _ in range(rng.choice([0, 1, 2, 5, 18, 19, rng.randint(0, 80)])))
        def port():
            while True:
                p = rng.choice([0, 1, 80, 1000, 65535, rng.randint(0, 65535)])
                if p not in UDP_SPECIAL: return p
        ipkw = dict(tos=rng.choice([0, 0, 0x10, 0xb8, 0xff, 3]), ident=rng.randint(0, 65535), flags=rng.choice([0, 2]), ttl=rng.choice([1, 64, 255]))
        if shape in ("tcp", "tcpopt"):
            opts = b""
            if shape == "tcpopt":
                opts = rng.choice([bytes([2, 4, 5, 180]), bytes([2, 4, 5, 180, 1, 3, 3, 7]), bytes([1, 1, 8, 10]) + bytes(rng.randint(0, 255) for _ in range(8)),
                                   bytes([4, 2, 1, 1]), bytes([2, 4, 2, 0, 3, 3, 9, 0])])
            seg = tcp_seg(ips, ipd, port(), port(), rng.randint(0, 2 ** 32 - 1), rng.randint(0, 2 ** 32 - 1), rng.choice([0, 0, 5]), rng.choice([2, 0x10, 0x18, 0xff]),
                          rng.randint(0, 65535), rng.choice([0, 7]), opts, data)
            pay, et = ip_packet(ips, ipd, 6, seg, **ipkw), 0x0800
        elif shape == "udp":
            pay, et = ip_packet(ips, ipd, 17, udp_seg(ips, ipd, port(), port(), data), **ipkw), 0x0800
        elif shape == "icmp":
            t = rng.choice([8, 0, 13, 3])
            rest = struct.pack("!HH", rng.randint(0, 65535), rng.randint(0, 65535)) + (data if t != 3 else data[:20])
            pay, et = ip_packet(ips, ipd, 1, icmp_msg(t, rng.choice([0, 1]), rest), **ipkw), 0x0800
        elif shape in ("icmperr", "icmperr-udp", "icmperr-tcp"):
            # ICMP destination unreachable / time exceeded quoting a *complete* UDP or TCP datagram (>= 28 bytes, so that
            # pox parses the quotation in depth: icmp / unreach / ipv4 / udp).  SET_TP_* must not touch the quoted ports.
            inner_udp = shape == "icmperr-udp" or (shape == "icmperr" and rng.random() < 0.6)
            qd = rng.choice([b"", b"", data[:8], data[:13]])
            if inner_udp: inner = ip_packet(ipd, ips, 17, udp_seg(ipd, ips, port(), port(), qd), ident=rng.randint(0, 65535), ttl=rng.choice([1, 63]))
            else: inner = ip_packet(ipd, ips, 6, tcp_seg(ipd, ips, port(), port(), rng.randint(0, 2 ** 32 - 1), 0, 0, 2, rng.randint(0, 65535), 0, b"", qd),
                                    ident=rng.randint(0, 65535), ttl=rng.choice([1, 63]))
            t = rng.choice([3, 11])
            pay, et = ip_packet(ips, ipd, 1, icmp_msg(t, rng.choice([0, 1, 3]), (bytes(4) if t == 11 else struct.pack("!HH", 0, rng.choice([0, 1400]))) + inner), **ipkw), 0x0800
        elif shape == "ipopt":
            opt = rng.choice([bytes([1, 1, 1, 0]), bytes([7, 7, 4, 0, 0, 0, 0, 0]), bytes([0x94, 4, 0, 0])])
            pay, et = ip_packet(ips, ipd, 17, udp_seg(ips, ipd, port(), port(), data), options=opt, **ipkw), 0x0800
        elif shape == "ipother":
            pay, et = ip_packet(ips, ipd, rng.choice([89, 50, 132, 255, 0]), data, **ipkw), 0x0800
        elif shape == "arp":
            pay = struct.pack("!HHBBH", 1, 0x0800, 6, 4, rng.choice([1, 2])) + src + ips + bytes(6) + ipd + rng.choice([b"", bytes(18)])
            et = rng.choice([0x0806, 0x0806, 0x8035])
        else:
            while True:
                et = rng.choice([0x88b5, 0x9000, 0x0600, 0xffff, rng.randint(0x0600, 0xffff)])
                if et not in (0x8100, 0x0806, 0x8035, 0x0800, 0x86dd, 0x88cc, 0x888e, 0x8847, 0x8848): break
            pay = data
        fr = eth_frame(dst, src, et, pay, tag)
        if canon: return fr, shape, True, True
        # variants: an Ethernet trailer behind the IP datagram, fragments, nested tags (byte oracle still applies);
        # zero / wrong checksums, truncated frames, ICMP errors quoting a datagram (model-vs-code and port rules only)
        v = rng.choice(["trailer", "udp0", "badsum", "frag", "mf", "trunc", "unreach", "qinq"])
        L = Loc(fr)
        can, wf = False, False
        if v == "trailer" and L.ip: fr = fr + bytes(rng.randint(1, 10)); can, wf = True, True
        elif v == "udp0" and L.ip and L.proto == 17 and L.l4: fr = put16(fr, L.l4 + 6, 0)
        elif v == "badsum" and L.ip: fr = put16(fr, L.l3 + 10, (be16(fr, L.l3 + 10) + 1) & 0xffff)
        elif v == "frag" and L.ip: fr = refresh(put16(fr, L.l3 + 6, 0x2000 | rng.randint(1, 100))); can, wf = True, True
        elif v == "mf" and L.ip:
            # first fragment (MF, offset 0): the L4 header is there, the rest of the datagram is in later fragments
            o = L.l3; seg = fr[o + L.hl * 4:L.end]
            keep = (len(seg) // 2) // 8 * 8
            if L.l4 is not None and keep >= (8 if L.proto == 17 else (fr[L.l4 + 12] >> 4) * 4) and keep < len(seg): seg = seg[:keep]
            ip = put16(put16(fr[o:o + L.hl * 4], 2, L.hl * 4 + len(seg)), 6, 0x2000)
            fr = refresh(fr[:o] + ip + seg); can = True
        elif v == "trunc": fr = fr[:max(14, len(fr) - rng.randint(1, 30))]
        elif v == "unreach":
            inner = ip_packet(ipd, ips, 17, udp_seg(ipd, ips, 1000, 2000, b"abcdefghijklmnop"))[:28]
            fr = eth_frame(dst, src, 0x0800, ip_packet(ips, ipd, 1, icmp_msg(rng.choice([3, 11]), 1, bytes(4) + inner)), tag)
        elif v == "qinq": fr = eth_frame(dst, src, 0x8100, struct.pack("!HH", rng.randint(0, 0xffff), et) + pay, rng.randint(0, 0xffff))
        return fr, shape + "/" + v, can, wf

    def g_action(self, rng, wild=False):
        k = rng.choice(["output", "output", "output", "enqueue"] + list(REWRITES))
        if k in ("output", "enqueue"):
            port = rng.choice([1, 2, 3, 1, 2, 3, P_IN_PORT, P_FLOOD, P_ALL, P_CONTROLLER, P_TABLE, 4, 0, P_NORMAL, P_LOCAL, P_NONE, P_MAX])
            if k == "output": return {"a": "output", "port": port, "max_len": rng.choice([0, 14, 20, 128, 65535, rng.randint(0, 100)])}
            return {"a": "enqueue", "port": port, "queue": rng.randint(0, 3)}
        if k == "set_vlan_vid": return {"a": k, "v": rng.choice([0, 1, 100, 4095, rng.randint(0, 4095)] + ([4096, 0x1005, 0xffff] if wild else []))}
        if k == "set_vlan_pcp": return {"a": k, "v": rng.choice([0, 1, 7, rng.randint(0, 7)] + ([8, 9, 255] if wild else []))}
        if k == "strip_vlan": return {"a": k}
        if k in ("set_dl_src", "set_dl_dst"): return {"a": k, "v": rng.choice(self.MACS + [bytes(rng.randint(0, 255) for _ in range(6)).hex()])}
        if k in ("set_nw_src", "set_nw_dst"): return {"a": k, "v": rng.choice([0, 0x0a000001, 0xffffffff, 0xc0a80101, rng.randint(0, 2 ** 32 - 1)])}
        if k == "set_nw_tos": return {"a": k, "v": rng.choice([0, 0x10, 0xb8, 0xfc, 0xff, rng.randint(0, 255)])}
        while True:
            p = rng.choice([0, 1, 80, 443, 65535, rng.randint(0, 65535)])
            if p not in UDP_SPECIAL: return {"a": k, "v": p}

    def g_actions(self, rng, n, wild=False, table_ok=True):
        acts = [self.g_action(rng, wild) for _ in range(n)]
        if not table_ok:
            for a in acts:
                if a.get("port") == P_TABLE: a["port"] = P_FLOOD
        if wild and rng.random() < 0.15 and acts:
            acts.insert(rng.randint(0, len(acts)), {"a": "vendor", "v": rng.randint(0, 2 ** 32 - 1)})
        return acts

    def remap(self, case, m):
        """the same case on a switch whose ports 1, 2, 3 carry other numbers"""
        c = copy.deepcopy(case)
        c["portnos"] = [m.get(i, i) for i in (1, 2, 3)]
        def fix(op):
            if op["op"] == "batch":
                for o in op["ops"]: fix(o)
                return
            if op["op"] == "portmod":
                good = op["hw"] == self.hw(op["port"]).hex()
                op["port"] = m.get(op["port"], op["port"])
                if good: op["hw"] = self.hw(op["port"]).hex()
            elif op["op"] in ("rx", "link", "stats") and op.get("port") is not None: op["port"] = m.get(op["port"], op["port"])
            if op.get("in_port") is not None: op["in_port"] = m.get(op["in_port"], op["in_port"])
            for a in op.get("acts", []):
                if "port" in a: a["port"] = m.get(a["port"], a["port"])
        for op in c["ops"]: fix(op)
        return c

    def portmods(self, cfgs):
        """port_mod ops that take ports 1..3 from the default config to the given 7-bit configs"""
        return [{"op": "portmod", "port": i + 1, "hw": self.hw(i + 1).hex(), "config": c, "mask": 0x7f} for i, c in enumerate(cfgs) if c is not None]

    def corpus(self):
        import random
        rng = random.Random(12)
        frames = {}
        for shape in ("tcp", "udp", "icmp", "arp", "other", "ipother", "tcpopt", "ipopt"):
            for tagged in (False, True):
                while True:
                    fr = self.g_frame(rng, shape)[0]
                    if (be16(fr, 12) == 0x8100) == tagged: break
                frames[(shape, tagged)] = fr.hex()
        tcp, tcpv, udp = frames[("tcp", False)], frames[("tcp", True)], frames[("udp", False)]
        out1 = lambda p: {"a": "output", "port": p, "max_len": 64}
        cases = []
        small_frame = "66778899aabb00112233445588b50102"
        # (a) all 2^7 config-bit combinations on each of the three ports x FLOOD / ALL / explicit / IN_PORT / rx through a flooding flow
        for c in range(128):
            for target in (1, 2, 3):
                cfgs = [None, None, None]; cfgs[target - 1] = c
                ops = self.portmods(cfgs)
                ops.append({"op": "pktout", "in_port": 1, "data": tcp, "acts": [out1(P_FLOOD), out1(P_ALL), out1(1), out1(2), out1(3), out1(P_IN_PORT)]})
                ops.append({"op": "flow", "in_port": None, "acts": [out1(P_FLOOD), {"a": "set_nw_tos", "v": 0x20}, out1(P_IN_PORT)]})
                ops.append({"op": "rx", "port": 1, "data": udp})
                ops.append({"op": "rx", "port": target, "data": tcpv})
                cases.append({"ops": ops, "wf": True, "canon": True})
        # (b) link-down state with and without the config bit, and a port_mod that toggles PORT_DOWN while the link is down
        for down in ([2], [2, 3], [1]):
            for c in (0, PC_PORT_DOWN, PC_NO_FLOOD):
                ops = [{"op": "link", "port": p, "down": True} for p in down] + self.portmods([None, c, None])
                ops += [{"op": "pktout", "in_port": 1, "data": tcp, "acts": [out1(P_FLOOD), out1(2), out1(P_IN_PORT)]},
                        {"op": "portmod", "port": 2, "hw": self.hw(2).hex(), "config": 0, "mask": PC_PORT_DOWN},
                        {"op": "pktout", "in_port": 3, "data": tcp, "acts": [out1(P_ALL)]},
                        {"op": "link", "port": 2, "down": False},
                        {"op": "pktout", "in_port": 3, "data": tcp, "acts": [out1(P_ALL)]}]
                cases.append({"ops": ops, "wf": True, "canon": True})
        # (c) every single rewrite and every ordered pair of rewrites between two outputs, on every frame shape
        singles = [{"a": "set_vlan_vid", "v": 100}, {"a": "set_vlan_pcp", "v": 5}, {"a": "strip_vlan"}, {"a": "set_dl_src", "v": "020304050607"},
                   {"a": "set_dl_dst", "v": "0a0b0c0d0e0f"}, {"a": "set_nw_src", "v": 0xc0a80505}, {"a": "set_nw_dst", "v": 0x01020304}, {"a": "set_nw_tos", "v": 0xb8},
                   {"a": "set_tp_src", "v": 4444}, {"a": "set_tp_dst", "v": 81}]
        for key, fr in sorted(frames.items()):
            for a in singles:
                cases.append({"ops": [{"op": "pktout", "in_port": 1, "data": fr, "acts": [out1(2), a, out1(3), out1(P_CONTROLLER)]}], "wf": True, "canon": True})
            for a in singles:
                for b in singles:
                    if key[0] in ("tcp", "udp") or (a["a"].startswith("set_vlan") or b["a"] == "strip_vlan"):
                        cases.append({"ops": [{"op": "pktout", "in_port": 3, "data": fr, "acts": [a, out1(1), b, out1(P_FLOOD)]}], "wf": True, "canon": True})
        # (d) TABLE: packet-out into the table (hit with rewrites, miss, NO_PACKET_IN, in_port NONE), enqueue, vendor action, port-mod errors
        flow = {"op": "flow", "in_port": 1, "acts": [{"a": "set_vlan_vid", "v": 7}, out1(P_FLOOD), {"a": "enqueue", "port": P_IN_PORT, "queue": 1}]}
        for ing in (1, 2, P_NONE, P_CONTROLLER):
            cases.append({"ops": [flow, {"op": "pktout", "in_port": ing, "data": tcp, "acts": [{"a": "set_tp_dst", "v": 8080}, out1(P_TABLE), out1(3)]}], "wf": True, "canon": True})
            cases.append({"ops": self.portmods([PC_NO_PACKET_IN | PC_NO_RECV, PC_NO_PACKET_IN, None]) +
                                 [{"op": "pktout", "in_port": ing, "data": udp, "acts": [out1(P_TABLE)]}, {"op": "rx", "port": 2, "data": udp}, {"op": "rx", "port": 3, "data": udp}],
                          "wf": True, "canon": True})
        cases.append({"ops": [{"op": "pktout", "in_port": 1, "data": tcp, "acts": [{"a": "enqueue", "port": 2, "queue": 0}, {"a": "enqueue", "port": P_CONTROLLER, "queue": 0}]}], "wf": True, "canon": True})
        cases.append({"ops": [{"op": "pktout", "in_port": 1, "data": tcp, "acts": [out1(2), {"a": "vendor", "v": 9}, out1(3)]}], "wf": True, "canon": True})
        cases.append({"ops": [{"op": "portmod", "port": 9, "hw": self.hw(1).hex(), "config": 1, "mask": 1}, {"op": "portmod", "port": 1, "hw": "000000000001", "config": 1, "mask": 1},
                              {"op": "portmod", "port": 1, "hw": self.hw(1).hex(), "config": 0xffffffff, "mask": 0xffffff80}, {"op": "portmod", "port": 1, "hw": self.hw(1).hex(), "config": 0, "mask": 2},
                              {"op": "pktout", "in_port": 2, "data": tcp, "acts": [out1(P_ALL)]}], "wf": True, "canon": True})
        # (e) out-of-range VLAN arguments (C12-1), fragments with OFPC_FRAG_DROP, STP frames against NO_RECV / NO_RECV_STP
        for v in (8, 9, 255):
            cases.append({"ops": [{"op": "pktout", "in_port": 1, "data": tcp, "acts": [{"a": "set_vlan_pcp", "v": v}, out1(2)]}], "canon": True})
        for v in (4096, 0x1005, 0xffff):
            cases.append({"ops": [{"op": "pktout", "in_port": 1, "data": tcpv, "acts": [{"a": "set_vlan_pcp", "v": 2}, {"a": "set_vlan_vid", "v": v}, out1(2)]}], "canon": True})
        frag = refresh(put16(bytes.fromhex(udp), 14 + 6, 0x2000 | 5)).hex()
        stp = (STP_MAC + bytes.fromhex(tcp)[6:]).hex()
        for fl in (0, 1, 2, 3):
            cases.append({"ops": [{"op": "setconfig", "flags": fl, "miss": 20}, {"op": "flow", "in_port": 2, "acts": [out1(3)]},
                                  {"op": "rx", "port": 2, "data": frag}, {"op": "rx", "port": 2, "data": udp}, {"op": "rx", "port": 1, "data": frag}]})
        for c in (PC_NO_RECV, PC_NO_RECV_STP, PC_NO_RECV | PC_NO_RECV_STP):
            cases.append({"ops": self.portmods([c, None, None]) + [{"op": "flow", "in_port": None, "acts": [out1(P_FLOOD)]},
                                  {"op": "rx", "port": 1, "data": stp}, {"op": "rx", "port": 1, "data": tcp}], "wf": True, "canon": True})
        # (g) ICMP destination-unreachable / time-exceeded quoting a complete UDP / TCP datagram (>= 28 bytes: pox parses the quotation in
        #     depth), tagged and untagged: SET_TP_* is a no-op on them, SET_NW_* rewrites the outer header only
        for shape in ("icmperr-udp", "icmperr-tcp"):
            for tagged in (False, True):
                for k in range(3):
                    while True:
                        fr = self.g_frame(rng, shape)[0]
                        if (be16(fr, 12) == 0x8100) == tagged: break
                    fr = fr.hex()
                    for a, b in (({"a": "set_tp_src", "v": 7777}, {"a": "set_tp_dst", "v": 81}), ({"a": "set_tp_dst", "v": 7777}, {"a": "set_nw_src", "v": 0xc0a80505}),
                                 ({"a": "set_nw_dst", "v": 0x01020304}, {"a": "set_tp_src", "v": 1}), ({"a": "set_nw_src", "v": 0x0a090909}, {"a": "set_nw_dst", "v": 0x0a000001})):
                        cases.append({"ops": [{"op": "pktout", "in_port": 1, "data": fr, "acts": [out1(2), a, out1(3), b, out1(P_FLOOD), out1(P_CONTROLLER)]}], "wf": True, "canon": True})
                    cases.append({"ops": [{"op": "flow", "in_port": None, "acts": [{"a": "set_tp_dst", "v": 7777}, out1(P_FLOOD), {"a": "set_tp_src", "v": 2}, {"a": "strip_vlan"}, out1(P_IN_PORT)]},
                                          {"op": "rx", "port": 2, "data": fr}], "wf": True, "canon": True})
        # (h) rx_packet without packet_data: table hit, miss (packet-in built from packet.pack()), NO_RECV, every frame shape
        for key, fr in sorted(frames.items()):
            cases.append({"ops": self.portmods([None, None, PC_NO_RECV]) + [{"op": "setconfig", "flags": 0, "miss": 30}, {"op": "flow", "in_port": 1, "acts": [{"a": "set_vlan_vid", "v": 9}, out1(P_FLOOD)]},
                                  {"op": "rx", "port": 1, "data": fr, "nopd": True}, {"op": "rx", "port": 2, "data": fr, "nopd": True}, {"op": "rx", "port": 3, "data": fr, "nopd": True},
                                  {"op": "rx", "port": 7, "data": fr, "nopd": True}], "wf": True, "canon": True})
        # (i) C12-2: a frame that ends inside the 802.1Q tag (the vlan object does not parse) against strip_vlan / set_vlan_*
        for tail in ("", "00", "0005", "000508"):
            runt = "66778899aabb0011223344558100" + tail
            for acts in ([{"a": "strip_vlan"}, out1(2)], [out1(2), {"a": "set_vlan_vid", "v": 5}, out1(3), {"a": "strip_vlan"}, out1(P_FLOOD)]):
                can = len(acts) == 2          # what set_vlan_* should do to half a tag is nobody's specification: model-vs-code only
                cases.append({"ops": [{"op": "pktout", "in_port": 1, "data": runt, "acts": acts}], "canon": can})
                cases.append({"ops": [{"op": "flow", "in_port": None, "acts": acts}, {"op": "rx", "port": 1, "data": runt}], "canon": can})
        # (j) OFPP_TABLE recursion bound: a flow entry that itself outputs to TABLE (model: nesting allowance exhausted; code: RecursionError)
        cases.append({"ops": [{"op": "flow", "in_port": 1, "acts": [out1(2), out1(P_TABLE)]}, {"op": "rx", "port": 2, "data": small_frame}, {"op": "rx", "port": 1, "data": small_frame}]})
        cases.append({"ops": [{"op": "flow", "in_port": None, "acts": [{"a": "set_vlan_vid", "v": 3}, {"a": "enqueue", "port": P_TABLE, "queue": 0}, out1(3)]},
                              {"op": "pktout", "in_port": 2, "data": small_frame, "acts": [out1(P_TABLE)]}]})
        # (k) the buffer pool runs out: CONTROLLER outputs (with max_len, enqueue without), table misses via TABLE and from the wire
        for bufs in (0, 1, 2, 3):
            ctl = lambda n: {"a": "output", "port": P_CONTROLLER, "max_len": n}
            cases.append({"bufs": bufs, "ops": [{"op": "setconfig", "flags": 0, "miss": 16},
                                               {"op": "pktout", "in_port": 1, "data": tcp, "acts": [ctl(20), out1(2), ctl(0), {"a": "set_nw_tos", "v": 8}, {"a": "enqueue", "port": P_CONTROLLER, "queue": 0}, out1(P_TABLE)]},
                                               {"op": "rx", "port": 2, "data": udp}, {"op": "rx", "port": 3, "data": udp, "nopd": True},
                                               {"op": "pktout", "in_port": 2, "data": udp, "acts": [ctl(65535), ctl(14)]}], "wf": True, "canon": True})
        # ---- HARDENING.md families --------------------------------------------------------------------------------------------
        pm = lambda port, bit, on: {"op": "portmod", "port": port, "hw": self.hw(port).hex(), "config": bit if on else 0, "mask": bit}
        allout = [out1(P_FLOOD), out1(1), out1(2), out1(3), out1(P_ALL), out1(P_IN_PORT)]
        stats = {"op": "stats", "port": None}
        # (l) hidden state between calls (items 1, 2): the SAME frame sent again and again while one guard bit is switched on and off in
        #     between (a cached "can this port forward"), read-outs of the counters and of the port descriptions in between (replies
        #     cached or returned by reference), the same frame first with rewrites and then plain (a memoised parse / a shared packet
        #     object), one flow entry processing A, B, A
        for port, bit in ((2, PC_PORT_DOWN), (2, PC_NO_FWD), (2, PC_NO_FLOOD), (1, PC_NO_RECV), (1, PC_NO_PACKET_IN), (3, PC_NO_FWD), (1, PC_NO_FWD)):
            send = [{"op": "pktout", "in_port": 1, "data": tcp, "acts": allout}, {"op": "rx", "port": 1, "data": tcp}, {"op": "rx", "port": 3, "data": udp}]
            ops = [{"op": "flow", "in_port": 3, "acts": [out1(P_FLOOD), out1(P_IN_PORT)]}] + send + [stats, pm(port, bit, True), {"op": "features"}] + send + \
                  [{"op": "stats", "port": port}, pm(port, bit, False)] + send + [stats, {"op": "features"}, pm(port, bit, True), pm(port, bit, True)] + send + [stats]
            cases.append({"ops": ops, "wf": True, "canon": True})
        for ln in (2, 3):
            send = [{"op": "pktout", "in_port": 1, "data": udp, "acts": allout}]
            cases.append({"ops": send + [{"op": "link", "port": ln, "down": True}] + send + [stats, {"op": "link", "port": ln, "down": False}] + send + [stats], "wf": True, "canon": True})
        rewr = [{"a": "set_vlan_vid", "v": 5}, {"a": "set_nw_dst", "v": 0x01020304}, {"a": "set_tp_src", "v": 9}, {"a": "set_dl_src", "v": "020304050607"}]
        for fr in (tcp, tcpv, udp):
            cases.append({"ops": [{"op": "pktout", "in_port": 1, "data": fr, "acts": rewr + [out1(2)]}, {"op": "pktout", "in_port": 1, "data": fr, "acts": [out1(2), out1(P_CONTROLLER)]},
                                  {"op": "pktout", "in_port": 3, "data": fr, "acts": [{"a": "strip_vlan"}, out1(2)]}, {"op": "pktout", "in_port": 1, "data": fr, "acts": [out1(3)]}, stats],
                          "wf": True, "canon": True})
            cases.append({"ops": [{"op": "flow", "in_port": 1, "acts": rewr + [out1(P_FLOOD)]}, {"op": "flow", "in_port": 2, "acts": [out1(P_FLOOD)]},
                                  {"op": "rx", "port": 1, "data": fr}, {"op": "rx", "port": 2, "data": fr}, {"op": "rx", "port": 1, "data": udp}, {"op": "rx", "port": 1, "data": fr},
                                  {"op": "rx", "port": 2, "data": fr, "nopd": True}, stats], "wf": True, "canon": True})
        # (m) buffered packets reused (item 2; oracle and code only — the model keeps no buffer store): frames that missed the table are
        #     released later, in another order, by action lists with rewrites; a second use and an unknown id do nothing
        for bufs in (4096, 1):
            cases.append({"oracle_only": True, "bufs": bufs, "canon": True, "ops": [
                {"op": "setconfig", "flags": 0, "miss": 20}, {"op": "rx", "port": 1, "data": tcp}, {"op": "rx", "port": 2, "data": udp},
                {"op": "pktout", "in_port": P_NONE, "buffer": 1, "acts": [{"a": "set_vlan_vid", "v": 7}, out1(P_FLOOD), out1(P_IN_PORT)]},
                {"op": "pktout", "in_port": P_NONE, "buffer": 0, "acts": [{"a": "set_nw_tos", "v": 0x20}, out1(3), out1(P_IN_PORT), {"a": "set_tp_dst", "v": 1}, out1(2)]},
                {"op": "pktout", "in_port": P_NONE, "buffer": 0, "acts": [out1(3)]}, {"op": "pktout", "in_port": 1, "buffer": 9, "acts": [out1(3)]}, stats]})
        # (n) rare port numbers (item 3): ports above 256 (ints built at run time: `is` is not `==`), 0, OFPP_MAX and its neighbours, every
        #     virtual port value and the values next to them — as output, as enqueue, as ingress, in port_mod / stats
        for pn in ([1, 300, 0xfeff], [257, 256, 255], [0xfeff, 1000, 2]):
            a, b, c = pn
            hwp = lambda x: self.hw(x).hex()
            for ing in (a, b, c, P_NONE):
                ops = [{"op": "flow", "in_port": b, "acts": [out1(P_FLOOD), out1(P_IN_PORT), out1(b)]},
                       {"op": "pktout", "in_port": ing, "data": tcp, "acts": [out1(P_FLOOD), out1(a), out1(b), out1(c), out1(P_ALL), out1(P_IN_PORT), {"a": "enqueue", "port": b, "queue": 0}, out1(P_TABLE)]},
                       {"op": "rx", "port": b, "data": udp}, {"op": "stats", "port": b},
                       {"op": "portmod", "port": b, "hw": hwp(b), "config": PC_NO_FWD | PC_NO_RECV, "mask": PC_NO_FWD | PC_NO_RECV},
                       {"op": "pktout", "in_port": ing, "data": tcp, "acts": [out1(P_ALL), out1(b), out1(P_IN_PORT)]}, {"op": "rx", "port": b, "data": udp}, {"op": "rx", "port": c, "data": udp},
                       {"op": "features"}, stats]
                cases.append({"portnos": pn, "ops": ops, "wf": True, "canon": True})
        for pv in (0, 1, 255, 256, 257, 0xfeff, 0xff00, 0xff01, 0xfff7, 0xfff8, 0xfff9, 0xfffa, 0xfffb, 0xfffc, 0xfffd, 0xfffe, 0xffff):
            for ing in (1, 0xfff8, pv):
                cases.append({"ops": [{"op": "pktout", "in_port": ing, "data": udp, "acts": [{"a": "output", "port": pv, "max_len": 10}, out1(3), {"a": "enqueue", "port": pv, "queue": 0}]}, stats],
                              "wf": True, "canon": True})
        # (o) zero and extreme field values (item 3): vid 0 / 4095, pcp 0 / 7, ToS 0, port 0, address 0 — on untagged frames, on a tag that is
        #     all zero, all ones, and on a ToS octet that is all ones
        ips, ipd = bytes([10, 0, 0, 1]), bytes([10, 0, 0, 2])
        seg = lambda: tcp_seg(ips, ipd, 1000, 80, 1, 2, 0, 0x18, 100, 0, b"", b"hello")
        zf = [eth_frame(bytes.fromhex("66778899aabb"), bytes.fromhex("001122334455"), 0x0800, ip_packet(ips, ipd, 6, seg(), tos=0xff), tag)
              for tag in (None, 0, 0xffff, 0xe005)] + \
             [eth_frame(bytes.fromhex("66778899aabb"), bytes.fromhex("001122334455"), 0x0800, ip_packet(ips, ipd, 17, udp_seg(ips, ipd, 0, 0, b"")), None)]
        zeros = [{"a": "set_vlan_vid", "v": 0}, {"a": "set_vlan_vid", "v": 4095}, {"a": "set_vlan_pcp", "v": 0}, {"a": "set_vlan_pcp", "v": 7}, {"a": "set_nw_tos", "v": 0},
                 {"a": "set_nw_tos", "v": 0xfc}, {"a": "set_tp_src", "v": 0}, {"a": "set_tp_dst", "v": 0}, {"a": "set_tp_src", "v": 65535}, {"a": "set_nw_src", "v": 0},
                 {"a": "set_nw_dst", "v": 0}, {"a": "set_dl_src", "v": "000000000000"}, {"a": "set_dl_dst", "v": "000000000000"}]
        for fr in zf:
            for a in zeros:
                cases.append({"ops": [{"op": "pktout", "in_port": 1, "data": fr.hex(), "acts": [a, out1(2), {"a": "output", "port": P_CONTROLLER, "max_len": 0}]}], "wf": True, "canon": True})
        # (p) several messages in ONE read (item 5): port_mod and packet_out in one batch with the port_mod first / in the middle / last,
        #     several packet-outs of different frames, flow_mod and the packet-out that uses it, set_config and the miss it governs,
        #     read-outs between them
        po = lambda fr, acts, ing=1: {"op": "pktout", "in_port": ing, "data": fr, "acts": acts}
        for bit in (PC_NO_FWD, PC_PORT_DOWN, PC_NO_FLOOD):
            on, off = pm(2, bit, True), pm(2, bit, False)
            for seq in ([on, po(tcp, allout), off, po(tcp, allout), stats], [po(tcp, allout), on, po(udp, allout), stats, po(tcp, allout), off],
                        [po(tcp, allout), po(udp, allout), po(tcpv, allout), on], [on, off, on, po(tcp, allout), {"op": "features"}, stats]):
                cases.append({"ops": [{"op": "batch", "ops": seq}, po(tcp, allout), stats], "wf": True, "canon": True})
        cases.append({"ops": [{"op": "batch", "ops": [{"op": "setconfig", "flags": 0, "miss": 9}, {"op": "flow", "in_port": 2, "acts": rewr + [out1(P_FLOOD)]},
                                                      po(tcp, [out1(P_TABLE), out1(3)], 2), po(udp, [out1(P_TABLE)], 3), stats, po(tcp, [out1(P_TABLE)], 2)]},
                              {"op": "rx", "port": 3, "data": udp}, stats], "wf": True, "canon": True})
        # (r) every value of a selector byte with the checksums repaired (item 6): IPv4 protocol 0..255, ICMP type 0..255, IHL 5..15,
        #     TCP data offset 5..15 — a transport rewrite and an address rewrite between two outputs
        sel_acts = [{"a": "set_tp_dst", "v": 7777}, out1(2), {"a": "set_nw_src", "v": 0xc0a80505}, out1(3)]
        mk = lambda pay: eth_frame(bytes.fromhex("66778899aabb"), bytes.fromhex("001122334455"), 0x0800, pay).hex()
        for proto in range(256):
            body = bytes(range(24)) if proto not in (6, 17, 1) else {6: seg(), 17: udp_seg(ips, ipd, 1000, 2000, b"abc"), 1: icmp_msg(8, 0, bytes(8))}[proto]
            c = {"ops": [po(mk(ip_packet(ips, ipd, proto, body)), sel_acts)]}
            if proto in (2, 47): c["oracle_only"] = True          # IGMP / GRE parsers are outside the packet model (and normalise what they parse)
            else: c["wf"] = True; c["canon"] = True
            cases.append(c)
        for t in range(256):
            cases.append({"ops": [po(mk(ip_packet(ips, ipd, 1, icmp_msg(t, 0, bytes(range(12))))), sel_acts)], "wf": True, "canon": True})
        for hl in range(5, 16):
            cases.append({"ops": [po(mk(ip_packet(ips, ipd, 17, udp_seg(ips, ipd, 1000, 2000, b"abc"), options=bytes([1]) * (4 * (hl - 5)))), sel_acts)], "wf": True, "canon": True})
            cases.append({"ops": [po(mk(ip_packet(ips, ipd, 6, tcp_seg(ips, ipd, 1000, 80, 1, 2, 0, 0x18, 100, 0, bytes([1]) * (4 * (hl - 5)), b"hello"))), sel_acts)], "wf": True, "canon": True})
        # (t) checksums at the boundaries of the one's-complement sum (item 6): for every header that carries a checksum, a free 16-bit
        #     field — the rewritten port / address half, or a field of the frame (IP id, TCP window, ICMP sequence, a payload word) —
        #     is steered so that the sum of the EMITTED header / segment needs a second carry fold, folds to exactly 0x10000, 0xffff
        #     (checksum 0: UDP's 0xffff), 0xfffe, or has no low bits left — in big-endian and in little-endian word order
        pseudo = lambda proto, seg: ips + ipd + bytes([0, proto]) + struct.pack("!H", len(seg))
        ethh = lambda pay, tag=None: eth_frame(bytes.fromhex("66778899aabb"), bytes.fromhex("001122334455"), 0x0800, pay, tag).hex()
        o2 = [out1(2), out1(P_CONTROLLER)]
        data9 = bytes(range(1, 10))
        # UDP: the rewritten destination / source port
        useg0 = struct.pack("!HHHH", 1000, 0, 8 + len(data9), 0) + data9
        for v, why in steer(pseudo(17, useg0) + useg0, avoid=UDP_SPECIAL):
            cases.append({"ops": [po(ethh(ip_packet(ips, ipd, 17, udp_seg(ips, ipd, 1000, 2000, data9))), [{"a": "set_tp_dst", "v": v}] + o2)], "why": "udp dport " + why, "wf": True, "canon": True})
        useg0 = struct.pack("!HHHH", 0, 2000, 8 + len(data9), 0) + data9
        for v, why in steer(pseudo(17, useg0) + useg0, avoid=UDP_SPECIAL):
            cases.append({"ops": [po(ethh(ip_packet(ips, ipd, 17, udp_seg(ips, ipd, 7, 2000, data9)), 0x2005), [{"a": "set_tp_src", "v": v}] + o2)], "why": "udp sport " + why, "wf": True, "canon": True})
        # TCP: the rewritten source port; and the window of the frame under a fixed destination-port rewrite
        tseg = lambda sp, dp, win: tcp_seg(ips, ipd, sp, dp, 0x01020304, 0x0a0b0c0d, 0, 0x18, win, 0, b"", b"hello")
        t0 = put16(tseg(0, 80, 8192), 16, 0)
        for v, why in steer(pseudo(6, t0) + t0):
            cases.append({"ops": [po(ethh(ip_packet(ips, ipd, 6, tseg(1000, 80, 8192))), [{"a": "set_tp_src", "v": v}] + o2)], "why": "tcp sport " + why, "wf": True, "canon": True})
        t0 = put16(tseg(1000, 4444, 0), 16, 0)
        for v, why in steer(pseudo(6, t0) + t0):
            cases.append({"ops": [po(ethh(ip_packet(ips, ipd, 6, tseg(1000, 80, v))), [{"a": "set_tp_dst", "v": 4444}] + o2)], "why": "tcp window " + why, "wf": True, "canon": True})
        # IPv4 header: the low half of a rewritten address; and the id of the frame under a ToS rewrite; L4 checksum through the address
        iph = lambda src, dst, proto, n, tos=0, ident=0: put16(ip_packet(src, dst, proto, bytes(n), tos=tos, ident=ident)[:20], 10, 0)
        for v, why in steer(iph(ips, bytes([192, 168, 0, 0]), 17, 8 + len(data9))):
            cases.append({"ops": [po(ethh(ip_packet(ips, ipd, 17, udp_seg(ips, ipd, 1000, 2000, data9))), [{"a": "set_nw_dst", "v": 0xc0a80000 | v}] + o2)], "why": "ip dst " + why, "wf": True, "canon": True})
        for v, why in steer(iph(ips, ipd, 6, 25, tos=0xb8)):
            cases.append({"ops": [po(ethh(ip_packet(ips, ipd, 6, tseg(1000, 80, 8192), ident=v)), [{"a": "set_nw_tos", "v": 0xb8}] + o2), po(ethh(ip_packet(ips, ipd, 6, tseg(1000, 80, 8192), tos=0xb8, ident=v)), o2)],
                          "why": "ip id " + why, "wf": True, "canon": True})
        t0 = put16(tseg(1000, 80, 8192), 16, 0); newsrc = bytes([172, 16, 0, 0])
        for v, why in steer(newsrc + ipd + bytes([0, 6]) + struct.pack("!H", len(t0)) + t0):
            cases.append({"ops": [po(ethh(ip_packet(ips, ipd, 6, tseg(1000, 80, 8192)), 0xe00a), [{"a": "set_nw_src", "v": 0xac100000 | v}] + o2)], "why": "tcp pseudo src " + why, "wf": True, "canon": True})
        # ICMP echo: the sequence number of the frame (the ICMP checksum is recomputed on every emission), plain and with an address rewrite
        for v, why in steer(bytes([8, 0, 0, 0]) + struct.pack("!HH", 0x1234, 0) + data9):
            fr = ethh(ip_packet(ips, ipd, 1, icmp_msg(8, 0, struct.pack("!HH", 0x1234, v) + data9)))
            cases.append({"ops": [po(fr, o2), po(fr, [{"a": "set_nw_src", "v": 0x0a090909}] + o2)], "why": "icmp seq " + why, "wf": True, "canon": True})
        # UDP: a payload word of the frame, plain output (frames whose own checksum already sits at the boundary)
        for v, why in steer(pseudo(17, bytes(18)) + struct.pack("!HHHH", 1000, 2000, 18, 0) + bytes(2) + data9[:8]):
            fr = ethh(ip_packet(ips, ipd, 17, udp_seg(ips, ipd, 1000, 2000, struct.pack("!H", v) + data9[:8])))
            cases.append({"ops": [po(fr, o2), {"op": "flow", "in_port": None, "acts": [out1(P_FLOOD)]}, {"op": "rx", "port": 1, "data": fr}], "why": "udp payload " + why, "wf": True, "canon": True})
        # (u) every kind of IPv4 fragment against every fragment-handling mode (set_config flags 0..3): unfragmented, DF only, first fragment
        #     (MF, offset 0), middle (MF, offset), last (offset only), DF+MF — opaque protocol (no L4 to re-serialise) and UDP, untagged and
        #     tagged, through a flow entry, through a table miss, and without packet_data; only OFPC_FRAG_DROP (1) drops, and only fragments
        fragkinds = (("whole", 0x0000), ("df", 0x4000), ("first", 0x2000), ("middle", 0x2000 | 7), ("last", 0x0000 | 7), ("df+mf", 0x6000), ("last-max", 0x1fff))
        for name, ff in fragkinds:
            for proto, body in ((89, bytes(range(16))), (17, udp_seg(ips, ipd, 1000, 2000, bytes(range(8))))):
                for tag in (None, 0x2003):
                    pkt = ip_packet(ips, ipd, proto, body, flags=ff >> 13, frag=ff & 0x1fff)
                    fr = eth_frame(bytes.fromhex("66778899aabb"), bytes.fromhex("001122334455"), 0x0800, pkt, tag).hex()
                    for mode in (0, 1, 2, 3):
                        cases.append({"ops": [{"op": "setconfig", "flags": mode, "miss": 64}, {"op": "flow", "in_port": 1, "acts": [out1(2), out1(P_IN_PORT)]},
                                              {"op": "rx", "port": 1, "data": fr}, {"op": "rx", "port": 3, "data": fr}, {"op": "rx", "port": 1, "data": fr, "nopd": True},
                                              {"op": "setconfig", "flags": 0, "miss": 64}, {"op": "rx", "port": 1, "data": fr}, stats],
                                      "why": "fragment %s proto %d mode %d" % (name, proto, mode), "canon": True})
        # (u2) the witness of the open finding C12-3, on every run: the FIRST fragment of a UDP / TCP datagram whose L4 length runs past
        #      the fragment, forwarded unchanged by a plain output (packet_out and flow entry)
        big = udp_seg(ips, ipd, 1000, 2000, bytes(range(48)))
        for seg, proto in ((big[:24], 17), (tcp_seg(ips, ipd, 1000, 80, 1, 2, 0, 0x18, 100, 0, b"", bytes(range(44)))[:40], 6)):
            fr = ethh(ip_packet(ips, ipd, proto, seg, flags=1, frag=0))
            cases.append({"ops": [po(fr, [out1(2)])], "why": "first fragment proto %d plain output" % proto, "canon": True})
            cases.append({"ops": [{"op": "flow", "in_port": 1, "acts": [out1(3)]}, {"op": "rx", "port": 1, "data": fr}],
                          "why": "first fragment proto %d flow entry" % proto, "canon": True})
        # (s) a flow_mod whose actions include a type without handler (C13-4: refused with BAD_ACTION/BAD_TYPE and not installed; without the
        #     pre-check: installed, processing stops at that action) — first / middle / last, then traffic, then a good entry behind it
        ven = {"a": "vendor", "v": 7}
        for acts in ([ven, out1(2)], [out1(2), ven, out1(3)], [{"a": "set_vlan_vid", "v": 3}, out1(P_FLOOD), ven], [ven]):
            cases.append({"ops": [{"op": "flow", "in_port": 1, "acts": acts}, {"op": "rx", "port": 1, "data": tcp},
                                  {"op": "pktout", "in_port": 1, "data": udp, "acts": [out1(P_TABLE), out1(3)]},
                                  {"op": "flow", "in_port": None, "acts": [out1(P_FLOOD)]}, {"op": "rx", "port": 1, "data": tcp}, {"op": "rx", "port": 2, "data": udp}, stats],
                          "canon": True})
            cases.append({"ops": [{"op": "batch", "ops": [{"op": "flow", "in_port": 2, "acts": acts}, po(tcp, [out1(P_TABLE)], 2), {"op": "flow", "in_port": 2, "acts": [out1(3)]},
                                                          po(tcp, [out1(P_TABLE)], 2)]}, stats], "canon": True})
        # (f) the witnesses of Properties/C12.lean (`enqueue_d7_defect`, `table_recount_d8_defect`, `vlan_pcp_c121_defect`) replayed on
        #     the implementation: four ports, port 2 NO_FLOOD, port 3 NO_FWD, one entry for in_port 3, a 16-byte frame
        small = "66778899aabb00112233445588b50102"
        setup = [{"op": "portmod", "port": 2, "hw": self.hw(2).hex(), "config": PC_NO_FLOOD, "mask": PC_NO_FLOOD},
                 {"op": "portmod", "port": 3, "hw": self.hw(3).hex(), "config": PC_NO_FWD, "mask": PC_NO_FWD},
                 {"op": "flow", "in_port": 3, "acts": [{"a": "set_vlan_vid", "v": 7}, {"a": "output", "port": P_ALL, "max_len": 0}]}]
        for name, ing, acts in (("enqueue_d7_defect", 1, [{"a": "enqueue", "port": 4, "queue": 0}]),
                                ("table_recount_d8_defect", 3, [{"a": "output", "port": P_TABLE, "max_len": 0}]),
                                ("vlan_pcp_c121_defect", 1, [{"a": "set_vlan_pcp", "v": 9}, {"a": "output", "port": 4, "max_len": 0}])):
            cases.append({"nports": 4, "witness": name, "ops": setup + [{"op": "pktout", "in_port": ing, "data": small, "acts": acts}], "wf": True, "canon": True})
        cases.append({"nports": 4, "witness": "strip_vlan_c122_defect", "canon": True,
                      "ops": setup + [{"op": "pktout", "in_port": 1, "data": "66778899aabb00112233445581000005", "acts": [{"a": "strip_vlan"}, {"a": "output", "port": 4, "max_len": 0}]}]})
        # (x) HARDENING item 3 (falsy is not None): a tag in front of NOTHING, or in front of bytes that are not what the inner ethertype
        #     promises (the parser hangs an unparsed — falsy — header object behind the tag, which packs to its raw bytes): IPv4 with a
        #     wrong version nibble / IHL < 5 / fewer than 20 octets, a truncated ARP body, a single octet — single and double tagged —
        #     against strip_vlan and the set_vlan actions, by packet-out and through a flow entry
        inner = [(0x88b5, b""), (0x88b5, b"\0"), (0x0800, b""), (0x0800, bytes([0x55]) + bytes(range(1, 24))), (0x0800, bytes([0x44]) + bytes(range(1, 24))),
                 (0x0800, bytes([0x45]) + bytes(range(1, 10))), (0x0800, bytes([0x45, 0, 0, 10]) + bytes(range(4, 24))), (0x0806, bytes([0, 1, 8, 0, 6, 4, 0, 1, 9, 9])),
                 (0x0806, b""), (0x8035, bytes(3))]
        hdr = bytes.fromhex("66778899aabb001122334455")
        for et, body in inner:
            for tags in ((0x2005,), (0, ), (0xe00a, 0x0007)):
                fr = hdr + b"".join(struct.pack("!HH", 0x8100, t) for t in tags) + struct.pack("!H", et) + body
                for acts in ([{"a": "strip_vlan"}, out1(2)], [out1(2), {"a": "strip_vlan"}, out1(3), {"a": "set_vlan_vid", "v": 5}, out1(P_FLOOD), {"a": "strip_vlan"}, {"a": "strip_vlan"}, out1(P_IN_PORT)],
                             [{"a": "set_vlan_pcp", "v": 3}, out1(2), {"a": "strip_vlan"}, out1(3)]):
                    cases.append({"ops": [{"op": "pktout", "in_port": 1, "data": fr.hex(), "acts": acts}], "canon": True, "why": "tag before %#x + %d octets" % (et, len(body))})
                    cases.append({"ops": [{"op": "flow", "in_port": None, "acts": acts}, {"op": "rx", "port": 1, "data": fr.hex()}], "canon": True, "why": "tag before %#x + %d octets" % (et, len(body))})
        cases += self.corpus_initports(tcp, tcpv, udp, stp)
        cases += self.corpus_dst_sweep(tcp, udp)
        return cases

    # (v) HARDENING item 16 — the port descriptions the switch STARTS with are an input: every combination of the six handled
    #     config bits (NO_STP alternating) and of the LINK_DOWN state bit — including the ones a port_mod could never produce
    #     (PORT_DOWN with the link up, link down without PORT_DOWN) — on each port, handed to the constructor, to add_port(),
    #     or to add_port() after the same number was deleted with the opposite bits.  The rules apply from the FIRST frame;
    #     a port_mod that re-asserts the same bits (no change) and one that toggles PORT_DOWN follow, with the traffic again.
    def corpus_initports(self, tcp, tcpv, udp, stp):
        out1 = lambda p: {"a": "output", "port": p, "max_len": 64}
        allout = [out1(P_FLOOD), out1(1), out1(2), out1(3), out1(P_ALL), out1(P_IN_PORT)]
        po = lambda ing, fr: {"op": "pktout", "in_port": ing, "data": fr, "acts": allout}
        bits6 = (PC_PORT_DOWN, PC_NO_RECV, PC_NO_RECV_STP, PC_NO_FLOOD, PC_NO_FWD, PC_NO_PACKET_IN)
        cases, k = [], 0
        for combo in range(64):
            c0 = sum(b for i, b in enumerate(bits6) if combo >> i & 1)
            for s in (0, 1):
                for target in (1, 2, 3):
                    for via in ("ctor", "add"):
                        k += 1
                        c = c0 | (PC_NO_STP if k % 3 else 0)
                        init = [{"no": n, "config": PC_NO_STP, "state": 0, "via": "ctor"} for n in (1, 2, 3)]
                        init[target - 1] = {"no": target, "config": c, "state": s, "via": via if k % 8 else "readd"}
                        other = 1 if target != 1 else 2
                        ops = [po(other, tcp), {"op": "flow", "in_port": None, "acts": [out1(P_FLOOD), {"a": "set_nw_tos", "v": 0x20}, out1(P_IN_PORT)]},
                               {"op": "rx", "port": other, "data": udp}, {"op": "rx", "port": target, "data": tcpv}, {"op": "rx", "port": target, "data": stp},
                               {"op": "portmod", "port": target, "hw": self.hw(target).hex(), "config": c, "mask": 0x7f}, po(target, udp), po(other, tcp),
                               {"op": "portmod", "port": target, "hw": self.hw(target).hex(), "config": ~c & PC_PORT_DOWN, "mask": PC_PORT_DOWN}, po(other, tcp),
                               {"op": "link", "port": target, "down": False}, po(other, udp), {"op": "features"}, {"op": "stats", "port": None}]
                        cases.append({"initports": init, "ops": ops, "wf": True, "canon": True, "why": "initial port description %s config %#x state %d" % (via, c, s)})
                        if k % 16 == 5: cases[-1]["twin"] = True
        # all three ports with descriptions of their own (tuple instead of list for the constructor), other port numbers, and a
        # port that joins the running switch between two uses of the same frame (oracle only: the model's port table is fixed)
        import random
        rng = random.Random(1212)
        for i in range(48):
            nos = [1, 2, 3] if i % 3 else rng.choice([[1, 300, 0xfeff], [257, 256, 255], [7, 5, 6]])
            init = [{"no": n, "config": rng.randint(0, 127), "state": rng.randint(0, 1), "via": rng.choice(["ctor", "ctor", "add", "readd"])} for n in nos]
            outs = [out1(P_FLOOD)] + [out1(n) for n in nos] + [out1(P_ALL), out1(P_IN_PORT)]
            ops = [{"op": "pktout", "in_port": ing, "data": tcp, "acts": outs} for ing in nos + [P_NONE]]
            if i % 4 == 0:                          # hardware addresses of their own: a port_mod must name the port's address, not the one
                for d in init:                      # the switch would have generated, nor another port's
                    d["hw"] = rng.choice(["0a0b0c0d0e%02x" % d["no"] if d["no"] < 256 else "0a0b0c0d0e0f", "ffffffffffff", "000000000000", "0180c2000000", self.hw(d["no"] + 1).hex()])
                for d in init:
                    for hwx in (self.hw(d["no"]).hex(), init[0]["hw"], d["hw"]):
                        ops.append({"op": "portmod", "port": d["no"], "hw": hwx, "config": ~d["config"] & 0x7f, "mask": rng.choice([0x7f, PC_PORT_DOWN | PC_NO_FWD, PC_NO_RECV | PC_NO_FLOOD])})
                        ops.append({"op": "pktout", "in_port": P_NONE, "data": udp, "acts": outs})
            ops += [{"op": "flow", "in_port": None, "acts": [out1(P_ALL)]}] + [{"op": "rx", "port": n, "data": fr} for n in nos for fr in (udp, stp)] + [{"op": "features"}, {"op": "stats", "port": None}]
            cases.append({"initports": init, "ports_as": "tuple" if i % 2 else "list", "ops": ops, "wf": True, "canon": True})
            if i % 5 == 0: cases[-1]["twin"] = True
            if i % 6 == 0: cases[-1]["miss0"] = (0, 14, 20, 65535)[i // 6 % 4]
        for combo in range(128):
            c = sum(b for i, b in enumerate(bits6) if combo >> i & 1) | (PC_NO_STP if combo % 3 else 0); s = combo >> 6
            new = {"op": "addport", "no": 4, "config": c, "state": s}
            o4 = [out1(P_FLOOD), out1(4), out1(P_ALL), out1(P_IN_PORT)]
            ops = [{"op": "pktout", "in_port": 1, "data": tcp, "acts": o4}, {"op": "flow", "in_port": None, "acts": [out1(P_FLOOD)]}, {"op": "rx", "port": 2, "data": udp},
                   new, {"op": "pktout", "in_port": 1, "data": tcp, "acts": o4}, {"op": "rx", "port": 2, "data": udp}, {"op": "rx", "port": 4, "data": udp},
                   {"op": "rx", "port": 4, "data": stp}, {"op": "pktout", "in_port": 4, "data": tcp, "acts": o4}, {"op": "features"}, {"op": "stats", "port": None}]
            cases.append({"oracle_only": True, "ops": ops, "canon": True, "why": "port joins a running switch config %#x state %d" % (c, s)})
        return cases

    # (w) "is this an 802.1D spanning-tree frame" is a question about ONE address.  Destination addresses over the whole reserved
    #     block 01:80:c2:00:00:00..0f (pause, LACP, 802.1X, LLDP ...), its neighbours (..:10, ..:1f, the GARP block ..:20/21), every
    #     single-bit neighbour of 01:80:c2:00:00:00, other multicast / broadcast / unicast — against every combination of NO_RECV and
    #     NO_RECV_STP (set in the initial description or by port_mod), through a flow entry and through a table miss, with and
    #     without packet_data; and the protocols' own frame formats (LLC BPDU, LLDP, EAPOL: oracle only — outside the packet model)
    SWEEP_DSTS = ["0180c20000%02x" % i for i in range(16)] + ["0180c2000010", "0180c200001f", "0180c2000020", "0180c2000021", "0180c20000ff", "0180c2000100",
                 "0180c2010000", "0180c2000000", "ffffffffffff", "01005e000001", "333300000001", "01000ccccccd", "01000ccccccc", "66778899aabb", "020000010001",
                 "000000000000", "0180c3000000", "0080c2000000", "0100c2000000"] + \
                 [(int.from_bytes(STP_MAC, "big") ^ (1 << b)).to_bytes(6, "big").hex() for b in range(48)]

    def corpus_dst_sweep(self, tcp, udp):
        out1 = lambda p: {"a": "output", "port": p, "max_len": 64}
        cases = []
        src = bytes.fromhex("001122334455")
        bodies = [lambda d: eth_frame(d, src, 0x88b5, bytes(range(20))), lambda d: d + bytes.fromhex(udp)[6:], lambda d: d + bytes.fromhex(tcp)[6:],
                  lambda d: eth_frame(d, src, 0x8808, bytes([0, 1, 0xff, 0xff]) + bytes(42)),            # 802.3x pause
                  lambda d: eth_frame(d, src, 0x8809, bytes([1, 1]) + bytes(range(40))),                 # slow protocols (LACP)
                  lambda d: eth_frame(d, src, 0x88b5, bytes(range(9)), 0x2005)]
        dsts = self.SWEEP_DSTS
        chunk = 14
        k = 0
        for rc in (0, PC_NO_RECV, PC_NO_RECV_STP, PC_NO_RECV | PC_NO_RECV_STP):
            for extra in (0, PC_NO_FLOOD | PC_NO_FWD):
                for i in range(0, len(dsts), chunk):
                    k += 1
                    c = rc | extra | PC_NO_STP
                    ops = [{"op": "flow", "in_port": 1, "acts": [out1(P_FLOOD), out1(P_IN_PORT)]}]
                    for j, d in enumerate(dsts[i:i + chunk]):
                        fr = bodies[(j + k) % len(bodies)](bytes.fromhex(d)).hex()
                        ops.append({"op": "rx", "port": 1, "data": fr})                  # a flow entry floods it
                        ops.append({"op": "rx", "port": 2, "data": fr})                  # a table miss reports it
                        if (j + k) % 3 == 0: ops[-1]["nopd"] = True
                    ops.append({"op": "stats", "port": None})
                    if k % 2:
                        init = [{"no": 1, "config": c, "state": 0, "via": "ctor"}, {"no": 2, "config": c, "state": 0, "via": "add"}, {"no": 3, "config": PC_NO_STP, "state": 0, "via": "ctor"}]
                        cases.append({"initports": init, "ops": ops, "wf": True, "canon": True})
                    else:
                        cases.append({"ops": self.portmods([c, c, None]) + ops, "wf": True, "canon": True})
        # the protocols that live in the block, in their own frame formats
        bpdu = lambda d: d + src + struct.pack("!H", 38) + bytes([0x42, 0x42, 0x03]) + bytes(35)
        lldp = lambda d: eth_frame(d, src, 0x88cc, bytes([0x02, 0x07, 0x04]) + src + bytes([0x04, 0x02, 0x07, 0x31, 0x06, 0x02, 0x00, 0x78, 0x00, 0x00]))
        eapol = lambda d: eth_frame(d, src, 0x888e, bytes([1, 1, 0, 0]))
        for rc in (0, PC_NO_RECV, PC_NO_RECV_STP, PC_NO_RECV | PC_NO_RECV_STP):
            ops = self.portmods([rc | PC_NO_STP, rc | PC_NO_STP, None]) + [{"op": "flow", "in_port": 1, "acts": [out1(P_FLOOD)]}]
            for mk in (bpdu, lldp, eapol):
                for d in ("0180c2000000", "0180c200000e", "0180c2000003", "0180c2000001", "0180c2000002", "ffffffffffff"):
                    ops.append({"op": "rx", "port": 1, "data": mk(bytes.fromhex(d)).hex()})
                    ops.append({"op": "rx", "port": 2, "data": mk(bytes.fromhex(d)).hex()})
            cases.append({"oracle_only": True, "ops": ops + [{"op": "stats", "port": None}]})
        return cases

    def generate(self, rng, tier):
        import random
        n = 2500 if tier == "quick" else 100000
        for i in range(n):
            r = rng.random()
            canon = r < 0.8
            wild = rng.random() < 0.15
            fr, shape, can, wf = self.g_frame(rng, canon=canon)
            ops = []
            cfgs = [rng.choice([None, PC_NO_STP, rng.randint(0, 127), rng.randint(0, 127), rng.choice([PC_NO_FLOOD, PC_NO_FWD, PC_PORT_DOWN, PC_NO_RECV])]) for _ in range(NPORTS)]
            ops += self.portmods(cfgs)
            if rng.random() < 0.15: ops.append({"op": "link", "port": rng.randint(1, 3), "down": True})
            if rng.random() < 0.15: ops.append({"op": "setconfig", "flags": rng.randint(0, 3), "miss": rng.choice([0, 14, 128, 65535])})
            nact = rng.choice([1, 2, 3, 4, 5, 6, 6, rng.randint(0, 6)])
            mode = rng.choice(["pktout", "pktout", "flow", "both"])
            ing = rng.choice([1, 2, 3, 1, 2, 3, P_NONE, 4])
            if mode in ("flow", "both"):
                for _ in range(rng.choice([1, 1, 2])):
                    ops.append({"op": "flow", "in_port": rng.choice([None, 1, 2, 3]), "acts": self.g_actions(rng, nact, wild, table_ok=False)})
            if mode in ("pktout", "both"):
                ops.append({"op": "pktout", "in_port": ing, "data": fr.hex(), "acts": self.g_actions(rng, nact, wild)})
            if mode in ("flow", "both") or rng.random() < 0.3:
                for _ in range(rng.choice([1, 2])):
                    fr2 = fr if rng.random() < 0.5 else self.g_frame(rng, canon=True)[0]
                    ops.append({"op": "rx", "port": rng.choice([1, 2, 3, 1, 2, 3, 4]), "data": fr2.hex()})
                    if canon and rng.random() < 0.3: ops[-1]["nopd"] = True
            if rng.random() < 0.2:
                ops.append({"op": "portmod", "port": rng.choice([1, 2, 3, 4]), "hw": self.hw(rng.randint(1, 3)).hex() if rng.random() < 0.8 else "0000000000aa",
                            "config": rng.randint(0, 2 ** 32 - 1), "mask": rng.choice([0x7f, 0xffffffff, rng.randint(0, 255), 1 << rng.randint(0, 31)])})
                ops.append({"op": "pktout", "in_port": ing, "data": fr.hex(), "acts": self.g_actions(rng, rng.randint(1, 3), False)})
            r2 = rng.random()
            if r2 < 0.15:                                  # read-outs in between, and the same traffic once more after them
                resend = [copy.deepcopy(o) for o in ops if o["op"] in ("pktout", "rx")]
                ops += [{"op": "stats", "port": rng.choice([None, None, 1, 2, 3])}] + ([{"op": "features"}] if rng.random() < 0.5 else []) + resend + [{"op": "stats", "port": None}]
            elif r2 < 0.27:                                # consecutive controller messages in one read
                out, run = [], []
                for o in ops:
                    if o["op"] in ("portmod", "setconfig", "flow", "pktout"): run.append(o)
                    else:
                        if run: out.append({"op": "batch", "ops": run} if len(run) > 1 else run[0]); run = []
                        out.append(o)
                if run: out.append({"op": "batch", "ops": run} if len(run) > 1 else run[0])
                ops = out
            rgen = random.Random(rng.getrandbits(32))     # (own stream: the draws above stay what they were)
            if rgen.random() < 0.2:                        # received frames addressed into / next to the bridge group block
                for o in ops:
                    if o["op"] == "rx" and rgen.random() < 0.7:
                        d = rgen.choice(self.SWEEP_DSTS) if rgen.random() < 0.5 else "0180c20000%02x" % rgen.randint(0, 0x2f)
                        o["data"] = d + o["data"][12:]
            case = {"ops": ops, "shape": shape}
            if r2 >= 0.27 and r2 < 0.37:                   # port numbers above 256 / next to OFPP_MAX
                case = self.remap(case, {2: 300, 3: 0xfeff} if rng.random() < 0.5 else {1: 257, 2: 256, 3: 0xfeff})
            if rgen.random() < 0.3:                        # the ports START with descriptions of their own (any bits, any state)
                case["initports"] = [{"no": n, "config": rgen.choice([PC_NO_STP, rgen.randint(0, 127), rgen.randint(0, 127), rgen.choice([1, 3, 4, 8, 12, 16, 32, 64])]),
                                      "state": rgen.choice([0, 0, 1]), "via": rgen.choice(["ctor", "ctor", "add", "readd"])} for n in self.portnos(case)]
                case.pop("portnos", None)
                if rgen.random() < 0.5:                    # ... and nothing but those (no port_mod before the first frame)
                    lead = 0
                    while lead < len(case["ops"]) and case["ops"][lead]["op"] == "portmod": lead += 1
                    case["ops"] = case["ops"][lead:] or case["ops"]
            if rng.random() < 0.15: case["bufs"] = rng.choice([0, 1, 2, 3])
            if rgen.random() < 0.12: case["miss0"] = rgen.choice([0, 1, 14, 15, 127, 129, 65535])
            if rgen.random() < 0.1: case["twin"] = True
            if can: case["canon"] = True
            if wf and not wild: case["wf"] = True
            yield case

CHECK = C12
