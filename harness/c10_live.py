"""C10 — live histories: several controller connections with the REAL message handlers (handshake, statistics assembly,
deferred port status), one of which leaves partial state behind in every place the code keeps per-connection state between
messages and then sends malformed bytes / loses its peer.  What the OTHER connections are delivered (events on the nexus
and on the connection, aggregated statistics included) must be what they get when the offender never existed.

A history is a list of steps.  {"c": i, "m": [message specs], "hold": k}: connection i's peer writes the messages; all but
the last k bytes of what it has written so far arrive in one read (the rest stays in flight: a half-received message).
{"c": i, "rx": "eof"|"reset"|"pipe"}: the peer goes away.  Message specs are symbolic ({"k": "barrier"} answers the barrier
request the controller actually sent on that connection; statistics entries are ids)."""
import poxenv

STATS_EVENTS = {"SwitchDescReceived": 0, "FlowStatsReceived": 1, "AggregateFlowStatsReceived": 2, "TableStatsReceived": 3,
                "PortStatsReceived": 4, "QueueStatsReceived": 5}
LISTS = (1, 3, 4, 5)
DEATHS = ("badver", "shortlen", "decraise", "eof", "reset", "badbarrier", "none")


class LiveMixin:
    # ------------------------------------------------------------------ building bytes
    def _entry(self, t, i):
        of = self.of
        if t == 0: return of.ofp_desc_stats(mfr_desc="m%d" % i, hw_desc="h", sw_desc="s", serial_num="n", dp_desc="d")
        if t == 1: return of.ofp_flow_stats(match=of.ofp_match(in_port=1), cookie=i, actions=[of.ofp_action_output(port=2)])
        if t == 2: return of.ofp_aggregate_stats(packet_count=i, byte_count=2, flow_count=3)
        if t == 3: return of.ofp_table_stats(table_id=i & 0xff, name="t%d" % i, wildcards=0, max_entries=5, active_count=1, lookup_count=i, matched_count=0)
        if t == 4: return of.ofp_port_stats(port_no=i & 0x7fff, rx_packets=i)
        return of.ofp_queue_stats(port_no=1, queue_id=i, tx_bytes=4)

    def _entry_hex(self, t, i):
        return self._entry(t, i).pack().hex()

    def _raiser(self):
        """a well-framed message whose decoder raises (found by probing the real decoder table; None if there is none)"""
        if not hasattr(self, "_raiser_cache"):
            of, found = self.of, None
            good = of.ofp_stats_reply(xid=9, type=1, flags=0, body=[self._entry(1, 1)]).pack()
            cands = []
            for v in (0, 1, 4, 7, 0xffff):
                b = bytearray(good); b[12] = v >> 8; b[13] = v & 0xff; cands.append(bytes(b))
            fm = bytearray(of.ofp_flow_removed(xid=9).pack()[:20]); fm[2] = 0; fm[3] = 20; cands.append(bytes(fm))
            for c in cands:
                try: self.of_01.unpackers[c[1]](c, 0)
                except Exception: found = c; break
            self._raiser_cache = found
        return self._raiser_cache

    def _live_bytes(self, spec, sent):
        """the bytes of one symbolic message; `sent` = what the controller has written to this connection so far"""
        of, k = self.of, spec["k"]
        if k == "hello": return of.ofp_hello(xid=spec.get("xid", 1)).pack()
        if k == "features":
            ports = [of.ofp_phy_port(port_no=p, name="p%d" % p, hw_addr=of.EthAddr("00:00:00:00:01:%02x" % (p & 0xff))) for p in spec.get("ports", [])]
            return of.ofp_features_reply(xid=spec.get("xid", 2), datapath_id=spec["dpid"], ports=ports).pack()
        if k == "barrier":
            xid, p = spec.get("xid", 0), 0
            while p + 8 <= len(sent):                      # the last barrier request on the wire
                ln = (sent[p + 2] << 8) | sent[p + 3]
                if ln < 8: break
                if sent[p + 1] == of.OFPT_BARRIER_REQUEST: xid = int.from_bytes(sent[p + 4:p + 8], "big")
                p += ln
            if spec.get("bad"): xid = (xid + 1) & 0xffffffff
            return of.ofp_barrier_reply(xid=xid).pack()
        if k == "status":
            p = spec["no"]
            desc = of.ofp_phy_port(port_no=p, name="p%d" % p, hw_addr=of.EthAddr("00:00:00:00:01:%02x" % (p & 0xff)))
            return of.ofp_port_status(xid=spec.get("xid", 0), reason=spec["reason"], desc=desc).pack()
        if k == "stats":
            t = spec["type"]
            es = [self._entry(t, i) for i in spec["body"]]
            body = es if t in LISTS else es[0]
            return of.ofp_stats_reply(xid=spec["xid"], type=t, flags=1 if spec["more"] else 0, body=body).pack()
        if k == "echo": return of.ofp_echo_request(xid=spec["xid"], body=bytes.fromhex(spec.get("body", ""))).pack()
        if k == "pktin": return of.ofp_packet_in(xid=spec.get("xid", 0), buffer_id=spec.get("buf"), in_port=1, data=bytes.fromhex(spec.get("data", "0102"))).pack()
        if k == "raw": return bytes.fromhex(spec["hex"])
        raise ValueError("message spec %r" % (spec,))

    # ------------------------------------------------------------------ generators
    def _death_steps(self, c, death):
        if death == "badver": return [{"c": c, "m": [{"k": "raw", "hex": "0902000800000001", "trig": "head"}], "hold": 0}]
        if death == "shortlen": return [{"c": c, "m": [{"k": "raw", "hex": "0102000400000001", "trig": "head"}], "hold": 0}]
        if death == "decraise":
            r = self._raiser()
            if r is None: return self._death_steps(c, "badver")
            return [{"c": c, "m": [{"k": "raw", "hex": r.hex(), "trig": "full"}], "hold": 0}]
        if death in ("eof", "reset", "pipe"): return [{"c": c, "rx": death}]
        if death == "badbarrier": return [{"c": c, "m": [{"k": "barrier", "bad": 1}, {"k": "echo", "xid": 77}], "hold": 0}]
        return []

    def _live_case(self, rng, t, death, ophase, xid, holds, off=0, shuffle=False):
        """directed history: the offender leaves partial state everywhere, then dies; the siblings use the same xids and types"""
        sibs = [i for i in range(3) if i != off]
        s1, s2 = sibs
        ids = iter(range(1 + 100 * t, 10 ** 6))
        nx = lambda n=1: [next(ids) for _ in range(n)]
        tl = t if t in LISTS else 1                                  # a list-valued type for the multipart traffic
        def st(c, ty, more, n=1, x=xid): return {"k": "stats", "xid": x, "type": ty, "more": more, "body": nx(n if ty in LISTS else 1)}
        def step(c, m, hold=0): return {"c": c, "m": m, "hold": hold if holds else 0}
        hs_full = lambda c, dpid: [step(c, [{"k": "hello"}]), step(c, [{"k": "features", "dpid": dpid, "ports": [1, 2]}], 3), step(c, []), step(c, [{"k": "barrier"}])]
        A = hs_full(s1, 0x11) + [step(s2, [{"k": "hello"}, {"k": "features", "dpid": 0x12, "ports": [1]}]), step(s2, [{"k": "status", "reason": 0, "no": 7}], 9),
                                 step(s1, [st(s1, tl, True, 2)]), step(s1, [{"k": "echo", "xid": 5}], 5)]
        B = []
        if ophase == "up":
            B += hs_full(off, 0 if xid == 0 else 0x10)
            B += [step(off, [st(off, ty, True, 2) for ty in sorted(set([t, tl, 1, 3, 4, 5]))])]          # partial replies of every type, colliding xid
            B += [step(off, [st(off, tl, True, 1, x) for x in (0, 7, 0xffffffff)] + [{"k": "status", "reason": 0, "no": 9}, {"k": "status", "reason": 1, "no": 2}, {"k": "pktin"}], 11)]
        elif ophase == "hs":
            B += [step(off, [{"k": "hello"}, {"k": "features", "dpid": 0x10, "ports": [1, 2]}]), step(off, [{"k": "status", "reason": 0, "no": 9}, {"k": "status", "reason": 1, "no": 1}, st(off, tl, True, 2)], 6)]
        elif ophase == "hs0":
            B += [step(off, [{"k": "hello"}, {"k": "echo", "xid": 3}], 4)]
        C = [step(s1, [st(s1, tl, True, 1)], 20), step(s2, [st(s2, tl, True, 1), {"k": "status", "reason": 2, "no": 1}])]
        D = self._death_steps(off, death)
        E = [step(s1, [st(s1, tl, False, 1)]), step(s2, [{"k": "barrier"}]), step(s2, [st(s2, t, False, 1)]),
             step(s2, [st(s2, tl, True, 2), st(s2, tl, True, 1, xid ^ 1), st(s2, tl, False, 1)], 13), step(s1, [st(s1, t, False, 1), {"k": "status", "reason": 0, "no": 3}]),
             step(s1, [st(s1, tl, False, 2, xid ^ 1), {"k": "pktin"}], 2), step(off, [{"k": "echo", "xid": 8}, st(off, tl, False, 1)]),
             step(s2, [{"k": "echo", "xid": 6}]), step(s1, []), step(s2, []), step(off, [])]
        steps = A + B + C + D + E
        if shuffle:                                         # random merge that keeps every connection's own order
            per = {i: [s for s in steps if s["c"] == i] for i in range(3)}
            steps = []
            while any(per.values()):
                i = rng.choice([i for i in per if per[i]])
                steps.append(per[i].pop(0))
        return {"side": "ctl", "live": {"n": 3, "off": off, "steps": steps}}

    def _live_corpus(self):
        import random
        rng = random.Random(1010)
        cases, n = [], 0
        for t in (1, 3, 4, 5, 0, 2):
            for death in DEATHS:
                for ophase in ("up", "hs", "hs0"):
                    for xid in (0, 7):
                        n += 1
                        cases.append(self._live_case(rng, t, death, ophase, xid, holds=n % 2, off=n % 3))
        return cases

    def _live_random(self, rng):
        return self._live_case(rng, rng.choice([1, 3, 4, 5, 0, 2]), rng.choice(DEATHS), rng.choice(["up", "up", "hs", "hs0"]),
                               rng.choice([0, 7, 0xffffffff, 0x80000000]), holds=rng.random() < 0.7, off=rng.randrange(3), shuffle=True)

    # ------------------------------------------------------------------ running a history on the real code
    def _live_run(self, live, skip=None):
        of_01, of = self.of_01, self.of
        RSock, RX_ERRNO, cpu_budget, Spin = self._kit        # from c10.py (handed over as a class attribute: no circular import)
        core = poxenv.boot()
        n = live["n"]
        socks = [RSock() for _ in range(n)]
        cons = [None] * n
        events = [[] for _ in range(n)]
        recording = [True]
        def payload(ev):
            out = {}
            for name in ("ofp", "stats"):
                v = getattr(ev, name, None)
                if v is None: continue
                try: out[name] = [x.pack().hex() for x in v] if isinstance(v, list) else [v.pack().hex()]
                except Exception as e: out[name] = "unpackable:" + type(e).__name__
            if hasattr(ev, "dpid"): out["dpid"] = ev.dpid
            if type(ev).__name__ == "RawStatsReply":
                m = ev.ofp
                out["raw"] = [m.xid, m.type, not m.is_last_reply]
            if type(ev).__name__ in STATS_EVENTS:
                v = ev.ofp
                out["xids"] = [x.xid for x in v] if isinstance(v, list) else [v.xid]
            return out
        def on(level):
            def h(ev):
                if not recording[0]: return
                c = getattr(ev, "connection", None)
                for i, x in enumerate(cons):
                    if x is not None and x is c: events[i].append([level, type(ev).__name__, payload(ev)])
            return h
        nexus = core.openflow
        hooks = []
        hn = on("nexus")
        for evc in sorted(nexus._eventMixin_events, key=lambda c: c.__name__):
            hooks.append((nexus, nexus.addListener(evc, hn)))
        task = of_01.OpenFlow_01_Task(port=0, address="127.0.0.1")
        g = task.run()
        alive, spin = [True], [False]
        served = []
        try:
            sel = next(g); served = sel._args[0]
        except StopIteration:
            alive[0] = False
        for i in range(n):
            if i == skip: continue
            cons[i] = of_01.Connection(socks[i])
            hc = on("con")
            for evc in sorted(cons[i]._eventMixin_events, key=lambda c: c.__name__):
                cons[i].addListener(evc, hc)
            served.append(cons[i])
        def feed(i, data):
            if not alive[0] or cons[i] not in served: return
            socks[i].chunks.append(data)
            try:
                with cpu_budget(4.0):
                    g.send(([cons[i]], [], []))
            except StopIteration: alive[0] = False
            except Spin: spin[0] = True; alive[0] = False
        outq = [b""] * n
        try:
            for s in live["steps"]:
                i = s["c"]
                if i == skip: continue
                if "rx" in s:
                    feed(i, b"" if s["rx"] == "eof" else RX_ERRNO[s["rx"]]); continue
                for spec in s["m"]: outq[i] += self._live_bytes(spec, socks[i].sent)
                k = max(0, len(outq[i]) - s.get("hold", 0))
                data, outq[i] = outq[i][:k], outq[i][k:]
                for p in range(0, len(data), 2048): feed(i, data[p:p + 2048])
            res = []
            for i in range(n):
                c = cons[i]
                if c is None: res.append(None); continue
                try: ports = sorted(int(x) for x in c.ports.keys())
                except Exception as e: ports = type(e).__name__
                sent, p, msgs = socks[i].sent, 0, []
                while p + 8 <= len(sent):
                    ln = (sent[p + 2] << 8) | sent[p + 3]
                    if ln < 8: msgs.append("bad:" + sent[p:].hex()); break
                    m = bytearray(sent[p:p + ln])
                    if m[1] not in (of.OFPT_ECHO_REPLY, of.OFPT_ERROR): m[4:8] = b"\0\0\0\0"     # which xid the controller picks is open
                    msgs.append(bytes(m).hex()); p += ln
                res.append({"events": events[i], "served": c in served, "up": c.connect_time is not None, "disc": bool(c.disconnected),
                            "dpid": c.dpid, "ports": ports, "buf": bytes(c.buf).hex(), "sent": msgs,
                            "registered": (nexus.getConnection(c.dpid) is c) if c.dpid is not None else False})
        finally:
            recording[0] = False
            for src, h in hooks:
                try: src.removeListener(h)
                except Exception: pass
            for c in cons:
                if c is not None:
                    try: c.close()
                    except Exception: pass
            if alive[0]:
                core.running = False
                try: g.send(([], [], []))
                except StopIteration: pass
                except BaseException: pass
                finally: core.running = True
        return {"cons": res, "loop_alive": alive[0], "spin": spin[0]}

    def _impl_live(self, case):
        live = case["live"]
        ref = self._live_run(live, skip=live["off"])          # the offender never existed
        run = self._live_run(live)
        if run["spin"] or ref["spin"]: self.spins += 1
        return {"live": True, "run": run, "ref": ref, "status": "spin" if run["spin"] else "alive", "loop_alive": run["loop_alive"]}

    # ------------------------------------------------------------------ what the script says (independent of the code)
    def _live_abstract(self, live):
        """per step, the model inputs that COMPLETE at that step: [connection, input] with input one of
        {"t":"stats",…} {"t":"up"} {"t":"close"} {"t":"other"}; handshake bookkeeping is the script's (DESIGN C13 models it)"""
        n = live["n"]
        written, arrived = [0] * n, [0] * n
        pend = [[] for _ in range(n)]                     # (offset at which the input takes effect, input)
        phase = ["init"] * n                              # init → wait (features seen, barrier outstanding) → up
        hist = []
        for s in live["steps"]:
            i = s["c"]
            if "rx" in s:
                hist.append([i, {"t": "close"}]); continue
            for spec in s["m"]:
                k = spec["k"]
                ln = len(self._live_bytes(spec, b""))
                start = written[i]; written[i] += ln
                inp = {"t": "other"}
                if k == "features" and phase[i] == "init": phase[i] = "wait"
                elif k == "barrier" and phase[i] == "wait":
                    if spec.get("bad"): inp = {"t": "close"}; phase[i] = "dead"
                    else: inp = {"t": "up"}; phase[i] = "up"
                elif k == "stats": inp = {"t": "stats", "xid": spec["xid"], "type": spec["type"], "more": bool(spec["more"]), "body": list(spec["body"])}
                elif k == "raw":
                    inp = {"t": "close"}
                    pend[i].append((start + 8 if spec.get("trig") == "head" else written[i], inp)); continue
                pend[i].append((written[i], inp))
            arrived[i] = max(arrived[i], written[i] - s.get("hold", 0))
            while pend[i] and pend[i][0][0] <= arrived[i]:
                hist.append([i, pend[i].pop(0)[1]])
        return hist

    def _live_ids(self, live):
        ids = {}
        for s in live["steps"]:
            for spec in s.get("m", []):
                if spec["k"] == "stats":
                    for x in spec["body"]: ids[self._entry_hex(spec["type"], x)] = x
        return ids

    def _live_view(self, case, obs):
        """the statistics events each connection was delivered, on the nexus and on the connection: the model's observable"""
        ids = self._live_ids(case["live"])
        out = []
        for c in obs["run"]["cons"]:
            per = {"nexus": [], "con": []}
            for level, name, p in c["events"]:
                if name == "RawStatsReply": per[level].append(["raw"] + [int(p["raw"][0]), int(p["raw"][1]), bool(p["raw"][2])])
                elif name in STATS_EVENTS:
                    st = p.get("stats")
                    per[level].append(["ev", STATS_EVENTS[name], [ids.get(h, h) for h in st] if isinstance(st, list) else st, p.get("xids")])
            out.append(per)
        return out

    # ------------------------------------------------------------------ the property on the implementation
    def _live_oracle(self, case, obs):
        live, run, ref = case["live"], obs["run"], obs["ref"]
        if run["spin"]: return "ctl live: processing does not terminate (CPU budget exceeded)"
        if not run["loop_alive"]: return "ctl live: the I/O loop serving all connections died"
        if ref["spin"] or not ref["loop_alive"]: return "ctl live: the I/O loop died or spun although no malformed byte was sent"
        off = live["off"]
        own = {}
        for s in live["steps"]:
            for spec in s.get("m", []):
                if spec["k"] == "stats":
                    own.setdefault(s["c"], set()).update(self._entry_hex(spec["type"], x) for x in spec["body"])
        for i, (a, b) in enumerate(zip(run["cons"], ref["cons"])):
            if i == off or a is None or b is None: continue
            # nothing a sibling is delivered may be built from bytes of another connection's messages
            for level, name, p in a["events"]:
                st = p.get("stats")
                if isinstance(st, list) and any(h not in own.get(i, ()) for h in st):
                    return "ctl live: a %s event delivered on a sibling connection carries entries that connection never sent" % name
            if a["events"] != b["events"]:
                na, nb = [e[:2] for e in a["events"]], [e[:2] for e in b["events"]]
                if na != nb: return "ctl live: a sibling is delivered different events than when the offender never existed (%d vs %d)" % (len(na), len(nb))
                k = [x != y for x, y in zip(a["events"], b["events"])].index(True)
                return "ctl live: the %s event delivered to a sibling differs from the one it gets when the offender never existed" % a["events"][k][1]
            for f in ("served", "up", "disc", "dpid", "ports", "buf", "registered"):
                if a[f] != b[f]: return "ctl live: sibling connection's %s differs from when the offender never existed" % f
            if a["sent"] != b["sent"]: return "ctl live: what the controller wrote to a sibling differs from when the offender never existed"
        return None
