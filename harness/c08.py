"""C08 — component rendezvous fires each waiter exactly once, exactly when ready; lifecycle events (DESIGN §5 C08).

A case is a *history*: top-level operations on a fresh POXCore plus the behaviour of every piece of user code that the core
calls back (waiter callbacks, `_all_dependencies_met`, handlers of GoingUp/Up/GoingDown/Down), each a list of acts.  The same
history is executed by the real `pox/core.py` (this file) and by the Lean machine `Model/Core.lean` (driver `drv_c08`).
No scheduler thread, no real thread: `threading.Thread` is replaced while a case runs, so the threads `quit()` spawns are
queued and run by the explicit op `tick`; `time.sleep` inside `_quit` lets the (simulated) scheduler process its `quit`."""
import sys, io, gc, re, time, threading, itertools, contextlib, copy
import common
from common import Check

SAFE_NAMES = ["a", "b", "c", "d", "e"]
CORENAMED = {"e", "a_b", "a_x"}      # components whose class is called Other and carries _core_name
FUEL = 200000
RUNAWAY = 300                    # more log events than this in one case: user code stops doing anything, the case fails
CB_KINDS = ["exec", "compiled", "lambda", "partial", "typemethod", "method", "callable", "builtin_raise"]
D31_KINDS = ["exec_bare", "partial_unnamed"]      # callables without __name__ / with __module__ None (repair D31)
BUILTIN_FALSY = {"int0": int, "emptystr": str, "emptytuple": tuple, "emptydict": dict, "emptyfrozenset": frozenset, "float0": float}
OBJECT_FALSY = ["len0", "boolFalse", "emptylist"]
OPAQUE = "<opaque>"               # the one "component" a non-indexable dependency object stands for

class ScriptError(Exception):
    pass

class Runaway(Exception):
    """raised by the harness once a case has made more than TW_LIMIT calls of _try_waiter (a livelock of the code under test)"""

TW_RUN_BUDGET = 3 * 10 ** 6      # _try_waiter calls in one whole run (clean: quick 1.5 * 10**5, thorough about 10**6); beyond it, or after 20
                                 # cases that ran away, the remaining cases are not executed
TW_LIMIT = 1000                  # legitimate cases of the generators stay below 100

class _FakeThread:
    """stands for threading.Thread while a case runs: start() queues the target"""
    queue = None
    def __init__(self, group=None, target=None, name=None, args=(), kwargs=None, daemon=None):
        self.target, self.args, self.kwargs, self.daemon = target, args, kwargs or {}, daemon
    def start(self):
        _FakeThread.queue.append(self)
    def run_now(self):
        self.target(*self.args, **self.kwargs)

class _StubLog:
    """stands for pox.core.log while a case runs; records the `_waiter_notify` warning"""
    def __init__(self, env): self.env = env
    def warn(self, msg, *a):
        m = re.match(r"Still waiting on (\d+) component", str(msg))
        if m: self.env.log.append(["waiting", int(m.group(1))])
    warning = warn
    def debug(self, *a, **k): pass
    info = error = exception = critical = debug
    def isEnabledFor(self, lvl): return False


def fresh(s):
    """an equal but distinct string object (for len >= 2): names reach the core the way run-time data does, not as interned literals"""
    return (s + "_")[:-1] if isinstance(s, str) else s


def enc(o):
    """the line protocol is ASCII: other characters travel as ~hex~ (the model treats characters opaquely except '_')"""
    if isinstance(o, str): return "".join(c if ord(c) < 128 else "~%x~" % ord(c) for c in o)
    if isinstance(o, list): return [enc(x) for x in o]
    if isinstance(o, dict): return {enc(k): enc(v) for k, v in o.items()}
    return o

def dec(o):
    if isinstance(o, str): return re.sub(r"~([0-9a-f]+)~", lambda m: chr(int(m.group(1), 16)), o)
    if isinstance(o, list): return [dec(x) for x in o]
    if isinstance(o, dict): return {dec(k): dec(v) for k, v in o.items()}
    return o


def handler_component(attr):
    """the documented naming rule, written independently of core.py: `_handle_<component>_<Event>`"""
    m = re.match(r"^_handle_(.*)_[^_]*$", attr, re.S)
    return m.group(1) if m else None


class Env:
    """one fresh core + the interpreter of the case's scripts"""
    def __init__(self, chk, case):
        self.chk, self.case = chk, case
        self.runaway = False
        self.log = []                 # events (same vocabulary as the model's log, plus harness-only ones starting with "_")
        self.toks, self.tok_out = [], []
        self.next_id = 0
        self.decls = []               # [id, kind, deps or None, op index]
        self.cb_ids = {}              # id(callback) or id(sink) -> waiter id
        self.keep = []                # keep callbacks alive (ids must stay unique)
        self.sinks = {}
        self.comps = {}
        self.hits = []
        self.evclasses = {}
        self.opi = -1
        self.listen_order = []
        self.probe_errors = []
        self.shared = {}
        self.add_listeners_calls = []  # [component, id(sink), sorted keyword arguments] of every addListeners call
        self.listen_args_given = {}   # waiter id -> the listen_args dict as the caller wrote it
        self.la_written = {}
        self.shared_args = {}         # share key -> (the one container object, its content when the caller made it)
        self.api_exc = []             # [api, waiter id or component, exception class, callback kind] of calls that raised
        self.silent = []              # waiters whose invocation the harness cannot observe (callback None, sink without _all_dependencies_met)
        self.registered = set()       # names for which a register call has been issued (harness bookkeeping, for hasComponent)
        self.violations = []          # property-level observations made inside callbacks / API probes: [key, text]
        self.ctor_args = []
        self.twin = None
        pc = chk.pox_core
        real = chk.recoco.Scheduler
        def quiet_scheduler(*a, **kw):
            kw["startInThread"] = False; kw["threaded_selecthub"] = False
            return real(*a, **kw)
        chk.recoco.Scheduler = quiet_scheduler
        try:
            with contextlib.redirect_stdout(chk.banner_sink):
                if case.get("twin"):
                    self.twin = pc.initialize(threaded_selecthub=False, handle_signals=False)
                self.core = pc.initialize(threaded_selecthub=False, handle_signals=False)   # also sets pox.core.core
        finally:
            chk.recoco.Scheduler = real
        core = self.core
        if self.twin is not None: self._twin_setup()
        self.sched_calls = []
        core.scheduler.callLater = lambda f, *a, **k: self.sched_calls.append((f, a, k))    # simulated scheduler thread
        self.tw_calls = 0
        orig_try = getattr(core, "_try_waiter", None)
        if orig_try is not None:                   # (a refactored core without that method simply runs unguarded)
            def counted_try_waiter(entry):        # pass-through; only counts, so that a livelock ends the case instead of the run
                self.tw_calls += 1
                if self.tw_calls > TW_LIMIT:
                    self.runaway = True
                    raise Runaway()
                return orig_try(entry)
            core._try_waiter = counted_try_waiter
        self.on_registered = dict((k, list(v)) for k, v in case.get("onRegistered", {}).items())
        if self.on_registered:
            core.addListener(pc.ComponentRegistered, self._on_registered)
        core.addListener(pc.GoingUpEvent, self._on_going_up)
        core.addListener(pc.UpEvent, self._on_up)
        core.addListener(pc.GoingDownEvent, self._on_going_down)
        core.addListener(pc.DownEvent, self._on_down)

    # ---- a second, independent core in the same process: nothing done to one may show on the other
    def _twin_setup(self):
        tw = self.twin
        self.twin_log = []
        names = set()
        for a in all_acts(self.case):
            if a["a"] == "register": names.add(a["n"])
            if a["a"] == "declare": names.update(a["deps"])
        for s in self.case["sinks"]:
            names.update(s["explicit"])
        self.twin_names = sorted(names - {"core"})
        for n in self.twin_names:
            tw.call_when_ready(lambda n=n: self.twin_log.append(["fired", n]), [n], name="twin-" + n)
        tw.call_when_ready(lambda: self.twin_log.append(["fired", "zz_twin_never"]), ["zz_twin_never"], name="twin-never")
        for n in self.twin_names:
            tw.register(n, object())
        tw.addListener(self.chk.pox_core.UpEvent, lambda e: self.twin_log.append(["up"]))
        self.twin_tok = tw._get_go_up_deferral()
        tw.goUp()
        self.twin_mark = len(self.twin_log)

    def _twin_check(self):
        """after the main history: the twin saw none of it, and still works"""
        tw, out = self.twin, []
        want = [["fired", n] for n in self.twin_names]
        if self.twin_log[:self.twin_mark] != want: out.append("twin waiters before the main history: %r" % (self.twin_log[:self.twin_mark],))
        if self.twin_log[self.twin_mark:]: out.append("the main history reached the other core: %r" % (self.twin_log[self.twin_mark:],))
        n0 = len(self.twin_log)
        tw.register("zz_twin_never", object())
        self.twin_tok()
        if self.twin_log[n0:] != [["fired", "zz_twin_never"], ["up"]]:
            out.append("the other core afterwards: %r" % (self.twin_log[n0:],))
        for n in list(self.core.components):
            if n != "core" and tw.components.get(n) is self.core.components[n]: out.append("component %r of the main core is registered on the other core" % n)
        if "zz_twin_never" in self.core.components: out.append("the other core's registration shows on the main core")
        return out

    # ---- argument objects: possibly one object handed to several calls; the core must not change or keep the caller's object
    def container(self, ct, names, share=None):
        if share is not None and share in self.shared_args:
            return self.shared_args[share][0]
        import collections
        if ct == "none": arg = None
        elif ct == "str": arg = names[0]
        elif ct in ("opaque", "frozenset"): arg = frozenset(names)
        elif ct == "dictkeys": arg = dict.fromkeys(names).keys()
        elif ct == "deque": arg = collections.deque(names)
        else: arg = {"list": list, "tuple": tuple, "set": set}.get(ct, list)(names)
        if share is not None: self.shared_args[share] = (arg, self.snap(arg))
        return arg

    @staticmethod
    def snap(arg):
        if arg is None or isinstance(arg, str): return arg
        if isinstance(arg, (list, tuple)) or type(arg).__name__ == "deque": return [type(arg).__name__] + list(arg)
        return [type(arg).__name__] + sorted(arg)

    def arg_unchanged(self, api, arg, before):
        if self.snap(arg) != before:
            self.violations.append(["aliasing:caller-argument-modified", "%s changed its caller's components object from %r to %r" % (api, before, self.snap(arg))])

    def _on_registered(self, ev):
        acts = self.on_registered.pop(ev.name, None)       # once per name
        if acts: self.run_script(acts)

    # ---- lifecycle handlers
    def _on_going_up(self, ev):
        self.log.append(["goingUp"])
        self.run_script(self.case["onGoingUp"], going_up_event=ev)
        self.log.append(["_goingUpDone"])
    def _on_up(self, ev):
        self.log.append(["up", sum(self.tok_out)])
        self.run_script(self.case["onUp"])
    def _on_going_down(self, ev):
        self.log.append(["goingDown"])
        self.run_script(self.case["onGoingDown"])
    def _on_down(self, ev):
        self.log.append(["down"])
        self.run_script(self.case["onDown"])

    # ---- components and sinks
    def evclass(self, name):
        if name not in self.evclasses:
            self.evclasses[name] = type(str(name), (self.chk.revent.Event,), {})
        return self.evclasses[name]

    def comp_class(self, name):
        """the class whose single instance is the component `name`; some names go through `_core_name`"""
        if name in self.comps: return self.comps[name][0]
        alias = self.case.get("alias", {}).get(name)           # the same object registered under two names
        if alias is not None:
            self.comp_class(alias)
            self.comps[name] = self.comps[alias]
            return self.comps[name][0]
        env = self
        evs = self.case["events"].get(name)
        falsy = self.case.get("falsy", {}).get(name)       # a component whose truth value is False (empty table, 0, "" ...)
        if falsy in BUILTIN_FALSY and evs is None:
            self.comps[name] = [None, BUILTIN_FALSY[falsy]()]
            return None
        base = self.chk.revent.EventMixin if evs is not None else (list if falsy == "emptylist" else object)
        def __new__(cls, *a, **k):
            inst = env.comps[name][1]
            if inst is None:
                inst = base.__new__(cls)
                env.comps[name][1] = inst
            return inst
        d = {"__new__": __new__, "__init__": lambda self_, *a, **k: env.ctor_args.append([name, list(a), sorted(k.items())]) if (a or k) else None}
        if falsy == "boolFalse": d["__bool__"] = lambda self_: False
        elif falsy is not None and base is not list: d["__len__"] = lambda self_: 0
        if evs is not None:
            d["_eventMixin_events"] = set(self.evclass(e) for e in evs)
            def addListeners(self_, sink, *a, **k):
                kk = dict(k)
                if a: kk["prefix"] = a[0]
                env.add_listeners_calls.append([name, id(sink), kk])
                return base.addListeners(self_, sink, *a, **k)
            d["addListeners"] = addListeners
        if name in CORENAMED or not name.isidentifier():
            d["_core_name"] = name
            cls = type("Other", (base,), d)
        else:
            cls = type(str(name), (base,), d)
        self.comps[name] = [cls, None]
        return cls

    def component(self, name):
        cls = self.comp_class(name)
        return self.comps[name][1] if cls is None else cls()

    def make_sink(self, k, wid):
        s = self.case["sinks"][k]
        env = self
        d = {}
        for attr in s["attrs"]:
            def h(self_, event, _attr=attr):
                env.hits.append([k, _attr, env.probe_comp, type(event).__name__])
            d[attr] = h
        for i, attr in enumerate(s.get("noncallable", [])):          # named like handlers but not callable: they name a component
            d[attr] = (5, "text", None, [attr])[i % 4]               # (dir() is parsed) and are never bound (autoBindEvents)
        if s.get("met") is not None:
            def met(self_):
                if env.fired(wid): env.in_callback(wid, s["met"])
            d["_all_dependencies_met"] = met
        sink = type("Sink%d" % k, (object,), d)()
        self.sinks.setdefault(k, []).append((wid, sink))
        return sink

    # ---- script interpreter
    def fired(self, wid):
        """record a callback invocation; False once the case has run away (then user code does nothing any more)"""
        if len(self.log) > RUNAWAY:
            self.runaway = True
            return False
        self.log.append(["fired", wid, list(self.core.components)])
        return True

    def in_callback(self, wid, body):
        try:
            self.run_script(self.case["bodies"][body])
        except BaseException:
            self.log.append(["failed", wid])
            raise

    def run_script(self, acts, going_up_event=None):
        if self.runaway or len(self.log) > RUNAWAY:
            self.runaway = True
            return
        for a in acts:
            self.do_act(a, going_up_event)

    def do_act(self, a, going_up_event=None):
        """one act; an exception that escapes from register / call_when_ready / listen_to_dependencies themselves is recorded"""
        k = a["a"]
        if k not in ("register", "declare", "listen"):
            return self._do_act(a, going_up_event)
        wid = self.next_id
        try:
            return self._do_act(a, going_up_event)
        except Exception as e:
            self.api_exc.append([k, wid if k != "register" else a["n"], type(e).__name__, a.get("cb", "")])
            raise

    def _do_act(self, a, going_up_event=None):
        core, k = self.core, a["a"]
        if k == "register":
            name, via = fresh(a["n"]), a.get("via", "register")
            self.registered.add(name)
            if self.comp_class(name) is None:             # 0, "", (), {} ...: only register(name, value) can register them
                core.register(name, self.component(name))
            elif via == "registerNew" and a.get("ctor"):
                n0 = len(self.ctor_args)
                core.registerNew(self.comp_class(name), 7, opt=name)
                if self.comps[name][1] is not None and self.ctor_args[n0:] != [[name, [7], [("opt", name)]]]:
                    self.violations.append(["convention:registerNew-ctor-args", "registerNew(cls, 7, opt=%r) constructed with %r" % (name, self.ctor_args[n0:])])
            elif via == "registerNew":
                core.registerNew(self.comp_class(name))
            elif a.get("conv") == "kw":
                core.register(name=name, component=self.component(name))
            elif via == "register1":
                core.register(self.component(name))
            else:
                core.register(name, self.component(name))
        elif k == "declare":
            wid = self.next_id; self.next_id += 1
            deps, ct, body = [fresh(d) for d in a["deps"]], a.get("ctype", "list"), a["body"]
            self.decls.append([wid, "declare:" + ct + ":%d" % len(deps), sorted(set(deps)), self.opi, a.get("cb", "func")])
            arg = self.container(ct, deps, a.get("share"))
            before = self.snap(arg)
            env = self
            kind = a.get("cb", "func")
            if ct in ("opaque", "frozenset", "dictkeys"):   # not indexable: call_when_ready takes the object itself as one name
                self.decls[-1][2] = [OPAQUE]
            def run_cb(*args, **kw):
                if env.fired(wid): env.in_callback(wid, body)
            if a.get("shared") is not None:
                # the SAME callable declared again with equal components: the _waiters tuples are equal (==).  The callable cannot
                # tell which entry it is called for; by symmetry the k-th call is counted for the k-th declaration of the group
                grp = self.shared.setdefault(a["shared"], {"wids": [], "n": 0, "cb": None})
                grp["wids"].append(wid)
                if grp["cb"] is None:
                    def shared_cb(*args, **kw):
                        k = grp["n"]; grp["n"] += 1
                        w = grp["wids"][k] if k < len(grp["wids"]) else -1
                        if env.fired(w): env.in_callback(w, body)
                    grp["cb"] = shared_cb
                core.call_when_ready(grp["cb"], arg)
                self.arg_unchanged("call_when_ready", arg, before)
                return
            if kind == "method":
                class Holder(object):
                    def callback(self_, *args, **kw):
                        if env.fired(wid): env.in_callback(wid, body)
                cb = Holder().callback
            elif kind == "typemethod":                # bound method of a class made with type()
                cb = type("Made%d" % wid, (object,), {"callback": lambda self_, *args, **kw: run_cb()})().callback
            elif kind == "callable":
                class Callable(object):
                    __name__ = None                   # call_when_ready falls back to str(callback)
                    def __call__(self_, *args, **kw):
                        if env.fired(wid): env.in_callback(wid, body)
                cb = Callable()
            elif kind == "lambda":
                cb = lambda *args, **kw: run_cb()
            elif kind in ("exec", "exec_bare", "compiled"):
                # a Python function whose source text inspect cannot find (console input, generated code, .pyc-only install)
                src = "def generated_cb(*args, **kw):\n  if env.fired(wid): env.in_callback(wid, body)\n"
                ns = {"env": env, "wid": wid, "body": body, "__name__": "generated"}
                if kind == "exec_bare": del ns["__name__"]         # then the function's __module__ is None
                if kind != "compiled": exec(src, ns)
                else: exec(compile(src, "/nonexistent/generated_%d.py" % wid, "exec"), ns)
                cb = ns["generated_cb"]
            elif kind in ("partial", "partial_unnamed"):   # a partial has no __name__
                import functools
                cb = functools.partial(run_cb, wid)
            elif kind == "builtin_raise":             # a C function that raises when called; the harness cannot see it being called
                import operator
                cb = operator.truediv
                self.silent.append(wid)
            elif kind == "none":
                cb = None
                self.silent.append(wid)
            else:
                want_kw = {"token": wid} if a.get("with_kw") else {}
                def cb(*args, **kw):
                    if args != tuple(a.get("args", ())) or kw != want_kw:
                        env.violations.append(["convention:args-not-passed-through", "waiter %d called with %r %r, declared with args=%r kw=%r"
                                               % (wid, args, kw, tuple(a.get("args", ())), want_kw)])
                    if env.fired(wid): env.in_callback(wid, body)
            self.keep.append(cb)
            self.cb_ids[id(cb.__func__) if kind in ("method", "typemethod") else id(cb)] = wid
            kwargs = {}
            if a.get("named") or kind in ("none", "partial"): kwargs["name"] = "w%d" % wid
            if kind == "func" and a.get("args"): kwargs["args"] = tuple(a["args"])
            if kind == "func" and a.get("with_kw"): kwargs["kw"] = {"token": wid}
            if kind == "builtin_raise":
                kwargs["args"] = tuple([wid + 1, 0])                  # truediv(wid + 1, 0) -> ZeroDivisionError
                self.keep.append(kwargs["args"]); self.cb_ids[id(kwargs["args"])] = wid
                del self.cb_ids[id(cb)]
            if a.get("conv") == "kw":
                core.call_when_ready(callback=cb, components=arg, **kwargs)
            elif a.get("conv") == "positional" and kind == "func":
                core.call_when_ready(cb, arg, kwargs.get("name"), kwargs.get("args", ()), kwargs.get("kw", {}))
            else:
                core.call_when_ready(cb, arg, **kwargs)
            self.arg_unchanged("call_when_ready", arg, before)
            if a.get("mutate_after") and ct in ("list", "set", "deque"):
                # the caller goes on using its own container: the waiter must keep the components it was declared with
                if a["mutate_after"] == "clear": arg.clear()
                else: (arg.add if ct == "set" else arg.append)("zz_never")
        elif k == "listen":
            wid = self.next_id; self.next_id += 1
            s = self.case["sinks"][a["sink"]]
            sink = self.make_sink(a["sink"], wid)
            self.cb_ids[id(sink)] = wid
            self.listen_order.append([a["sink"], wid])
            if s.get("met") is None: self.silent.append(wid)
            want = set(s["explicit"]) | set(c for c in map(handler_component, s["attrs"] + s.get("noncallable", [])) if c is not None)
            self.decls.append([wid, "listen", sorted(want), self.opi, "sink"])
            ex, ct = s["explicit"], s.get("ctype", "list")
            arg = self.container(ct, [fresh(x) for x in ex], s.get("share"))
            before = self.snap(arg)
            kw = {}
            la, first = s.get("listen_args"), (sorted(want) + ["x"])[0]
            if la == "all": kw["listen_args"] = {None: {"priority": 3}, first: {"weak": False}}
            elif la == "missing": kw["listen_args"] = {"nobody": {"priority": 3}}
            elif la == "per": kw["listen_args"] = {c: {"priority": 10 + i} for i, c in enumerate(sorted(want))}
            elif la == "override": kw["listen_args"] = {None: {"priority": 3, "weak": False}, first: {"priority": 9}}
            elif la == "none-only": kw["listen_args"] = {None: {"priority": 4}}
            if "listen_args" in kw:
                if s.get("la_share") is not None:          # ONE dict handed to several listen_to_dependencies calls
                    kw["listen_args"] = self.shared_args.setdefault("la:" + s["la_share"], (kw["listen_args"], None))[0]
                if id(kw["listen_args"]) not in self.la_written:
                    self.la_written[id(kw["listen_args"])] = (kw["listen_args"], copy.deepcopy(kw["listen_args"]))
                self.listen_args_given[wid] = [id(sink), self.la_written[id(kw["listen_args"])][1]]
            try:
                core.listen_to_dependencies(sink, arg, attrs=s.get("set_attrs", True), short_attrs=s.get("short_attrs", False), **kw)
            finally:
                self.arg_unchanged("listen_to_dependencies", arg, before)
        elif k == "has":
            name = fresh(a["n"])
            got = core.hasComponent(name)
            want = name in self.registered or name == "core"
            try:
                obj = getattr(core, name); attr = "object"
            except AttributeError:
                obj = None; attr = "AttributeError"
            self.log.append(["_has", name, got])
            if got is not want and got != want:
                self.violations.append(["api:hasComponent-wrong", "hasComponent(%r) = %r, registered: %r" % (name, got, want)])
            elif want and (attr != "object" or obj is not (core if name == "core" else self.comps[name][1])):
                self.violations.append(["api:getattr-wrong", "core.%s gives %s" % (name, attr if attr != "object" else "another object")])
            elif not want and attr == "object":
                self.violations.append(["api:getattr-wrong", "core.%s exists but %r was never registered" % (name, name)])
        elif k == "getDeferral":
            d = going_up_event.get_deferral() if going_up_event is not None else core._get_go_up_deferral()
            self.toks.append(d); self.tok_out.append(1)
        elif k == "release":
            i = a["k"]
            if i < len(self.toks):
                was_out = self.tok_out[i]
                self.tok_out[i] = 0                  # the core drops it before stage 2 runs; a second release raises
                try:
                    self.toks[i]()
                except RuntimeError as e:
                    depth, tb = 0, e.__traceback__
                    while tb is not None: depth, tb = depth + 1, tb.tb_next
                    if was_out and depth <= 2 and "already been executed" in str(e):     # raised by this very call, not by user code it ran
                        self.violations.append(["deferral:release-of-outstanding-raised", "deferral %d was outstanding, releasing it raised %s" % (i, e)])
                    raise
                else:
                    if not was_out:
                        self.violations.append(["deferral:second-release-accepted", "deferral %d had been released before; releasing it again did not raise" % i])
        elif k == "quit":
            self.log.append(["_quitCalled"])
            core.quit()
        elif k == "raise":
            raise ScriptError()
        elif k == "goUp":
            core.goUp()
        elif k == "tick":
            pend = list(_FakeThread.queue); del _FakeThread.queue[:]
            for t in pend:
                self.log.append(["_threadRun"])
                try:
                    t.run_now()
                except Exception:
                    self.log.append(["threadDied"])
        else:
            raise ValueError("unknown act %r" % (k,))

    def _sleep(self, dt):
        """time.sleep inside _quit = the scheduler thread gets to run: it processes the queued callLater(scheduler.quit)"""
        calls, self.sched_calls[:] = list(self.sched_calls), []
        for f, a, k in calls:
            f(*a, **k)
        if self.core.scheduler._hasQuit:
            self.core.scheduler._allDone = True

    def wid_of(self, entry):
        cb, name, comps, args, kw = entry
        f = getattr(cb, "__func__", cb)
        if id(f) in self.cb_ids: return self.cb_ids[id(f)]
        if args and id(args[0]) in self.cb_ids: return self.cb_ids[id(args[0])]
        if id(args) in self.cb_ids: return self.cb_ids[id(args)]
        m = re.match(r"^w(\d+)$", str(name))
        return int(m.group(1)) if m else -1

    def run(self):
        pc, chk = self.chk.pox_core, self.chk
        saved = (threading.Thread, time.sleep, gc.collect, pc.log)
        _FakeThread.queue = []
        threading.Thread = _FakeThread
        time.sleep = self._sleep
        gc.collect = lambda *a: 0
        pc.log = _StubLog(self)
        marks, after, op_exc = [], [], []
        try:
            for i, op in enumerate(self.case["ops"]):
                self.opi = i
                exc = None
                try:
                    self.do_act(op)
                except Exception as e:
                    exc = type(e).__name__
                    self.log.append(["opRaised"])
                marks.append(len(self.log)); op_exc.append(exc)
                after.append({"comps": list(self.core.components), "outstanding": sum(self.tok_out)})
            # probe the listener wiring: raise every event of every registered component once
            for name in list(self.core.components):
                comp = self.core.components[name]
                if comp is self.core or not hasattr(comp, "_eventMixin_events"): continue
                self.probe_comp = name
                for e in sorted(comp._eventMixin_events, key=lambda c: c.__name__):
                    try:
                        comp.raiseEvent(e())
                    except Exception as ex:          # e.g. something that is not callable was bound as a listener
                        self.probe_errors.append([name, e.__name__, type(ex).__name__])
            sink_attrs = {}
            for k, lst in self.sinks.items():
                for wid, sink in lst:
                    sink_attrs[str(wid)] = sorted(n for n, v in vars(sink).items()
                                                  if any(v is self.core.components.get(c) for c in self.core.components))
            try:                                   # private representation: compared when readable, never relied upon
                pending = [self.wid_of(e) for e in self.core._waiters]
                internal_out = len(self.core._go_up_deferrals)
            except Exception:
                pending = internal_out = None
            for key, (arg, before) in sorted(self.shared_args.items()):
                if not key.startswith("la:"): self.arg_unchanged("a later call or a fired waiter", arg, before)
            la_changed = ["%r became %r" % (w, d) for d, w in self.la_written.values() if d != w]
            la_wrong = []
            for wid, (sid, la) in sorted(self.listen_args_given.items()):
                for c, sid2, got in self.add_listeners_calls:
                    if sid2 != sid: continue
                    want_kw = dict(la.get(c, {}))                     # documented: listen_args[component] are extra arguments of
                    for k2, v2 in la.get(None, {}).items():           # addListeners(); the entry None is for every component that
                        want_kw.setdefault(k2, v2)                    # does not say otherwise
                    want_kw["prefix"] = c
                    if got != want_kw:
                        la_wrong.append("sink of waiter %d: %s.addListeners called with %r, listen_args %r ask for %r" % (wid, c, got, la, want_kw))
            if self.twin is not None:
                for t in self._twin_check(): self.violations.append(["isolation:two-cores-share-state", t])
        finally:
            threading.Thread, time.sleep, gc.collect, pc.log = saved
        return {"log": self.log, "marks": marks, "after": after, "op_exc": op_exc, "decls": self.decls,
                "comps": list(self.core.components), "pending": pending, "outstanding": internal_out,
                "hits": sorted(self.hits), "sink_attrs": sink_attrs, "listen_order": self.listen_order, "silent": self.silent, "runaway": self.runaway, "api_exc": self.api_exc, "probe_errors": self.probe_errors,
                "violations": self.violations, "la_changed": la_changed, "la_wrong": la_wrong}


def segments(log, marks):
    out, prev = [], 0
    for m in marks:
        out.append(log[prev:m]); prev = m
    return out


def all_acts(case):
    for op in case["ops"]: yield op
    for b in case["bodies"]:
        for a in b: yield a
    for h in ("onGoingUp", "onUp", "onGoingDown", "onDown"):
        for a in case[h]: yield a


def mkcase(ops, bodies=(), sinks=(), events=None, **handlers):
    c = {"ops": list(ops), "bodies": [list(b) for b in bodies], "sinks": list(sinks), "events": events or {},
         "onGoingUp": [], "onUp": [], "onGoingDown": [], "onDown": []}
    c.update(handlers)
    return c

REG = lambda n, via="register": {"a": "register", "n": n, "via": via}
DECL = lambda deps, body, ctype=None, **kw: dict({"a": "declare", "deps": list(deps), "body": body,
                                                  "ctype": ctype or ("set" if not deps else "list")}, **kw)
LISTEN = lambda k: {"a": "listen", "sink": k}
GET, QUIT, RAISE, GOUP, TICK = {"a": "getDeferral"}, {"a": "quit"}, {"a": "raise"}, {"a": "goUp"}, {"a": "tick"}
REL = lambda k: {"a": "release", "k": k}


class C08(Check):
    id = "C08"
    prop_module = "PoxModel.Properties.C08"
    lean_targets = ["drv_c08"]
    driver = "drv_c08"
    theorems = ["Pox.C08.waiter_once", "Pox.C08.waiter_not_early", "Pox.C08.waiter_immediate", "Pox.C08.failure_contained",
                "Pox.C08.callback_failure_local", "Pox.C08.lifecycle", "Pox.C08.lifecycle_up_when_released",
                "Pox.C08.lifecycle_down", "Pox.C08.goUp_delivers", "Pox.C08.failure_does_not_starve", "Pox.C08.rendezvous_never_raises",
                "Pox.C08.fired_snapshot_is_registry", "Pox.C08.quit_goes_down", "Pox.C08.exec_reach", "Pox.C08.driver_reach", "Pox.C08.lifecycle_defect",
                "Pox.C08.handler_names_component", "Pox.C08.handler_binds_event", "Pox.C08.listen_deps_exact", "Pox.C08.wiring_exact",
                "Pox.C08.wiring_once", "Pox.C08.handler_wired",
                "Pox.C08.try_waiters_returns_settled", "Pox.C08.quit_op_goes_down", "Pox.C08.tick_runs_pending_quit",
                "Pox.C08.quit_while_starting_up_is_queued"]
    # name-based anchors, resolved by ast on the current source on every run (robust to line shifts)
    anchors = [("pox/core.py", "POXCore." + m) for m in
               ("quit", "_quit", "goUp", "_get_go_up_deferral", "_goUp_stage2", "_waiter_notify", "hasComponent", "registerNew",
                "register", "call_when_ready", "_try_waiter", "_try_waiters", "listen_to_dependencies", "__getattr__")]
    # pox/boot.py (`if _do_launch(argv): _post_startup(); core.goUp()`) is not executed; translate() checks by ast that it
    # is still the only call of goUp in pox/ (the hypothesis "goUp at most once" of the lifecycle theorems)
    coverage_cases = 10 ** 9        # every case runs under the anchored-line tracer (cheap: only frames of core.py are traced)
    trusted_base = ["model Model/Core.lean hand-written from pox/core.py (small-step machine with an explicit control stack); tied to the code by this correspondence run",
                    "user code (callbacks, _all_dependencies_met, lifecycle handlers) is a parameter of the model: arbitrary, possibly non-terminating programs of acts register/call_when_ready/listen_to_dependencies/get-deferral/release/quit/raise",
                    "threads spawned by quit() are run one after the other by the explicit op `tick` (no interleaving inside _quit; races are C07's subject)",
                    "listener wiring (handler-name parsing, autoBindEvents prefix rule, attribute names) is modelled on character lists with its own theorems; the String<->List Char conversion in the driver is glue"]
    assumptions = ["the model identifies declarations by serial number, i.e. distinct _waiters tuples; the same callable declared again with equal components/args gives EQUAL tuples (interchangeable for `in`/`remove`): those histories are generated too and judged by the property oracle on the real code only (each declaration fires exactly once, when ready)",
                   "no listener of ComponentRegistered re-enters the core",
                   "goUp() is called at most once per history (boot.py:526 is the only caller; translate() re-checks this by ast on every run)",
                   "quit() is never called from the scheduler's own thread in the harness (that path spawns a thread exactly like quit() during start-up, which is exercised)",
                   "dependencies are given as str, set, list, tuple or another indexable sequence; any other object counts as one (never registered) name; after repair D30 an empty list/tuple means no dependencies",
                   "liveness statements (fires exactly once, immediately; Down follows GoingDown) are about operations that return: user code that recurses for ever never returns in Python either",
                   "a component name is never re-bound to a different object inside one case (wiring is probed on the registered object)"]
    design_ref = "DESIGN.md §5 C08, §6 D2, Appendix A.1"
    technique = ("Lean 4 proof: inductive invariants over all reachable states of a small-step machine (explicit control stack, exception flag) "
                 "for every operation history and every callback program + differential correspondence of the compiled machine against a fresh POXCore per case "
                 "+ independent property oracle on the real core's observables")
    level_text = ("Theorems over Model/Core.lean, for all histories, all (even non-terminating) programs of user code and all intermediate states: waiter_once, "
                  "waiter_not_early (+ fired_snapshot_is_registry), waiter_immediate (whenever an operation has returned, a declared waiter has fired exactly once iff its "
                  "dependencies are registered), failure_contained / callback_failure_local / rendezvous_never_raises / failure_does_not_starve, lifecycle (GoingUp, Up, "
                  "GoingDown, Down at most once each, in order, Up only with no deferral outstanding), goUp_delivers + lifecycle_up_when_released (Up exactly once as soon as "
                  "GoingUp is delivered and no deferral is outstanding), lifecycle_down + quit_goes_down; lifecycle_defect: the code before repair D2 raises UpEvent twice. "
                  "Each run re-checks the model against pox/core.py on every interleaving of <=3 registers and <=3 waiters over all dependency subsets, chained/raising "
                  "callbacks, every deferral placement, listen_to_dependencies sinks, quit, and seeded random histories up to 5+5.")
    level_note = ("Trusted: Lean kernel, axioms propext/Classical.choice/Quot.sound, the hand-written model and this harness (fake Thread, stub logger, script interpreter). "
                  "The model follows the code with fixes/D02_core_goup_deferral.diff and fixes/D30_core_call_when_ready_empty.diff applied.")
    rule = ("case = history of top-level ops + scripts of all callbacks/handlers; corpus = every interleaving of ≤3 registers with ≤3 waiters over all dependency subsets, "
            "chained/raising bodies, every placement of ≤2 deferrals' take/release relative to goUp/GoingUp/Up, quit placements, sink families; "
            "non-trivial = some callback fired in an operation other than its own declaration, or a deferral/quit interacted with goUp")

    def setup(self):
        import logging
        logging.disable(logging.CRITICAL)
        import pox.lib.recoco as recoco
        self.recoco = recoco
        self.banner_sink = io.StringIO()
        real = recoco.Scheduler
        def quiet_scheduler(*a, **kw):
            kw["startInThread"] = False; kw["threaded_selecthub"] = False
            return real(*a, **kw)
        recoco.Scheduler = quiet_scheduler          # importing pox.core under pytest-like conditions may initialize a core
        try:
            with contextlib.redirect_stdout(sys.stderr):
                import pox.core
        finally:
            recoco.Scheduler = real
        import pox.lib.revent as revent
        self.pox_core, self.revent = pox.core, revent
        self.ncases = 0
        self.total_tw = 0
        self.runaways = 0
        # Candidate repair fixes/C08-K1_listen_args_not_modified.diff (listen_to_dependencies works on a copy of listen_args).  The oracle
        # clauses about the caller's listen_args dict (unchanged afterwards; one dict handed to several calls) are switched on when the
        # tree under test behaves that way (probe: one call on a throw-away core), or when the finding is in known_findings.json.
        self.la_clause = False
        probe = mkcase([LISTEN(0)], sinks=[{"attrs": [], "explicit": ["a"], "ctype": "list", "met": None, "listen_args": "none-only"}])
        try:
            with contextlib.redirect_stdout(self.banner_sink):
                self.la_repaired = not Env(self, probe).run()["la_changed"]
        except Exception:
            self.la_repaired = False
        self.la_listed = common.Findings().match("C08", "aliasing:caller-listen-args-modified") is not None
        self.la_clause = self.la_repaired or self.la_listed
        self._unreadable = set()      # cases in which the core's private representation could not be read (compared without it)

    def translate(self):
        """static side condition of the lifecycle theorems: exactly one call site of goUp() in pox/, in boot.py after _do_launch"""
        import ast, os
        sites = []
        root = os.path.join(common.REPO, "pox")
        for dp, dn, fn in os.walk(root):
            for f in fn:
                if not f.endswith(".py"): continue
                path = os.path.join(dp, f)
                try:
                    src = open(path, encoding="utf-8", errors="replace").read()
                    if "goUp" not in src: continue
                    tree = ast.parse(src)
                except SyntaxError:
                    continue
                for node in ast.walk(tree):
                    if isinstance(node, ast.Call) and isinstance(node.func, ast.Attribute) and node.func.attr == "goUp":
                        sites.append("%s:%d" % (os.path.relpath(path, common.REPO), node.lineno))
        self.goup_sites = sites
        if len(sites) != 1 or not sites[0].startswith("pox/boot.py:"):
            raise RuntimeError("goUp() call sites changed: %s (the lifecycle theorems assume boot.py calls it once)" % sites)
        return []

    def extra_evidence(self):
        return {"goUp_call_sites": getattr(self, "goup_sites", None),
                "variant_notes": {"listen_args_copied (fixes/C08-K1)": self.la_repaired, "finding_listed": self.la_listed,
                                  "caller_listen_args_clauses_active": self.la_clause}}

    # ------------------------------------------------------------------ generators
    def _exhaustive_rw(self, nr, nw, perm_regs=False):
        """every interleaving of nr registers (a,b,c prefix; all orders if perm_regs) with nw waiters over every dependency subset of {a,b,c}"""
        names = SAFE_NAMES[:3]
        subsets = [[n for j, n in enumerate(names) if m >> j & 1] for m in range(8)]
        regorders = itertools.permutations(names[:nr]) if perm_regs else [tuple(names[:nr])]
        for ro in regorders:
            for pos in itertools.combinations(range(nr + nw), nw):
                for deps in itertools.product(subsets, repeat=nw):
                    ops, ri, wi = [], 0, 0
                    for i in range(nr + nw):
                        if i in pos:
                            ops.append(DECL(deps[wi], 0)); wi += 1
                        else:
                            ops.append(REG(ro[ri])); ri += 1
                    yield mkcase(ops, bodies=[[]])

    BODY_MENU = [[], [RAISE], [REG("c")], [REG("c"), RAISE], [REG("a")], [DECL(["c"], 1)], [DECL(["a"], 1), REG("c")], [REG("c"), REG("b")]]

    def _exhaustive_chained(self, full):
        """2 registers (a,b) + 2 waiters whose bodies register / declare / raise; body 1 = register d (used by nested declares)"""
        names = ["a", "b", "c"]
        subsets = [[n for j, n in enumerate(names) if m >> j & 1] for m in range(8)]
        menu = self.BODY_MENU
        for pos in itertools.combinations(range(4), 2):
            for d0, d1 in itertools.product(subsets if full else subsets[:4] + [["c"], ["a", "c"]], repeat=2):
                for b0, b1 in itertools.product(range(len(menu)), repeat=2):
                    if not full and (b0 + b1 * 3 + len(d0)) % 3: continue
                    bodies = [[], [REG("d")], menu[b0], menu[b1]]
                    ops, regs, wi = [], ["a", "b"], 0
                    for i in range(4):
                        if i in pos:
                            ops.append(DECL((d0, d1)[wi], 2 + wi)); wi += 1
                        else:
                            ops.append(REG(regs.pop(0)))
                    yield mkcase(ops, bodies=bodies)

    def _deferral_cases(self):
        """≤2 deferrals, each taken in slot g and released in slot r ≥ g (or never): slots 0 = before goUp, 1 = GoingUp handler,
        2 = Up handler, 3 and 4 = operations after goUp; plus a waiter on a late component so that _waiter_notify has work"""
        slots = range(5)
        def build(toks, rev):
            per = {s: [] for s in slots}
            for s in slots:
                gets = [GET for (g, r) in toks if g == s]
                per[s] += gets
            # token index = order of the get acts: slot-major, then token order
            order = sorted(range(len(toks)), key=lambda i: (toks[i][0], i))
            index = {t: n for n, t in enumerate(order)}
            for s in slots:
                rels = [REL(index[i]) for i, (g, r) in enumerate(toks) if r == s]
                per[s] += (rels[::-1] if rev else rels)
            ops = [DECL(["z"], 0)] + per[0] + [GOUP] + per[3] + per[4] + [REG("z")]
            return mkcase(ops, bodies=[[]], onGoingUp=per[1], onUp=per[2])
        choices = [(g, r) for g in slots for r in list(range(g, 5)) + [None]]
        for t in choices:
            yield build([t], False)
        for t0 in choices:
            for t1 in choices:
                yield build([t0, t1], False)
                if t0[1] is not None and t0[1] == t1[1]:
                    yield build([t0, t1], True)

    def _quit_cases(self):
        base = [DECL(["a"], 0), REG("a")]
        yield mkcase(base + [GOUP, QUIT], bodies=[[]])
        yield mkcase(base + [GOUP, QUIT, QUIT, TICK], bodies=[[]])
        yield mkcase(base + [QUIT, GOUP, TICK], bodies=[[]])
        yield mkcase(base + [QUIT, TICK, TICK, GOUP, TICK, TICK], bodies=[[]])
        yield mkcase(base + [QUIT, QUIT, GOUP, TICK, QUIT], bodies=[[]])
        yield mkcase([GOUP, QUIT], onGoingDown=[RAISE], onDown=[])
        yield mkcase([GOUP, QUIT], onGoingDown=[REG("a"), QUIT], onDown=[QUIT], bodies=[[]])
        yield mkcase([GOUP, QUIT, REG("a")], onDown=[RAISE])
        yield mkcase([QUIT, GOUP, TICK], onDown=[RAISE])
        yield mkcase([GOUP], onGoingUp=[QUIT])
        yield mkcase([GOUP], onUp=[QUIT])
        yield mkcase([GET, GOUP, QUIT, REL(0)])
        yield mkcase([GET, GOUP, QUIT, REL(0)], onUp=[QUIT], onGoingDown=[REL(0)])
        yield mkcase([DECL(["a"], 0), GOUP, REG("a")], bodies=[[QUIT]])
        yield mkcase([DECL(["a"], 0), REG("a"), GOUP, TICK], bodies=[[QUIT]])
        yield mkcase([GOUP], onGoingUp=[RAISE])
        yield mkcase([GOUP, REL(0), REL(0)], onGoingUp=[GET, RAISE])
        yield mkcase([GOUP, REG("a")], onUp=[RAISE], bodies=[[]])
        yield mkcase([GET, GOUP, DECL(["a"], 0), REG("a"), REG("b")], bodies=[[REL(0)]], onUp=[RAISE])
        yield mkcase([GET, REL(0), REL(0), GOUP])
        yield mkcase([REL(3), GOUP])

    SINKS = [
        {"attrs": ["_handle_a_EvA", "_handle_b_EvB"], "explicit": [], "ctype": "none", "met": 0},
        {"attrs": ["_handle_a_EvA"], "explicit": ["b"], "ctype": "list", "met": None},
        {"attrs": ["_handle_a_b_EvA", "_handle_EvA", "handle_a_EvA", "_handler_a_EvA", "_handle_a_Nope"], "explicit": ["a"], "ctype": "str", "met": 0},
        {"attrs": [], "explicit": [], "ctype": "none", "met": 1},
        {"attrs": ["_handle_a_EvA", "_handle_a_EvB", "_handle_p_EvA"], "explicit": ["a", "p"], "ctype": "set", "met": 1, "short_attrs": True},
        {"attrs": ["_handle_b_EvB"], "explicit": ["core"], "ctype": "tuple", "met": 2, "set_attrs": False},
        {"attrs": ["_handle___", "_handle_a_"], "explicit": [], "ctype": "none", "met": None},
        {"attrs": ["_handle_a_x_y", "_handle_a_EvA"], "explicit": ["a_x"], "ctype": "list", "met": 0},
        {"attrs": ["_handle_a_EvA", "_handle_b_EvB"], "explicit": [], "ctype": "none", "met": 0, "listen_args": "all"},
        {"attrs": ["_handle_a_EvA"], "explicit": [], "ctype": "none", "met": 0, "listen_args": "missing"},
        {"attrs": ["_handle_a_EvA", "_handle_b_EvB"], "explicit": ["a_b"], "ctype": "list", "met": 0, "listen_args": "per"},
        {"attrs": ["_handle_a_EvA", "_handle_b_EvB"], "explicit": [], "ctype": "none", "met": 1, "listen_args": "override"},
        {"attrs": ["_handle_b_EvB", "_handle_a_EvB"], "explicit": ["a_b"], "ctype": "set", "met": 0, "listen_args": "none-only"},
        {"attrs": ["_handle_a_EvA"], "noncallable": ["_handle_b_EvB", "_handle_a_EvB"], "explicit": [], "ctype": "none", "met": 0},
        {"attrs": [], "noncallable": ["_handle_a_EvA", "_handle_p_x", "_handle_b_EvB", "_handle_a_b_EvA"], "explicit": [], "ctype": "none", "met": 1},
    ]
    SINK_EVENTS = {"a": ["EvA", "EvB", "x_y"], "b": ["EvB"], "a_b": ["EvA"], "a_x": ["y"]}     # p: a plain object

    def _sink_cases(self):
        bodies = [[], [REG("b")], [RAISE]]
        regs = [REG("a", "registerNew"), REG("b", "register1"), REG("a_b", "registerNew"), REG("p"), REG("a_x", "register1")]
        for k in range(len(self.SINKS)):
            for pos in range(len(regs) + 1):
                ops = regs[:pos] + [LISTEN(k)] + regs[pos:]
                yield mkcase(ops, bodies=bodies, sinks=self.SINKS, events=self.SINK_EVENTS)
                yield mkcase([GOUP] + ops, bodies=bodies, sinks=self.SINKS, events=self.SINK_EVENTS)
        for perm in itertools.permutations([REG("a"), REG("b"), LISTEN(0), LISTEN(1), LISTEN(4)]):
            yield mkcase(list(perm) + [REG("p"), REG("a")], bodies=bodies, sinks=self.SINKS, events=self.SINK_EVENTS)
        yield mkcase([LISTEN(6), REG("_"), REG("a"), REG("")], bodies=bodies, sinks=self.SINKS, events={"_": ["", "_"], "a": [""]})

    def _misc_cases(self):
        # D30: empty dependency list / tuple (the default argument of call_when_ready is [])
        yield mkcase([DECL([], 0, ctype="list"), REG("a")], bodies=[[]])
        yield mkcase([DECL([], 0, ctype="tuple"), REG("a")], bodies=[[]])
        yield mkcase([REG("a"), DECL([], 0, ctype="list"), DECL(["a"], 0)], bodies=[[]])
        yield mkcase([DECL([], 0, ctype="set"), DECL(["core"], 0, ctype="str"), DECL(["a", "a"], 0, ctype="tuple"), REG("a"), REG("a")], bodies=[[]])
        # the D2 witness of Properties/C08.lean
        yield mkcase([GOUP], onGoingUp=[GET, REL(0)])
        yield mkcase([GET, REL(0), GOUP])
        yield mkcase([GOUP, GET, REL(0)])
        # callback variants: bound method, name given, args passed, deep chain
        yield mkcase([DECL(["a"], 0, cb="method"), DECL(["a"], 0, named=True), DECL(["a"], 0, args=[1, 2]), REG("a")], bodies=[[]])
        yield mkcase([DECL(["a"], 1), REG("a")],
                     bodies=[[], [DECL(["a"], 2), REG("b")], [DECL(["b"], 3), DECL(["b", "c"], 4)], [REG("c"), RAISE], [REG("d")]])
        yield mkcase([DECL(["a"], 1), DECL(["b"], 0), DECL(["a", "b"], 2), REG("a")], bodies=[[], [REG("b"), RAISE], [REL(0), REG("c")]])
        # callback None, callable object without a usable __name__ (raising), deque / non-indexable dependency objects, 'openflow'
        yield mkcase([DECL(["a"], 0, cb="none"), DECL(["a"], 1, cb="callable"), DECL(["a", "b"], 0, ctype="deque"),
                      DECL(["a"], 0, ctype="opaque"), DECL(["openflow"], 0), REG("a"), REG("b"), REG("openflow")], bodies=[[], [RAISE]])
        yield mkcase([REG("a"), DECL(["a"], 0, cb="none"), DECL(["a", "b"], 0, cb="callable", ctype="deque"), REG("b")], bodies=[[REG("c")]])

    def _callback_kind_cases(self):
        """a failing callback is a failing callback: every kind of callable (also ones whose source inspect cannot find), failing
        before / after it registered something, ahead of and behind other waiters that become ready in the same operation;
        declaration first and registration first"""
        for kind in ["func"] + CB_KINDS:
            for bad in ([RAISE], [REG("y"), RAISE]):
                bodies = [[], bad, [REG("z")]]
                ws = [DECL([], 0), DECL(["x"], 1, cb=kind), DECL(["x"], 0), DECL(["x", "y"], 2, cb=kind), DECL(["x", "y"], 0)]
                yield mkcase(ws + [REG("x"), REG("y")], bodies=bodies)
                yield mkcase([ws[2], ws[1], ws[4], ws[3], REG("y"), REG("x")], bodies=bodies)
                yield mkcase([REG("x")] + ws + [REG("y")], bodies=bodies)
                yield mkcase([REG("x"), REG("y")] + ws[1:], bodies=bodies)
                yield mkcase([DECL(["x"], 3), REG("x")], bodies=[[], bad, [], [DECL(["x"], 1, cb=kind), DECL(["x"], 0), REG("y")]])
                yield mkcase([GOUP, DECL(["x"], 1, cb=kind), DECL(["x"], 0), GET, REG("x")], bodies=bodies, onUp=[DECL([], 1, cb=kind, ctype="set")])

    def _d31_cases(self):
        for kind in D31_KINDS:
            yield mkcase([DECL(["x"], 0, cb=kind), REG("x")], bodies=[[]])
            yield mkcase([REG("x"), DECL(["x"], 1, cb=kind), DECL(["x"], 0)], bodies=[[], [RAISE]])
            yield mkcase([DECL(["x"], 1), REG("x")], bodies=[[], [DECL(["x"], 2, cb=kind), REG("y")], [RAISE]])

    def _falsy_cases(self):
        """registered is registered, whatever the truth value of the object: falsy components (an empty table, `__bool__` False,
        0, "", (), {} ...) as the awaited component, as one of several, as event source of a listening sink, registered before
        and after the declaration, and registered by a callback"""
        kinds = OBJECT_FALSY + sorted(BUILTIN_FALSY)
        for kind in kinds:
            f = {"x": kind}
            yield mkcase([DECL(["x"], 0), REG("x")], bodies=[[]], falsy=f)
            yield mkcase([REG("x"), DECL(["x"], 0)], bodies=[[]], falsy=f)
            yield mkcase([DECL(["x", "y"], 0), DECL(["y"], 1), REG("y"), DECL(["x"], 0)], bodies=[[], [REG("x")]], falsy=f)
            yield mkcase([DECL(["y", "x"], 0, ctype="tuple"), REG("x"), REG("y"), REG("x")], bodies=[[]], falsy={"x": kind, "y": kinds[(kinds.index(kind) + 1) % len(kinds)]})
            yield mkcase([GOUP, DECL(["x"], 0), REG("x", "registerNew"), QUIT], bodies=[[]], falsy=f)
        for kind in OBJECT_FALSY:
            f = {"a": kind, "b": OBJECT_FALSY[(OBJECT_FALSY.index(kind) + 1) % 3], "p": "emptydict"}
            for k in (0, 1, 4, 5):
                for pos in range(4):
                    regs = [REG("a", "registerNew"), REG("b", "register1"), REG("p")]
                    yield mkcase(regs[:pos] + [LISTEN(k)] + regs[pos:], bodies=[[], [REG("b")], [RAISE]], sinks=self.SINKS,
                                 events=self.SINK_EVENTS, falsy=f)

    def _shared_callable_cases(self):
        """the same callable declared two or three times with equal components (equal tuples in _waiters): each declaration fires
        exactly once, when ready; also next to other waiters, nested, raising and registering"""
        S = lambda deps, body, g=0, **kw: DECL(deps, body, shared=g, **kw)
        for body in ([], [RAISE], [REG("y")], [REG("y"), RAISE]):
            bodies = [[], body, [S(["y"], 1, g=1), REG("z")]]
            yield mkcase([S(["x"], 1), S(["x"], 1), REG("x")], bodies=bodies)
            yield mkcase([S(["x"], 1), DECL(["x"], 0), S(["x"], 1), S(["x"], 1), REG("x"), REG("y")], bodies=bodies)
            yield mkcase([REG("x"), S(["x"], 1), S(["x"], 1)], bodies=bodies)
            yield mkcase([S(["x", "y"], 1), DECL(["x"], 0), S(["x", "y"], 1), DECL(["y"], 0), REG("y"), REG("x")], bodies=bodies)
            yield mkcase([S(["x"], 1), DECL(["x"], 2), S(["x"], 1), S(["y"], 1, g=1), DECL(["y"], 0), REG("x")], bodies=bodies)
            yield mkcase([S(["y"], 1, g=1), DECL(["x"], 2), DECL(["y"], 0), S(["y"], 1, g=1), REG("x")], bodies=bodies)
            yield mkcase([DECL(["x"], 2), S(["z"], 1), DECL(["z"], 0), S(["z"], 1), REG("x")], bodies=[[], body, [S(["z"], 1), REG("z")]])

    # ---- families added from HARDENING.md
    LONG = {"a": "alpha", "b": "beta", "c": "gamma", "d": "delta", "e": "eps", "x": "xray", "y": "yankee", "z": "zulu"}

    def _renamed(self, case, mapping):
        """the same history over other component names (sink-free cases)"""
        c = copy.deepcopy(case)
        for a in all_acts(c):
            if "n" in a: a["n"] = mapping.get(a["n"], a["n"])
            if "deps" in a: a["deps"] = [mapping.get(d, d) for d in a["deps"]]
        return c

    def _name_cases(self):
        """item 3: names that are run-time strings (never the interned literal), multi-character, non-ASCII, with spaces, digits,
        empty; compared with == / membership, never identity; never normalised"""
        for c in self._exhaustive_rw(3, 2):
            yield self._renamed(c, self.LONG)
        odd = {"a": "k\u00f6ln", "b": "\uff41", "c": "a b", "x": "9x", "y": "", "z": "\u0130stanbul"}
        for i, c in enumerate(self._exhaustive_rw(2, 2)):
            if i % 3 == 0: yield self._renamed(c, odd)
        for i, c in enumerate(self._callback_kind_cases()):
            if i % 4 == 0: yield self._renamed(c, odd)
        ev = {"k\u00f6ln": ["EvA", "\u00c9v"], "\uff41": ["EvA"], "a b": ["EvA"], "9x": ["EvA"]}
        sinks = [{"attrs": ["_handle_k\u00f6ln_EvA", "_handle_k\u00f6ln_\u00c9v", "_handle_\uff41_EvA", "_handle_a b_EvA", "_handle_9x_EvA",
                            "_handle_K\u00d6LN_EvA", "_handle_a_EvA"], "explicit": ["9x"], "ctype": "list", "met": 0}]
        regs = [REG("k\u00f6ln"), REG("\uff41"), REG("a b"), REG("9x"), REG("K\u00d6LN"), REG("a"), REG("A B")]
        for pos in range(len(regs) + 1):
            yield mkcase(regs[:pos] + [LISTEN(0)] + regs[pos:], bodies=[[]], sinks=sinks, events=ev)

    def _probe_cases(self):
        """item 1: the same question asked again after the answer changed (hasComponent / core.<name> before and after register,
        inside callbacks and handlers); item 2: the caller's container mutated after the call, one object under two names"""
        H = lambda n: {"a": "has", "n": n}
        yield mkcase([H("x"), H("core"), DECL(["x"], 1), H("x"), REG("x"), H("x"), H("y"), REG("y"), H("y"), H("x")],
                     bodies=[[], [H("x"), H("y"), REG("y"), H("y")]])
        yield mkcase([H("x"), H("x"), REG("x", "registerNew"), H("x"), REG("x"), H("x"), GOUP, H("x"), QUIT, H("x")], bodies=[[]],
                     onGoingUp=[H("x"), H("z")], onUp=[REG("z"), H("z")])
        yield mkcase([H("x"), REG("y"), H("x"), REG("x"), H("x")], bodies=[[]], falsy={"x": "len0", "y": "int0"})
        for mut in ("append", "clear"):
            for ct in ("list", "set", "deque"):
                yield mkcase([DECL(["x", "y"], 0, ctype=ct, mutate_after=mut), DECL(["x"], 0, ctype=ct, mutate_after=mut),
                              REG("x"), REG("zz_never"), REG("y")], bodies=[[]])
                yield mkcase([REG("x"), DECL(["x", "y"], 1, ctype=ct, mutate_after=mut), REG("y")], bodies=[[], [REG("zz_never")]])
        yield mkcase([DECL(["x"], 0), DECL(["y"], 0), DECL(["x", "y"], 0), REG("x"), H("y"), REG("y")], bodies=[[]], alias={"y": "x"})
        yield mkcase([REG("y"), DECL(["x"], 0), H("x"), REG("x")], bodies=[[]], alias={"y": "x"}, falsy={"x": "len0"})

    def _convention_cases(self):
        """item 4: keyword / positional forms of the three entry points, args= and kw= handed through to the callback,
        constructor arguments of registerNew"""
        for conv in ("kw", "positional", None):
            kw = {"conv": conv} if conv else {}
            yield mkcase([DECL(["x"], 0, with_kw=True, args=[3, 4], **kw), DECL(["x"], 1, named=True, with_kw=True, **kw),
                          DECL(["x", "y"], 0, args=[5], **kw), dict(REG("x"), conv="kw"), dict(REG("y", "registerNew"), ctor=True)],
                         bodies=[[], [RAISE]])
            yield mkcase([dict(REG("x", "registerNew"), ctor=True), DECL(["x"], 0, with_kw=True, **kw), DECL([], 0, ctype="tuple", args=[1], **kw)],
                         bodies=[[]], events={"x": ["EvA"]})

    def _one_pass_cases(self):
        """item 5: several waiters become ready in ONE register; the odd one (raising, registering, declaring, quitting, releasing,
        listening) first, in the middle, last; before and after goUp"""
        sink = {"attrs": ["_handle_x_EvA"], "explicit": [], "ctype": "none", "met": 0}
        odd = [[RAISE], [REG("y"), RAISE], [DECL(["x"], 0), DECL(["y"], 0)], [QUIT], [GET, REL(0), REL(0)], [LISTEN(0)], [REG("x")]]
        for body in odd:
            for pos in range(4):
                ws = [DECL(["x"], 0), DECL(["x"], 0), DECL(["x", "y"], 0)]
                ws.insert(min(pos, 3), DECL(["x"], 1))
                for pre in ([], [GOUP], [GET, GOUP]):
                    yield mkcase(pre + ws + [REG("x"), REG("y")], bodies=[[], body], sinks=[sink], events={"x": ["EvA"]})

    def _registered_listener_cases(self):
        """items 5/7: a listener of ComponentRegistered that registers, declares or raises while `register` is delivering the event:
        the waiters of that register are still tried, `register` does not raise (oracle only: the model has no such listeners)"""
        for acts in ([RAISE], [REG("y")], [REG("y"), RAISE], [DECL(["x"], 0)], [DECL(["y"], 0), REG("y")], [REG("x")]):
            base = [DECL(["x"], 0), DECL(["y"], 0), DECL(["x", "y"], 1)]
            yield mkcase(base + [REG("x"), REG("y")], bodies=[[], [REG("z")]], onRegistered={"x": acts})
            yield mkcase(base + [REG("y"), REG("x"), REG("x")], bodies=[[], [RAISE]], onRegistered={"x": acts, "y": [RAISE]})
            yield mkcase([GOUP] + base + [REG("x", "registerNew"), REG("y")], bodies=[[], []], onRegistered={"x": acts})

    def _handler_shape_cases(self):
        """item 6 (its analogue here): a structure-aware sweep of attribute-name shapes around `_handle_<component>_<Event>`:
        every prefix variant x every tail of 0..3 segments over {a, b, Ev, empty}"""
        ev = {"a": ["Ev", "b_Ev", "", "a"], "b": ["Ev", "a"], "a_b": ["Ev"], "": ["Ev", "a_Ev"], "a_": ["Ev"], "Ev": ["Ev"]}
        regs = [REG(n) for n in ["a", "b", "a_b", "", "a_", "Ev", "_a", "a_a", "b_a", "Ev_a"]]
        segs = ["a", "b", "Ev", ""]
        tails = [[]] + [[x] for x in segs] + [[x, y] for x in segs for y in segs] + [[x, y, z] for x in segs for y in segs for z in segs]
        for pre in ("_handle_", "_handle", "__handle_", "_Handle_", "handle_", "_handle__"):
            for t in tails:
                attr = pre + "_".join(t)
                sink = {"attrs": [attr], "explicit": [], "ctype": "none", "met": 0}
                yield mkcase([LISTEN(0)] + regs, bodies=[[]], sinks=[sink], events=ev)

    def _shared_argument_cases(self):
        """HARDENING items 2 and 4: ONE components object (set / list / tuple / frozenset / dict keys / deque) handed to several
        listen_to_dependencies / call_when_ready calls, with sinks whose handlers name further components: every call waits for
        exactly the names the caller wrote, and the caller's object is the same afterwards"""
        ev = {"a": ["EvA"], "b": ["EvB"], "c": ["EvA"]}
        for ct in ("set", "list", "tuple", "frozenset", "dictkeys", "deque"):
            sinks = [{"attrs": ["_handle_b_EvB"], "explicit": ["a"], "ctype": ct, "met": 0, "share": "s"},        # names b as well
                     {"attrs": [], "explicit": ["a"], "ctype": ct, "met": 0, "share": "s"},                        # only what is in the set
                     {"attrs": ["_handle_c_EvA", "_handle_a_EvA"], "explicit": ["a"], "ctype": ct, "met": 1, "share": "s"},
                     {"attrs": ["_handle_b_EvB"], "explicit": ["a"], "ctype": ct, "met": 0}]                       # unshared control
            dct = ct if ct in ("set", "list", "tuple", "deque") else "set"
            D = lambda body, share="s": DECL(["a"], body, ctype=dct, share=share if dct == ct else "d")
            for regs in ([REG("a"), REG("b"), REG("c")], [REG("b"), REG("a")], [REG("a")], [REG("c"), REG("b"), REG("a")]):
                for calls in ([LISTEN(0), LISTEN(1)], [LISTEN(1), LISTEN(0), LISTEN(2)], [LISTEN(0), D(0), LISTEN(1), D(0)],
                              [D(0), LISTEN(2), D(2)], [LISTEN(3), LISTEN(0)]):
                    yield mkcase(calls + regs, bodies=[[], [REG("c")], [RAISE]], sinks=sinks, events=ev)
                    yield mkcase(regs[:1] + calls + regs[1:], bodies=[[], [REG("c")], [RAISE]], sinks=sinks, events=ev)
                    yield mkcase(calls[:1] + regs + calls[1:], bodies=[[], [REG("c")], [RAISE]], sinks=sinks, events=ev)

    def _three_deferral_cases(self):
        """every order of take/release of THREE deferrals (each taken before it is released; the last release present or missing),
        with goUp at every position: Up exactly when GoingUp is delivered and nothing is outstanding, every release accepted once"""
        def orders(rem):                      # rem: per token 0 = not taken, 1 = taken, 2 = released
            if all(r == 2 for r in rem): yield []; return
            for i, r in enumerate(rem):
                if r < 2:
                    nxt = list(rem); nxt[i] += 1
                    for tail in orders(nxt): yield [(i, r)] + tail
        for seq in orders([0, 0, 0]):
            index, acts = {}, []
            for i, r in seq:
                if r == 0: index[i] = len(index); acts.append(GET)
                else: acts.append(REL(index[i]))
            for variant in (acts, acts[:-1]):
                for g in range(0, len(variant) + 1, 1 if variant is acts else 2):
                    yield mkcase(variant[:g] + [GOUP] + variant[g:] + [DECL(["z"], 0), REG("z")], bodies=[[]])

    def _listen_args_cases(self):
        """the extra arguments for addListeners (listen_args, per component and for all via None) reach addListeners as written,
        for every sink and every order; one listen_args dict handed to two calls"""
        ev = {"a": ["EvA", "EvB"], "b": ["EvB"], "a_b": ["EvA"]}
        regs = [REG("a"), REG("b"), REG("a_b")]
        for k in (8, 9, 12, 13, 14):
            for pos in range(len(regs) + 1):
                yield mkcase(regs[:pos] + [LISTEN(k)] + regs[pos:], bodies=[[], [REG("b")], [RAISE]], sinks=self.SINKS, events=ev)
        for la in ("none-only", "all", "override"):
            sinks = [{"attrs": ["_handle_a_EvA"], "explicit": [], "ctype": "none", "met": 0, "listen_args": la, "la_share": "k"},
                     {"attrs": ["_handle_b_EvB", "_handle_a_EvB"], "explicit": [], "ctype": "none", "met": 0, "listen_args": la, "la_share": "k"}]
            for ops in ([LISTEN(0), LISTEN(1)] + regs, [LISTEN(1), LISTEN(0)] + regs, regs + [LISTEN(0), LISTEN(1)], [LISTEN(0)] + regs + [LISTEN(1)]):
                yield mkcase(ops, bodies=[[]], sinks=sinks, events=ev)

    def _twin_cases(self):
        """item 1: two cores in one process share nothing"""
        picks = list(self._deferral_cases())[::40] + list(self._quit_cases())[::3] + list(self._misc_cases())[4:] + \
                list(self._callback_kind_cases())[::9] + list(self._sink_cases())[::25] + list(self._exhaustive_rw(2, 2))[::16]
        for c in picks:
            c = copy.deepcopy(c); c["twin"] = True
            yield c

    def corpus(self):
        cases = []
        for nr in range(4):
            for nw in range(1, 4):
                cases += list(self._exhaustive_rw(nr, nw))
        cases += list(self._exhaustive_chained(False))
        cases += list(self._deferral_cases())
        cases += list(self._quit_cases())
        cases += list(self._sink_cases())
        cases += list(self._misc_cases())
        cases += list(self._callback_kind_cases())
        cases += list(self._d31_cases())
        cases += list(self._falsy_cases())
        cases += list(self._shared_callable_cases())
        for fam in (self._name_cases, self._probe_cases, self._convention_cases, self._one_pass_cases, self._registered_listener_cases,
                    self._handler_shape_cases, self._twin_cases, self._shared_argument_cases, self._three_deferral_cases, self._listen_args_cases):
            cases += list(fam())
        return cases

    def _random_case(self, rng, big):
        ncomp = rng.randint(1, 5 if big else 3)
        names = SAFE_NAMES[:ncomp]
        nw = rng.randint(1, 5 if big else 3)
        bodies, sinks = [[]], []
        events = {n: rng.sample(["EvA", "EvB"], rng.randint(0, 2)) for n in names if rng.random() < 0.7}
        depth_budget = [rng.randint(0, 6)]
        def deps():
            pool = names + (["core"] if rng.random() < 0.15 else []) + (["zz"] if rng.random() < 0.1 else [])
            return rng.sample(pool, rng.randint(0 if rng.random() < 0.3 else 1, min(len(pool), 3)))
        def new_sink():
            at = []
            for _ in range(rng.randint(0, 3)):
                c = rng.choice(names); at.append("_handle_%s_%s" % (c, rng.choice(["EvA", "EvB", "Nope"])))
            ex = rng.sample(names, rng.randint(0, min(2, len(names))))
            ct = rng.choice(["list", "set", "tuple"] + (["none"] if not ex else []) + (["str"] if len(ex) == 1 else [])) if ex else rng.choice(["none", "set", "list"])
            nc = []
            if rng.random() < 0.25:
                nc = sorted(set("_handle_%s_%s" % (rng.choice(names), rng.choice(["EvA", "EvB", "Nope"])) for _ in range(rng.randint(1, 2))) - set(at))
            sinks.append({"attrs": sorted(set(at)), "noncallable": nc, "explicit": ex, "ctype": ct, "met": None, "set_attrs": rng.random() < 0.8,
                          "short_attrs": rng.random() < 0.2})
            k = len(sinks) - 1
            if rng.random() < 0.25: sinks[k]["listen_args"] = rng.choice(["all", "per", "override", "none-only", "missing"])
            if rng.random() < 0.7:
                sinks[k]["met"] = new_body()
            return k
        def decl_act():
            d = deps()
            ct = "set" if not d else rng.choice(["list", "tuple", "set"] + (["str"] if len(d) == 1 else []))
            a = DECL(d, new_body(), ctype=ct)
            r = rng.random()
            if r < 0.1: a["cb"] = "method"
            elif r < 0.2: a["named"] = True
            elif r < 0.3: a["args"] = [rng.randint(0, 9)]
            elif r < 0.35: a["cb"] = "callable"
            elif r < 0.38: a["cb"] = "none"
            elif r < 0.70: a["cb"] = rng.choice(CB_KINDS + D31_KINDS[:1] if rng.random() < 0.9 else D31_KINDS)          # the kind of callable must not matter, least of all when it fails
            if d and rng.random() < 0.05: a["ctype"] = "deque"
            return a
        def new_body():
            bodies.append(None)
            idx = len(bodies) - 1
            acts = []
            if depth_budget[0] > 0:
                for _ in range(rng.choice([0, 0, 1, 1, 2, 3])):
                    depth_budget[0] -= 1
                    acts.append(inner_act())
            bodies[idx] = acts
            return idx
        def inner_act():
            r = rng.random()
            if r < 0.40: return REG(rng.choice(names), rng.choice(["register", "register", "registerNew", "register1"]))
            if r < 0.55: return decl_act()
            if r < 0.62: return LISTEN(new_sink())
            if r < 0.74: return RAISE
            if r < 0.82: return GET
            if r < 0.92: return REL(rng.randint(0, 3))
            return QUIT
        ops = [REG(n, rng.choice(["register", "register", "registerNew", "register1", "registerNew"])) for n in names if rng.random() < 0.9]
        ops += [decl_act() for _ in range(nw)]
        if rng.random() < 0.08:                  # the same callable declared two or three times with equal components
            d = deps() or [names[0]]
            bodies.append(rng.choice([[], [RAISE], [REG(rng.choice(names))], [REG(rng.choice(names)), RAISE]]))
            for _ in range(rng.randint(2, 3)): ops.append(DECL(d, len(bodies) - 1, shared=0))
        for _ in range(rng.randint(0, 2)): ops.append(LISTEN(new_sink()))
        for _ in range(rng.choice([0, 0, 1, 2])): ops.append(GET)
        for _ in range(rng.choice([0, 0, 1, 2, 3])): ops.append(REL(rng.randint(0, 3)))
        for _ in range(rng.choice([0, 0, 0, 1, 2])): ops.append(QUIT)
        for _ in range(rng.choice([0, 0, 1, 2])): ops.append(TICK)
        if rng.random() < 0.2: ops.append(REG(rng.choice(names)))
        rng.shuffle(ops)
        if rng.random() < 0.75:
            ops.insert(rng.randint(0, len(ops)), GOUP)
        hs = {}
        for h in ("onGoingUp", "onUp", "onGoingDown", "onDown"):
            acts = []
            if rng.random() < 0.35:
                depth_budget[0] += 2
                for _ in range(rng.randint(1, 3)):
                    a = inner_act()
                    if a is RAISE and rng.random() < 0.7: a = GET
                    acts.append(a)
            hs[h] = acts
        extra = {}
        if rng.random() < 0.35:                 # multi-character names (distinct string objects at run time)
            m = {n: self.LONG[n] for n in names}
            names_l = [m[n] for n in names]
        else:
            m = None
        if rng.random() < 0.1: extra["twin"] = True
        for a in ops + [x for b in bodies for x in b]:
            if a["a"] == "declare" and a.get("ctype") in ("list", "set") and a["deps"] and rng.random() < 0.15:
                a["mutate_after"] = rng.choice(["append", "clear"])
            if a["a"] == "declare" and a.get("cb", "func") == "func" and not a.get("args") and rng.random() < 0.15:
                a["with_kw"] = True; a["conv"] = rng.choice(["kw", "positional", None])
            if a["a"] == "register" and a["via"] == "register" and rng.random() < 0.1: a["conv"] = "kw"
        if rng.random() < 0.12 and len(names) >= 1:      # one container object handed to two or three calls
            d = rng.sample(names, rng.randint(1, min(2, len(names))))
            ct = rng.choice(["set", "list", "tuple", "deque"])
            for _ in range(rng.randint(1, 2)):
                ops.insert(rng.randint(0, len(ops)), DECL(d, 0, ctype=ct, share="r"))
            for _ in range(rng.randint(1, 2)):
                at = sorted(set("_handle_%s_%s" % (rng.choice(names), rng.choice(["EvA", "EvB"])) for _ in range(rng.randint(0, 2))))
                sinks.append({"attrs": at, "explicit": d, "ctype": ct, "met": 0, "share": "r", "set_attrs": True, "short_attrs": False})
                ops.insert(rng.randint(0, len(ops)), LISTEN(len(sinks) - 1))
        for _ in range(rng.choice([0, 0, 1, 3])):
            ops.insert(rng.randint(0, len(ops)), {"a": "has", "n": rng.choice(names + ["zz"])})
        falsy = {}
        for n in names:
            if rng.random() < 0.3:
                falsy[n] = rng.choice(OBJECT_FALSY + (sorted(BUILTIN_FALSY) if n not in events else []))
        case = mkcase(ops, bodies=bodies, sinks=sinks, events=events, falsy=falsy, **dict(hs, **extra))
        if m is not None and not sinks:
            case = self._renamed(case, m)
            case["events"] = {m.get(k, k): v for k, v in case["events"].items()}
            case["falsy"] = {m.get(k, k): v for k, v in case["falsy"].items()}
        return case

    def generate(self, rng, tier):
        n = 1200 if tier == "quick" else 60000
        for i in range(n):
            yield self._random_case(rng, big=(i % 3 != 0))
        if tier == "thorough":
            for c in self._exhaustive_rw(3, 3, perm_regs=True): yield c
            for c in self._exhaustive_chained(True): yield c

    def search_cases(self, rng, tier):
        for c in self.corpus(): yield c
        for c in self.generate(rng, "thorough"): yield c

    # ------------------------------------------------------------------ implementation / model
    def impl(self, case):
        self.ncases += 1
        if self.ncases % 100 == 0:
            gc.collect(1)                     # fresh cores hold a pipe pair each until collected; young generations only, the
            self.banner_sink.seek(0); self.banner_sink.truncate()      # retained results are not rescanned
        if self.total_tw > TW_RUN_BUDGET or self.runaways >= 20:  # budget counted in steps of the code under test, not in seconds
            return {"abandoned": True}
        with contextlib.redirect_stdout(self.banner_sink):      # banner, autoBindEvents warnings
            env = Env(self, case)
            r = env.run()
        self.total_tw += env.tw_calls
        if r.get("runaway"): self.runaways += 1
        if r.get("pending") is None: self._unreadable.add(id(case))
        return r

    def model_request(self, case):
        if any(a.get("shared") is not None for a in all_acts(case)) or case.get("onRegistered"):
            return None        # equal _waiters tuples: the model identifies declarations by serial number; these cases are judged by the oracle
        nb = len(case["bodies"])              # body nb: the empty body of `callback=None` waiters; nb+1: a C function that raises
        keep = lambda acts: [act(a) for a in acts if a["a"] != "has"]        # hasComponent/getattr probes have no effect
        def act(a):
            r = {k: v for k, v in a.items() if k in ("a", "n", "deps", "body", "sink", "k")}
            if a["a"] == "declare":
                if a.get("cb") == "none": r["body"] = nb
                if a.get("cb") == "builtin_raise": r["body"] = nb + 1
                if a.get("ctype") in ("opaque", "frozenset", "dictkeys"): r["deps"] = [OPAQUE]
            return r
        return enc({"repaired": True, "fuel": FUEL,
                "bodies": [keep(b) for b in case["bodies"]] + [[], [{"a": "raise"}]],
                "onGoingUp": keep(case["onGoingUp"]), "onUp": keep(case["onUp"]),
                "onGoingDown": keep(case["onGoingDown"]), "onDown": keep(case["onDown"]),
                "sinks": [{"attrs": s["attrs"], "noncallable": s.get("noncallable", []), "explicit": s["explicit"], "met": s.get("met"),
                           "set_attrs": bool(s.get("set_attrs", True)), "short_attrs": bool(s.get("short_attrs", False))} for s in case["sinks"]],
                "events": [[c, evs] for c, evs in sorted(case["events"].items())],
                "ops": [act(a) if a["a"] != "has" else {"a": "release", "k": 10 ** 6} for a in case["ops"]]})

    def impl_view(self, case, obs):
        if obs.get("abandoned"): return obs
        segs = segments(obs["log"], obs["marks"])
        # ("waiting": the text of a log warning — outside the property, a reworded message must not break the tie: not compared)
        segs = [[e for e in s if not e[0].startswith("_") and e[0] != "waiting"] for s in segs]

        wired = {}
        for k, attr, comp, ev in obs["hits"]:
            wired.setdefault(str(k), []).append([attr, comp, ev])
        return {"segs": segs, "comps": obs["comps"], "pending": obs["pending"], "outstanding": obs["outstanding"],
                "wired": {k: sorted(v) for k, v in wired.items()},
                "sink_attrs": {k: v for k, v in obs["sink_attrs"].items() if v}}

    def model_obs(self, case, resp):
        if "error" in resp: return resp
        resp = dec(resp)
        if id(case) in self._unreadable: resp = dict(resp, pending=None, outstanding=None)
        silent = set(s["id"] for s in resp["sinks"] if case["sinks"][s["sink"]].get("met") is None)
        silent |= set(i for i, b in resp["decls"] if b in (len(case["bodies"]), len(case["bodies"]) + 1))
        segs = segments(resp["log"], resp["marks"])
        segs = [[e for e in s if not (e[0] in ("fired", "failed") and e[1] in silent) and e[0] != "waiting"] for s in segs]
        wired = {}
        for s in resp["sinks"]:
            for b in s["bound"]:
                wired.setdefault(str(s["sink"]), []).append(b)
        return {"segs": segs, "comps": resp["comps"], "pending": resp["pending"], "outstanding": resp["outstanding"],
                "wired": {k: sorted(v) for k, v in wired.items()},
                "sink_attrs": {str(s["id"]): sorted(set(s["attrs"])) for s in resp["sinks"] if s["attrs"]}}

    # ------------------------------------------------------------------ the property itself, on the real core's observables
    def oracle(self, case, obs):
        if obs.get("abandoned"):
            return "runaway:run-abandoned | the run had already made more than %d _try_waiter calls or 20 cases had run away; this case was not executed" % TW_RUN_BUDGET
        log, marks = obs["log"], obs["marks"]
        decls = {d[0]: d for d in obs["decls"]}
        ops = case["ops"]
        if obs["runaway"]:
            twice = [e[1] for e in log if e[0] == "fired"]
            return "runaway:%s | more than %d events or %d _try_waiter calls in one history" % (
                "callback-reinvoked" if len(twice) != len(set(twice)) else "events", RUNAWAY, TW_LIMIT)
        for key, text in obs["violations"]:
            return "%s | %s" % (key, text)
        # ---- D30: an empty list / tuple of dependencies (checked first: the TypeError variant poisons every later register)
        early_fired = set(e[1] for e in log if e[0] == "fired")
        for api, who, exc, cbkind in obs["api_exc"]:
            if api == "declare" and cbkind in D31_KINDS and exc in ("TypeError", "AttributeError"):
                return "call_when_ready:callback-without-name-or-module | waiter %s (%s callback) rejected: call_when_ready raised %s" % (who, cbkind, exc)
        for wid, kind, deps, opi, cbkind in obs["decls"]:
            m = re.match(r"declare:(list|tuple):0$", kind)
            if m and wid not in obs["silent"]:
                end = marks[opi] if opi < len(marks) else len(log)
                if not any(e[0] == "fired" and e[1] == wid for e in log[:end]):
                    return "call_when_ready:empty-%s | waiter %d declared with an empty %s is not called (op raised: %s)" % (
                        m.group(1), wid, m.group(1), obs["op_exc"][opi] if opi < len(obs["op_exc"]) else None)
        # which op does log position p belong to
        def op_of(p):
            for i, m in enumerate(marks):
                if p < m: return i
            return len(marks)
        # ---- rendezvous
        fired_at = {}
        for p, e in enumerate(log):
            if e[0] == "fired":
                wid = e[1]
                if wid in fired_at:
                    return "waiter:fired-twice | waiter %d called again in op %d" % (wid, op_of(p))
                fired_at[wid] = p
                if wid not in decls:
                    return "waiter:fired-undeclared | %d" % wid
                missing = [d for d in decls[wid][2] if d not in e[2]]
                if missing:
                    return "waiter:fired-early | waiter %d called without %s registered" % (wid, ",".join(missing))
        silent = set(obs["silent"])
        for api, who, exc, cbkind in obs["api_exc"]:
            return "contain:%s-raised:%s | %s(%s) raised %s to its caller" % (api, exc, api, who, exc)
        for i, op in enumerate(ops):
            if obs["op_exc"][i] is not None and op["a"] in ("register", "declare", "listen"):
                return "contain:%s-raised:%s | %s raised %s to its caller" % (op["a"], obs["op_exc"][i], op["a"], obs["op_exc"][i])
            comps = set(obs["after"][i]["comps"])
            for wid, d in decls.items():
                if d[3] > i or wid in silent: continue
                is_ready = all(x in comps for x in d[2])
                has_fired = wid in fired_at and fired_at[wid] < marks[i]
                if is_ready and not has_fired:
                    return "waiter:not-fired | waiter %d (%s) ready after op %d (%s) but never called" % (wid, d[1], i, op["a"])
                if has_fired and not is_ready:
                    return "waiter:fired-early | waiter %d" % wid
        # ---- lifecycle
        def positions(name): return [p for p, e in enumerate(log) if e[0] == name]
        gu, up, gd, dn, gud = positions("goingUp"), positions("up"), positions("goingDown"), positions("down"), positions("_goingUpDone")
        ngoup = sum(1 for o in ops if o["a"] == "goUp")
        if len(gu) > ngoup: return "lifecycle:GoingUpEvent-without-goUp | GoingUpEvent raised more often than goUp was called"
        if ngoup <= 1:
            if up and (not gud or up[0] < gud[0]):
                return "lifecycle:UpEvent-before-GoingUp-delivered | UpEvent raised before the delivery of GoingUpEvent had finished"
            if len(up) > 1: return "lifecycle:UpEvent-twice | UpEvent raised %d times" % len(up)
            if len(gd) > 1: return "lifecycle:GoingDownEvent-twice | GoingDownEvent raised %d times" % len(gd)
            if len(dn) > 1: return "lifecycle:DownEvent-twice | DownEvent raised %d times" % len(dn)
            for p in up:
                if log[p][1] != 0: return "lifecycle:UpEvent-with-deferral-outstanding | UpEvent raised with %d deferral(s) outstanding" % log[p][1]
            if gd and (not gu or gd[0] < gu[0]): return "lifecycle:GoingDown-before-GoingUp | GoingDownEvent before GoingUpEvent"
            if dn and (not gd or dn[0] < gd[0]): return "lifecycle:Down-before-GoingDown | DownEvent before GoingDownEvent"
            if gud:
                gi = op_of(gud[0])
                for i in range(gi, len(ops)):
                    if obs["after"][i]["outstanding"] == 0 and not (up and up[0] < marks[i]):
                        if obs["op_exc"][gi] is None:
                            return "lifecycle:UpEvent-missing | no deferral outstanding after op %d" % i
            for p, e in enumerate(log):
                if e[0] in ("_quitCalled", "_threadRun") and gu and gu[0] < p:
                    end = marks[op_of(p)] if op_of(p) < len(marks) else len(log)
                    if not (gd and gd[0] < end): return "lifecycle:GoingDown-missing-after-quit | quit ran after start-up but GoingDownEvent was not raised in that operation"
            for p in gd:
                end = marks[op_of(p)] if op_of(p) < len(marks) else len(log)
                if not (dn and p < dn[0] < end): return "lifecycle:Down-missing-after-GoingDown | GoingDownEvent not followed by DownEvent in the same operation"
        # ---- wiring of listen_to_dependencies
        for t in obs["la_wrong"]:
            if self.la_clause or not any(s.get("la_share") is not None for s in case["sinks"]):
                return "wiring:listen-args-not-handed-through | " + t
        for t in obs["la_changed"]:
            if self.la_clause:
                return "aliasing:caller-listen-args-modified | listen_to_dependencies changed its caller's listen_args: " + t
        for name, ev, exc in obs["probe_errors"]:
            return "wiring:listener-raised:%s | raising %s on component %s made a bound listener raise %s" % (exc, ev, name, exc)
        final = set(obs["comps"])
        counts = {}
        for k, attr, comp, ev in obs["hits"]:
            counts[(k, attr, comp, ev)] = counts.get((k, attr, comp, ev), 0) + 1
        listens = self._listen_ids(case, obs)
        for k, ids in listens.items():
            if len(ids) != 1: continue
            d = decls[ids[0]]
            s = case["sinks"][k]
            is_ready = all(x in final for x in d[2])
            for (kk, attr, comp, ev), n in counts.items():
                if kk != k: continue
                if n > 1: return "wiring:handler-bound-twice | sink %d %s" % (k, attr)
                if not is_ready: return "wiring:bound-before-ready | sink %d %s" % (k, attr)
            if is_ready:
                for attr in s["attrs"]:
                    c = handler_component(attr)
                    if c is None or "_" in c or c == "" or c == "core": continue
                    ev = attr[len("_handle_" + c + "_"):]
                    if ev in (case["events"].get(c) or []) and counts.get((k, attr, c, ev), 0) != 1:
                        return "wiring:handler-not-bound | sink %d %s" % (k, attr)
                if s.get("set_attrs", True) or s.get("short_attrs"):
                    have = obs["sink_attrs"].get(str(ids[0]), [])
                    for c in d[2]:
                        nm = c if s.get("short_attrs") else "_%s_" % c
                        if c != "core" and nm not in have: return "wiring:attribute-not-set | sink %d %s" % (k, nm)
        return None

    def _listen_ids(self, case, obs):
        """sink index -> ids of the declarations made for it (harness bookkeeping)"""
        out = {}
        for k, wid in obs["listen_order"]: out.setdefault(k, []).append(wid)
        return out

    def finding_key(self, case, obs, failure):
        if failure.startswith("harness exception"): return failure[:60]
        return failure.split(" | ")[0]

    def nontrivial(self, case, obs):
        if obs.get("abandoned"): return False
        log, marks = obs["log"], obs["marks"]
        decl_op = {d[0]: d[3] for d in obs["decls"]}
        pos_op = []
        i = 0
        for p in range(len(log)):
            while i < len(marks) and p >= marks[i]: i += 1
            pos_op.append(i)
        for p, e in enumerate(log):
            if e[0] == "fired" and decl_op.get(e[1]) != pos_op[p]: return True
            if e[0] in ("up", "goingDown") and any(a["a"] in ("getDeferral", "quit") for a in all_acts(case)): return True
        return False

    def shrink_candidates(self, case):
        for i in range(len(case["ops"])):
            c = copy.deepcopy(case); del c["ops"][i]; yield c
        for h in ("onGoingUp", "onUp", "onGoingDown", "onDown"):
            for i in range(len(case[h])):
                c = copy.deepcopy(case); del c[h][i]; yield c
        for b in range(len(case["bodies"])):
            for i in range(len(case["bodies"][b])):
                c = copy.deepcopy(case); del c["bodies"][b][i]; yield c

CHECK = C08
