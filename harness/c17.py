"""C17 — the controller's picture of switch ports and multipart statistics is exact (DESIGN §5 C17).

Every case is one connection history delivered as BYTES through the real `of_01.Connection.read` on a scripted socket:
hello, features reply, (optional early port statuses), barrier reply — so the handshake handlers put the connection into
the connected state with the default handler table — and then a stream of port-status / features-reply / statistics-reply /
other messages.  Observables: every view of `con.ports` and `con.original_ports` (by number, name, hardware address, keys,
iteration, len, membership, get/has_key, values, items) after the handshake and after each message that asks for it, and the
statistics events raised on the connection (class, entry list, xids of the assembled messages) per message."""
import struct, itertools, random, sys

# `def`, decorator, class-body and module-level lines of the anchored files execute once, when the module is imported (ofgen
# imports the pox.openflow package, poxenv.boot() imports of_01): trace those imports so that the anchored-line figure counts
# them — the per-case tracer of common.py starts later and could never see them.  Only module and class-body frames are
# recorded; which lines came from the import is reported in the evidence (`import_time_anchored_lines`).
_IMPORT_HITS = set()
_WATCHED = ("pox/openflow/of_01.py", "pox/openflow/__init__.py")
_CLASS_BODIES = ("<module>", "PortCollection", "Connection", "DefaultOpenFlowHandlers", "HandshakeOpenFlowHandlers",
                 "OpenFlowHandlers", "RawStatsReply", "StatsReply", "SwitchDescReceived", "FlowStatsReceived",
                 "AggregateFlowStatsReceived", "TableStatsReceived", "PortStatsReceived", "QueueStatsReceived")
def _imp_local(frame, event, arg):
    if event == "line": _IMPORT_HITS.add((frame.f_code.co_filename, frame.f_lineno))
    return _imp_local
def _imp_global(frame, event, arg):
    c = frame.f_code
    return _imp_local if c.co_filename.endswith(_WATCHED) and c.co_name in _CLASS_BODIES else None
_PRELOADED = any(m in sys.modules for m in ("pox.openflow", "pox.openflow.of_01"))
sys.settrace(_imp_global)
try:
    import common, poxenv, ofgen
finally:
    sys.settrace(None)
from common import Check

STATS_EVENTS = {"SwitchDescReceived": 0, "FlowStatsReceived": 1, "AggregateFlowStatsReceived": 2, "TableStatsReceived": 3,
                "PortStatsReceived": 4, "QueueStatsReceived": 5}
MULTIPART = (1, 3, 4, 5)            # OFPST_FLOW, _TABLE, _PORT, _QUEUE: the list-valued (multipart-capable) types
HANDLED = (0, 1, 2, 3, 4, 5)
OTHER_KINDS = ["echo_request", "echo_reply", "packet_in", "flow_removed", "barrier_reply", "vendor",
               "get_config_reply", "queue_get_config_reply", "hello"]      # not "error": handle_ERROR's msg.show() is C10's business
NOS = [1, 2, 3, 0xfffe]
NAMES = ["eth0", "eth1", "br"]
HWS = ["0000000000a1", "0000000000a2"]
CFGS = [[0, 0, 0, 0, 0, 0], [1, 1, 0x2a0, 0xfff, 0xfff, 0]]
Q_FULL = {"nos": NOS + [7], "names": NAMES + ["ghost"], "hws": HWS + ["0000000000ff"]}
# values that code could mistake for "nothing" or treat specially: port 0, OFPP_MAX, OFPP_LOCAL, OFPP_NONE; the empty name, a
# name that reads like a number, a name that fills all 16 bytes (no terminator), a non-ASCII name; the all-zero and broadcast address
NOS_RARE = [0, 1, 0xff00, 0xfffe, 0xffff]
NAMES_RARE = ["", "1", "sixteen-bytes-xx", "p\xe9"]
HWS_RARE = ["000000000000", "ffffffffffff"]
Q_RARE = {"nos": NOS_RARE + [2], "names": NAMES_RARE + ["0"], "hws": HWS_RARE + ["0000000000a1"]}
XIDS_RARE = [0, 1, 255, 256, 257, 70000, 70001, 0x7fffffff, 0x80000000, 0xffffffff]

# what a listener does with an event: every spelling revent.raiseEvent accepts -> what its CALLER (the handler that raised the
# event on the nexus and is about to raise it on the connection) makes of it.  "halt*": e.halt is True afterwards; "remove*": the
# listener unsubscribes; "cont": it returns, or raises (raiseEventNoErrors then answers None).
BEH = {"none": "cont", "continue": "cont", "one": "cont", "raise": "cont", "raise_base": "cont", "raise_revent": "cont",
       "halt": "halt", "true": "halt", "sethalt": "halt", "empty": "halt", "tuple_halt": "halt",
       "haltremove": "haltremove", "once_halt": "haltremove", "tuple_haltremove": "haltremove",
       "remove": "remove", "false": "remove", "once": "remove", "tuple_remove": "remove"}
BEH_ONCE = ("once", "once_halt")
HALTING = ("halt", "haltremove")
HS_EVENTS = ("ConnectionUp", "FeaturesReceived", "PortStatus")
MISC_EVENTS = ("RawStatsReply",) + HS_EVENTS
BEH_EVENTS = ("RawStatsReply",) + tuple(sorted(STATS_EVENTS)) + HS_EVENTS


class ListenerQuit(BaseException):
    """what a listener with the outcome "raise_base" raises (not an Exception)"""


class Sock:
    def __init__(self): self.chunks, self.sent = [], b""
    def recv(self, n, flags=0):
        c = self.chunks.pop(0)
        assert len(c) <= n
        return c
    def send(self, d, flags=0): self.sent += bytes(d); return len(d)
    def shutdown(self, *a): pass
    def close(self): pass
    def fileno(self): return -1
    def getpeername(self): return ("peer", 6633)


def pd(no, name, hw, cfg=0):
    return {"no": no, "name": name, "hw": hw, "cfg": CFGS[cfg] if isinstance(cfg, int) else cfg}


def pd_canon(p):
    nb = p["name"].encode("latin-1")
    return [p["no"], int.from_bytes(nb, "big"), int(p["hw"], 16), int.from_bytes(struct.pack("!6L", *p["cfg"]), "big")]


def name_int(s): return int.from_bytes(s.encode("latin-1"), "big")


def compositions(n, k, allow_empty=False):
    """all ways to cut n entries into exactly k contiguous parts (sizes)"""
    lo = 0 if allow_empty else 1
    if k == 1:
        if n >= lo: yield [n]
        return
    for first in range(lo, n - lo * (k - 1) + 1):
        for rest in compositions(n - first, k - 1, allow_empty):
            yield [first] + rest


class C17(Check):
    id = "C17"
    title = "Controller's picture of switch ports and multipart statistics is exact"
    prop_module = "PoxModel.Properties.C17"
    lean_targets = ["drv_c17"]
    driver = "drv_c17"
    theorems = ["Pox.C17.ports_refine", "Pox.C17.ports_by_attr", "Pox.C17.own_entries_unique", "Pox.C17.init_iff",
                "Pox.C17.readd_deleted", "Pox.C17.renamed_unreachable", "Pox.C17.mask_on_readd_irrelevant", "Pox.C17.legacy_rename_defect",
                "Pox.C17.legacy_delete_add_defect", "Pox.C17.stats_refine", "Pox.C17.stats_once", "Pox.C17.stats_no_merge",
                "Pox.C17.stats_never_raises", "Pox.C17.other_messages_frame", "Pox.C17.legacy_interleave_defect",
                "Pox.C17.legacy_stale_part_defect", "Pox.C17.legacy_unknown_type_raises",
                "Pox.C17.views_consistent", "Pox.C17.copy_same_view", "Pox.C17.status_unknown_reason", "Pox.C17.features_restarts",
                "Pox.C17.handshake_defers_in_order", "Pox.C17.view_at_connection_up", "Pox.C17.stats_two_requests", "Pox.C17.stats_same_request_again",
                "Pox.C17.raw_event_exactly_for_stats", "Pox.C17.listeners_frame", "Pox.C17.stats_any_listeners", "Pox.C17.guarded_assembly_defect"]
    anchors = [("pox/openflow/of_01.py", 68, 111), ("pox/openflow/of_01.py", 176, 190), ("pox/openflow/of_01.py", 245, 254),
               ("pox/openflow/of_01.py", 337, 344), ("pox/openflow/of_01.py", 369, 372), ("pox/openflow/of_01.py", 390, 395),
               ("pox/openflow/of_01.py", 397, 404), ("pox/openflow/of_01.py", 601, 715), ("pox/openflow/of_01.py", 760, 760),
               ("pox/openflow/of_01.py", 776, 776), ("pox/openflow/of_01.py", 789, 791), ("pox/openflow/of_01.py", 968, 988),
               ("pox/openflow/__init__.py", 127, 165)]
    design_ref = "DESIGN.md §5 C17, §6 D17/D18, Appendix E"
    technique = ("Lean 4 proof: refinement of an abstract port map / per-request reply specification by hand-written executable models of PortCollection and "
                 "_incoming_stats_reply (simulation invariant over all histories) + differential correspondence of the compiled model against the real "
                 "Connection.read on bytes + independent property oracle")
    level_text = ("Theorems (all histories, unbounded): ports_refine / ports_by_attr — after any features reply and any sequence of ADD/MODIFY/DELETE notifications every view of con.ports "
                  "(by number, name, address, keys/iteration, len, membership, values, items) is that of the abstract map 'reported ports with the notifications folded in order', and original_ports "
                  "is the features reply unchanged; readd_deleted, renamed_unreachable; stats_refine / stats_once / stats_no_merge — for any stream of statistics parts of any number of requests "
                  "interleaved in any way, each request's event fires exactly once, at its final part, with exactly its own parts' entries in order (a request is the pair (xid, type): stats_two_requests); stats_never_raises; "
                  "other_messages_frame (true by construction of the model's deliver — the .other branch is the identity, port and stats branches write disjoint fields; that the real handlers of the other message kinds leave both "
                  "pictures alone is established by the differential run with 9 other message kinds, not by this theorem); raw_event_exactly_for_stats (over runConn: one RawStatsReply per statistics message, in order). "
                  "listeners_frame / stats_any_listeners (over runConnL: what the nexus-level listeners answer is an input of every handler — for ANY answers at any messages the state and the nexus-level events are those of the listener-free run, the connection-level events are those minus exactly the halted ones; guarded_assembly_defect: with the assembler call under the not-halted guard the statement is false). "
                  "view_at_connection_up: at ConnectionUp/FeaturesReceived the view is exactly the features reply, then one replayed status at a time. Phase 2: views_consistent (len/iter/membership/get/has_key/values/items agree in ANY state), copy_same_view, status_unknown_reason, features_restarts, handshake_defers_in_order. "
                  "The models mirror the code WITH the repairs D17 and D18; legacy_*_defect theorems are decide-witnesses that the unrepaired lookups / assembly violate the statements. "
                  "Each run re-checks the models against the real code (bytes through Connection.read, default handler table, real decoders) and evaluates an independent oracle on the real code's observables.")
    level_note = ("Trusted: Lean kernel, standard axioms, the hand-written Model/PortView.lean and Model/StatsAgg.lean (tied to the code only by this differential run), Spec/PortStats.lean, this harness. "
                  "Python set iteration order is not modelled: lookups by name/address among several matching ports accept any admissible result (the observed choice is fed to the model). "
                  "The handshake's treatment of port statuses (dropped before the features reply, deferred and replayed in order after it) is modelled (hsStep/hsFinish, theorem handshake_defers_in_order); the rest of the handshake "
                  "(hello, version check, nexus lookup, barrier) is exercised only. PortCollection.copy() is modelled with its `return r` (fixes/C17_portcollection_copy_return.diff); on a tree where copy() returns None it is neither compared nor judged. "
                  "Anchored def/class-body lines are counted as covered from a tracer that watches the import of the two modules. Decoders are C01's business: entries are opaque to the model.")
    trusted_base = ["models Model/PortView.lean, Model/StatsAgg.lean hand-written from of_01.py (with fixes D17, D18); tied by this correspondence run",
                    "Spec/PortStats.lean (abstract port map; per-request reply assembly) read against OpenFlow 1.0 §5.3.5, §5.4.3",
                    "a Python set is modelled as a list read only through first-match/filter/membership; iteration order is an oracle input for name/address lookups"]
    assumptions = ["'notifications applied in order' is read relative to DISPATCH: port statuses received during the handshake are dispatched (applied + PortStatus raised) after ConnectionUp/FeaturesReceived "
                   "(design of _finish_connecting, comment at of_01.py:341-343), so a ConnectionUp handler sees the bare features reply (theorem view_at_connection_up); at every event the view equals the notifications dispatched so far",
                   "'fires exactly once' = exactly once for the FIRST listener of the first level that has one (the harness's recorder, registered before and with higher priority than the case's own listeners): the code raises each event on the nexus and then, "
                   "unless a nexus-level listener halts it, on the connection with the same arguments.  Whatever the case's listeners answer (halt, unsubscribe, raise: a case parameter), the first listener must see exactly what the property states; the connection-level sequence must equal "
                   "the nexus-level one except that an event a nexus-level listener halted MAY be missing there (by design of the handlers: it is, and the model says so — Model/StatsAgg.lean deliverL); without such a listener the two must be equal (oracle keys stats:nexus-differs, stats:raw:con-differs, ports:event:con-differs, handshake:con-level:differs)",
                   "a features reply lists each port number at most once (identical duplicates are harmless); with two different descriptions under one number the code's answer depends on set order and neither model nor oracle judge it",
                   "concurrent statistics requests have distinct (xid, type); a request's parts all carry its xid and type",
                   "only the four list-valued statistics types are sent with REPLY_MORE (others: the code discards them by design; compared with the model, not judged by the oracle)",
                   "entry decoding/encoding is exact for the generated entries (C01); entries that do not re-pack to their own bytes are not generated"]
    rule = ("case = one connection history on bytes: features reply (0-4 ports), optional early port statuses, then up to 14 messages among port status (3 reasons x 4 numbers x 3 names x 2 addresses x 2 configs), "
            "second features reply, statistics parts (6 types, bodies 0..12 entries cut into 1..6 parts, up to 3 requests interleaved, same type/other xid and same xid/other type), 9 other message kinds, port statuses before the features reply; modes (HARDENING.md): rare values (port 0 / 0xff00 / 0xfffe / 0xffff, empty / numeric / 16-byte / non-ASCII names, zero / broadcast address, xids 0, 255..257, 2^31, 2^32-1), "
            "several messages per read, a second connection alive at the same time with the same numbers / names / request ids, listeners that raise; LISTENER OUTCOMES as a case parameter (`beh`: listeners of RawStatsReply / the six aggregated events / PortStatus / FeaturesReceived / ConnectionUp, on the nexus or on the connection, answering with each of the 18 spellings revent accepts — halt / True / () / (True,) / event.halt / EventHaltAndRemove / (1, True) / once / EventRemove / (False, True) / False / EventContinue / 1 / None / Exception / BaseException / ReventError — always or while chosen messages or the handshake are handled; `mute`: event kinds with NO listener on the nexus): one fixed 10-message history x every spelling x both levels x 6 event groups + combinations, ~10% of the generated histories likewise; sweeps of the reason byte (0..255), the stats type selector and the flag bits; corpus = D17/D18 witnesses, all port-status "
            "sequences to length 3 (quick) / 4 (thorough) over a 2x2x2 scope, all partitions of short bodies; non-trivial = a port message changed a view or a reply had >=2 parts or requests overlapped")
    coverage_cases = 10 ** 6          # every case runs under the line tracer
    _import_counted = ()

    def extra_evidence(self):
        return {"import_time_anchored_lines": ["%s:%d" % (p.split("/pox/", 1)[-1], l) for p, l in self._import_counted],
                "import_time_note": "def/decorator/class-body/module-level lines of the anchored ranges, observed executing while the module was imported in this process"}
    search_budget = {"quick": 1500, "thorough": 20000}

    # ------------------------------------------------------------------ anchors from the source text (line numbers move with every commit)
    def _anchors_from_ast(self):
        import ast, os
        out = []
        def span(n): return (min([n.lineno] + [d.lineno for d in getattr(n, "decorator_list", [])]), n.end_lineno)
        rel = "pox/openflow/of_01.py"
        tree = ast.parse(open(os.path.join(common.REPO, rel)).read())
        top = {n.name: n for n in tree.body if isinstance(n, (ast.FunctionDef, ast.ClassDef))}
        def meth(cls, name): return [n for n in top[cls].body if isinstance(n, ast.FunctionDef) and n.name == name][-1]
        def stmts(fn, pred): return [st for st in ast.walk(fn) if isinstance(st, ast.stmt) and pred(ast.unparse(st))]
        for f in ("handle_OFPST_DESC", "handle_OFPST_FLOW", "handle_OFPST_AGGREGATE", "handle_OFPST_TABLE", "handle_OFPST_PORT", "handle_OFPST_QUEUE"):
            out.append((rel,) + span(top[f]))
        for m in ("handle_STATS_REPLY", "handle_PORT_STATUS", "handle_FEATURES_REPLY"):
            out.append((rel,) + span(meth("DefaultOpenFlowHandlers", m)))
        out.append((rel,) + span(meth("HandshakeOpenFlowHandlers", "handle_PORT_STATUS")))
        hf = meth("HandshakeOpenFlowHandlers", "handle_FEATURES_REPLY")
        for st in stmts(hf, lambda t: t.startswith(("con.original_ports._ports", "con.ports._reset", "con._deferred_port_status ="))):
            out.append((rel, st.lineno, st.end_lineno))
        fc = meth("HandshakeOpenFlowHandlers", "_finish_connecting")
        for st in stmts(fc, lambda t: t.startswith("if con._deferred_port_status")):
            out.append((rel, st.lineno, st.end_lineno))
        for n in tree.body:
            if isinstance(n, ast.Assign) and ast.unparse(n.targets[0]) == "statsHandlerMap": out.append((rel, n.lineno, n.end_lineno))
        out.append((rel,) + span(top["PortCollection"]))
        ci = meth("Connection", "__init__")
        for st in stmts(ci, lambda t: t.startswith(("self._previous_stats", "self._deferred_port_status", "self.original_ports", "self.ports"))):
            out.append((rel, st.lineno, st.end_lineno))
        out.append((rel,) + span(meth("Connection", "_incoming_stats_reply")))
        rel2 = "pox/openflow/__init__.py"
        tree2 = ast.parse(open(os.path.join(common.REPO, rel2)).read())
        for n in tree2.body:
            if isinstance(n, ast.ClassDef) and n.name in ("RawStatsReply", "StatsReply") + tuple(STATS_EVENTS):
                out.append((rel2,) + span(n))
        return out

    # ------------------------------------------------------------------ setup
    def setup(self):
        try: self.anchors = self._anchors_from_ast() or self.anchors
        except Exception as e: common.log("C17: anchors from AST failed (%s); using the recorded line ranges" % e)
        sys.settrace(_imp_global)
        try:
            self.core = poxenv.boot()
            import pox.openflow.of_01 as of_01, pox.openflow.libopenflow_01 as of
        finally:
            sys.settrace(None)
        self._import_hits = set() if _PRELOADED else set(_IMPORT_HITS)
        base = common.AnchorCoverage
        if not getattr(base, "_c17_import_aware", False):
            chk = self
            class ImportAwareCoverage(base):
                _c17_import_aware = True
                def __init__(cov, anchors):
                    base.__init__(cov, anchors)
                    chk._import_counted = sorted(chk._import_hits & cov.executable)
                    cov.hit |= set(chk._import_counted)
            common.AnchorCoverage = ImportAwareCoverage
        from pox.lib.addresses import EthAddr
        self.of_01, self.of, self.EthAddr = of_01, of, EthAddr
        self._sessions, self._reading = {}, None
        nexus = self.core.openflow
        # the harness's own nexus-level recorders, by event kind; `mute` (a case parameter) takes some of them away for a case: with
        # NO listener of a kind on the nexus raiseEvent answers None and the handlers go straight to the connection
        self._nexus_eids, self._muted = {}, set()
        for name in STATS_EVENTS:
            self._nexus_eids[name] = nexus.addListenerByName(name, self._on_nexus)
        for name in MISC_EVENTS:
            self._nexus_eids[name] = nexus.addListenerByName(name, self._on_nexus_misc)
        import pox.lib.revent as revent
        self.revent = revent
        self._entry_cache = {}
        self._dflt = of.ofp_phy_port()                     # canonical [0, 0, 0, 0]

    @staticmethod
    def mute_of(case):
        """event kinds for which the nexus has no listener at all during the case ("stats" = the six aggregated events).  Default:
        a case without listeners of its own runs with the nexus as the earlier rounds had it (recorders of the aggregated events only)."""
        m = case.get("mute")
        if m is None: m = [] if case.get("beh") else list(MISC_EVENTS)
        return set(k for t in m for k in (STATS_EVENTS if t == "stats" else [t]))

    def _set_muted(self, names):
        nexus = self.core.openflow
        for name in sorted(self._muted - names):
            self._nexus_eids[name] = nexus.addListenerByName(name, self._on_nexus if name in STATS_EVENTS else self._on_nexus_misc)
        for name in sorted(names - self._muted):
            nexus.removeListener(self._nexus_eids[name])
        self._muted = set(names)

    def _on_nexus(self, ev):
        s = self._sessions.get(id(ev.connection))
        if s is not None and s.con is ev.connection:
            s.bump("nexus", type(ev).__name__)
            s.nexus.append((s.midx(), self._canon_event(ev, s.con)))

    def _on_nexus_misc(self, ev):
        s = self._sessions.get(id(getattr(ev, "connection", None)))
        if s is not None and s.con is ev.connection: s.on_nexus(ev)

    # ------------------------------------------------------------------ building bytes
    def _port(self, p):
        c = p["cfg"]
        return self.of.ofp_phy_port(port_no=p["no"], hw_addr=self.EthAddr(bytes.fromhex(p["hw"])), name=p["name"], config=c[0],
                                    state=c[1], curr=c[2], advertised=c[3], supported=c[4], peer=c[5])

    def _msg_bytes(self, m):
        of = self.of
        if m["t"] == "status":
            return of.ofp_port_status(reason=m["reason"], desc=self._port(m["port"])).pack()
        if m["t"] == "features":
            return of.ofp_features_reply(datapath_id=m.get("dpid", 0x17), ports=[self._port(p) for p in m["ports"]]).pack()
        if m["t"] == "stats":
            body = b"".join(bytes.fromhex(h) for h in m["body"])
            flags = m.get("flags", 1 if m["more"] else 0)
            assert bool(flags & 1) == bool(m["more"])
            return of.ofp_stats_reply(xid=m["xid"], type=m["type"], flags=flags, body=body).pack()
        return bytes.fromhex(m["hex"])

    def _entry(self, rng, t):
        """one statistics entry of type t from the library's own classes, as the bytes the decoder reproduces"""
        of = self.of
        for _ in range(40):
            if t == 0: spec, cls = ofgen.desc_stats(rng), of.ofp_desc_stats
            elif t == 1: spec, cls = ofgen.flow_stats(rng), of.ofp_flow_stats
            elif t == 2:
                spec = {"cls": "ofp_aggregate_stats", "kw": dict(packet_count=ofgen.rint(rng, ofgen.U64), byte_count=ofgen.rint(rng, ofgen.U64), flow_count=ofgen.rint(rng, ofgen.U32))}
                cls = of.ofp_aggregate_stats
            elif t == 3: spec, cls = ofgen.table_stats(rng), of.ofp_table_stats
            elif t == 4: spec, cls = ofgen.port_stats(rng), of.ofp_port_stats
            else: spec, cls = ofgen.queue_stats(rng), of.ofp_queue_stats
            try:
                b = ofgen.build(spec).pack()
                o = cls(); o.unpack(b, 0, len(b))
                if o.pack() == b and (t != 1 or len(b) <= 400):
                    return b.hex()
            except Exception:
                continue
        raise RuntimeError("no round-tripping entry of type %d" % t)

    def _entries(self, rng, t, n):
        return [self._entry(rng, t) for _ in range(n)]

    def _other(self, rng):
        for _ in range(30):
            try:
                b = ofgen.build(ofgen.message(rng, kind=rng.choice(OTHER_KINDS), small=True)).pack()
                return {"t": "other", "hex": b.hex()}
            except Exception:
                continue
        return {"t": "other", "hex": self.of.ofp_echo_reply(xid=1).pack().hex()}

    @staticmethod
    def reply(xid, t, entries, sizes):
        """the parts of one reply: entries cut into len(sizes) parts"""
        out, i = [], 0
        for j, n in enumerate(sizes):
            out.append({"t": "stats", "xid": xid, "type": t, "more": j < len(sizes) - 1, "body": entries[i:i + n]})
            i += n
        assert i == len(entries)
        return out

    @staticmethod
    def interleave(rng, streams):
        """random merge preserving each stream's order"""
        streams = [list(s) for s in streams if s]
        out = []
        while streams:
            s = rng.choice(streams)
            out.append(s.pop(0))
            if not s: streams.remove(s)
        return out

    # ------------------------------------------------------------------ corpus
    def _fixed_entries(self):
        rng = random.Random(1717)
        return {t: self._entries(rng, t, 12 if t in MULTIPART else 1) for t in HANDLED}

    def corpus(self):
        E = self._fixed_entries()
        feat = [pd(1, "a", HWS[0]), pd(2, "b", HWS[1])]
        q = {"nos": [1, 2, 3], "names": ["a", "b", "c"], "hws": HWS + ["0000000000a9"]}
        cases = []
        def ports_case(features, msgs, early=(), qq=q):
            return {"features": features, "early": list(early), "msgs": [dict(m, snap=True) for m in msgs], "q": qq}
        # --- D17 witnesses (Properties/C17.lean: legacy_rename_defect, legacy_delete_add_defect) and re-adding
        ren = pd(1, "c", "0000000000a9")
        cases.append(ports_case(feat, [{"t": "status", "reason": 2, "port": ren}]))
        cases.append(ports_case(feat, [{"t": "status", "reason": 1, "port": feat[0]}, {"t": "status", "reason": 0, "port": ren}]))
        cases.append(ports_case(feat, [{"t": "status", "reason": 1, "port": feat[0]}, {"t": "status", "reason": 0, "port": feat[0]},
                                       {"t": "status", "reason": 1, "port": feat[0]}]))
        cases.append(ports_case(feat, [{"t": "status", "reason": 2, "port": ren}], early=[{"t": "status", "reason": 1, "port": feat[1]}]))
        cases.append(ports_case(feat, [{"t": "status", "reason": 0, "port": pd(3, "a", HWS[0])}, {"t": "status", "reason": 1, "port": feat[0]},
                                       {"t": "features", "ports": [feat[1]]}, {"t": "status", "reason": 3, "port": pd(3, "b", HWS[1], 1)}]))
        cases.append(ports_case([], [{"t": "status", "reason": 0, "port": feat[0]}, {"t": "status", "reason": 1, "port": feat[0]}]))
        c = ports_case(feat, [{"t": "status", "reason": 2, "port": ren}], early=[{"t": "status", "reason": 0, "port": pd(3, "c", HWS[0])}])
        c["pre"] = [{"t": "status", "reason": 1, "port": feat[0]}, {"t": "status", "reason": 0, "port": pd(7, "ghost", HWS[1])}]
        cases.append(c)                                             # statuses before the features reply are dropped
        for r in (3, 4, 255):                                       # reasons the standard does not define
            cases.append(ports_case(feat, [{"t": "status", "reason": r, "port": ren}, {"t": "status", "reason": r, "port": pd(3, "b", HWS[1])},
                                           {"t": "status", "reason": 1, "port": feat[1]}]))
        cases.append(ports_case(feat, [{"t": "status", "reason": 1, "port": feat[0]}, {"t": "features", "ports": feat, "dpid": 0x18},
                                       {"t": "status", "reason": 2, "port": ren}, {"t": "features", "ports": []},
                                       {"t": "status", "reason": 0, "port": feat[1]}]))
        # --- D18 witnesses (legacy_interleave_defect, legacy_stale_part_defect, legacy_unknown_type_raises)
        a1 = {"t": "stats", "xid": 7, "type": 1, "more": True, "body": E[1][:1]}
        a2 = {"t": "stats", "xid": 7, "type": 1, "more": False, "body": E[1][1:3]}
        b1 = {"t": "stats", "xid": 8, "type": 4, "more": False, "body": E[4][:1]}
        cases.append({"features": feat, "early": [], "msgs": [a1, b1, a2], "q": q})
        cases.append({"features": feat, "early": [], "msgs": [a1, b1, b1], "q": q})
        cases.append({"features": feat, "early": [], "msgs": [{"t": "stats", "xid": 9, "type": 0xffff, "more": False, "body": ["0011223344556677"]}, b1], "q": q})
        cases.append({"features": feat, "early": [], "msgs": [dict(a1, xid=8, type=4, body=E[4][:2]), dict(a1), dict(b1, body=E[4][2:3]), a2], "q": q})
        for t in (0, 2):                                            # single-part types, also in the middle of a multipart reply
            d = {"t": "stats", "xid": 11, "type": t, "more": False, "body": E[t][:1]}
            cases.append({"features": feat, "early": [], "msgs": [d], "q": q})
            cases.append({"features": feat, "early": [], "msgs": [a1, d, a2], "q": q})
            cases.append({"features": feat, "early": [], "msgs": [a1, dict(d, more=True), a2, d], "q": q})
        # --- every port-status sequence to length 3 over 2 numbers x 2 names x 2 addresses (ADD/MODIFY alternate) + DELETE
        for L in (1, 2):
            cases += list(self._small_scope(L))
        cases += random.Random(173).sample(list(self._small_scope(3)), 350)        # all of length 3 and 4: thorough tier
        # --- HARDENING 3/6: every value of the reason byte; every stats type selector 0..17 + vendor, final and with REPLY_MORE; other flag bits
        for base in range(0, 256, 32):
            cases.append(ports_case(feat, [{"t": "status", "reason": r, "port": pd(1 + r % 3, "abc"[r % 3], HWS[r % 2], r % 2)} for r in range(base, base + 32)]))
        for t in list(range(0, 18)) + [0xffff]:
            body = E[t][:2] if t in MULTIPART else (E[t][:1] if t in HANDLED else ["00112233aabbccdd"])
            for more in (False, True):
                cases.append({"features": feat, "early": [], "msgs": [a1, {"t": "stats", "xid": 7, "type": t, "more": more, "body": body}, b1, a2], "q": q})
        for fl in (2, 3, 0x8000, 0x8001, 0xfffe, 0xffff):
            cases.append({"features": feat, "early": [], "q": q, "msgs": [dict(a1, flags=fl | 1), dict(b1, flags=fl & 0xfffe), dict(a2, flags=fl & 0xfffe)]})
        # --- HARDENING 3: xids 0, around 256, around 2^31, 2^32-1 (two requests of one type whose xids are close together / far apart)
        for x1, x2 in ((0, 1), (0, 256), (256, 257), (257, 257 + 256), (70000, 70001), (0x7fffffff, 0x80000000), (0xffffffff, 0), (1, 1 + (1 << 16)), (5, 5 + (1 << 30))):
            for t1, t2 in ((1, 1), (4, 5), (5, 1)):
                A = self.reply(x1, t1, E[t1][:3], [1, 1, 1]); B = self.reply(x2, t2, E[t2][3:6], [2, 1])
                cases.append({"features": feat, "early": [], "q": q, "msgs": [A[0], B[0], A[1], B[1], A[2]]})
                cases.append({"features": feat, "early": [], "q": q, "msgs": [B[0], A[0], A[1], A[2], B[1]]})
        # --- HARDENING 3: port 0, OFPP_MAX, OFPP_LOCAL, OFPP_NONE; empty / numeric / 16-byte / non-ASCII names; zero and broadcast address
        rf = [pd(0, "", HWS_RARE[0]), pd(0xfffe, "1", HWS_RARE[1]), pd(0xff00, NAMES_RARE[2], HWS_RARE[0])]
        cases.append(ports_case(rf, [{"t": "status", "reason": 1, "port": rf[0]}, {"t": "status", "reason": 0, "port": pd(0, NAMES_RARE[3], HWS_RARE[1])},
                                     {"t": "status", "reason": 2, "port": pd(0xffff, "", HWS_RARE[0])}, {"t": "status", "reason": 1, "port": rf[1]},
                                     {"t": "status", "reason": 0, "port": pd(0, "", HWS_RARE[0])}, {"t": "status", "reason": 1, "port": pd(0xffff, "", HWS_RARE[0])}], qq=Q_RARE))
        cases.append(ports_case([], [{"t": "status", "reason": 0, "port": rf[0]}, {"t": "status", "reason": 2, "port": rf[0]}, {"t": "status", "reason": 1, "port": rf[0]}], qq=Q_RARE))
        cases.append(ports_case([rf[0]], [{"t": "status", "reason": 1, "port": rf[0]}, {"t": "status", "reason": 0, "port": rf[0]}], early=[{"t": "status", "reason": 2, "port": pd(0, "1", HWS_RARE[1])}], qq=Q_RARE))
        # --- HARDENING 5: several messages in one read, the odd one first / in the middle / last
        st = [{"t": "status", "reason": 2, "port": ren, "snap": True}, {"t": "status", "reason": 1, "port": feat[1], "snap": True}]
        oth = {"t": "other", "hex": self.of.ofp_echo_request(xid=3, body=b"x").pack().hex()}
        for msgs in ([a1, b1, a2] + st, st[:1] + [a1, b1, a2] + st[1:], st + [a1, b1, a2], [oth, a1, st[0], b1, oth, a2, st[1]],
                     [a1, {"t": "features", "ports": [feat[1]], "snap": True}, a2, st[0]]):
            for sizes in ([len(msgs)], [1, len(msgs) - 1], [len(msgs) - 1, 1], [2] * (len(msgs) // 2) + [1] * (len(msgs) % 2)):
                cases.append({"features": feat, "early": [], "q": q, "msgs": msgs, "groups": sizes})
        # --- HARDENING 1: two connections alive at the same time with the same port numbers / names and the same request ids
        other_feat = [pd(1, "b", HWS[1], 1), pd(3, "a", HWS[0])]
        peer = {"features": other_feat, "early": [], "q": q,
                "msgs": [dict(a1, body=E[1][6:8]), {"t": "status", "reason": 1, "port": other_feat[0], "snap": True}, dict(b1, body=E[4][5:6]),
                         {"t": "status", "reason": 0, "port": pd(2, "c", HWS[0]), "snap": True}, dict(a2, body=E[1][8:9])]}
        cases.append({"features": feat, "early": [], "q": q, "peer": peer,
                      "msgs": [a1, {"t": "status", "reason": 2, "port": ren, "snap": True}, b1, a2, {"t": "status", "reason": 1, "port": feat[1], "snap": True}]})
        cases.append({"features": feat, "early": [], "q": q, "peer": dict(peer, msgs=peer["msgs"][:1]), "msgs": [dict(a2, body=E[1][1:2])]})
        cases.append({"features": [], "early": [], "q": q, "peer": {"features": feat, "early": [], "q": q, "msgs": []}, "msgs": [{"t": "status", "reason": 0, "port": pd(3, "z", HWS[0]), "snap": True}]})
        # --- HARDENING 1: several multipart replies on one connection that reuse the SAME (xid, type), 2..4 rounds back to back, with
        #     nothing / echo / barrier / a one-part reply / another type's parts (same xid) in between, and with an empty final part
        bar = {"t": "other", "hex": self.of.ofp_barrier_reply(xid=9).pack().hex()}
        for x in (0, 5, 70000):
            for t in MULTIPART:
                t2 = MULTIPART[(MULTIPART.index(t) + 1) % 4]
                betweens = {"none": [], "echo": [oth], "barrier": [bar], "one-part": [{"t": "stats", "xid": x, "type": 0, "more": False, "body": E[0][:1]}],
                            "other-final": [{"t": "stats", "xid": x, "type": t2, "more": False, "body": E[t2][:2]}],
                            "other-open": [{"t": "stats", "xid": x, "type": t2, "more": True, "body": E[t2][:1]}]}
                for bname, between in sorted(betweens.items()):
                    if x != 0 and bname in ("echo", "barrier"): continue
                    for rounds, shapes in ((2, ([2, 1], [1, 1])), (3, ([1, 1, 1], [2, 0], [1, 2])), (4, ([1, 1], [1, 0], [0, 1], [1, 1, 1]))):
                        if rounds == 4 and (x == 5 or bname not in ("none", "other-open")): continue
                        msgs, i = [], 0
                        for r in range(rounds):
                            sz = shapes[r % len(shapes)]
                            msgs += self.reply(x, t, E[t][i:i + sum(sz)], sz); i += sum(sz)
                            if r < rounds - 1: msgs += [dict(m) for m in between]
                        if bname == "other-open": msgs.append({"t": "stats", "xid": x, "type": t2, "more": False, "body": E[t2][1:2]})
                        cases.append({"features": feat, "early": [], "q": q, "msgs": msgs})
        # --- HARDENING 7: listeners that raise do not disturb the assembly or the view
        cases.append({"features": feat, "early": [{"t": "status", "reason": 1, "port": feat[1]}], "q": q, "hostile": True,
                      "msgs": [a1, {"t": "status", "reason": 2, "port": ren, "snap": True}, b1, a2, b1]})
        # --- HARDENING 16: what the listeners of the events answer (round 7)
        cases += self._listener_cases(E)
        # --- every partition of a body of n <= 5 entries into 1..6 non-empty parts, 4 types; plus empty parts and empty bodies
        for t in MULTIPART:
            for n in range(0, 6):
                for k in range(1, 7):
                    for sizes in compositions(n, k):
                        cases.append({"features": feat, "early": [], "msgs": self.reply(20 + n, t, E[t][:n], sizes), "q": q})
            for sizes in ([0], [0, 0], [0, 2, 0], [1, 0, 0, 1], [0, 0, 0, 0, 0, 0], [3, 0]):
                n = sum(sizes)
                cases.append({"features": feat, "early": [], "msgs": self.reply(40, t, E[t][:n], sizes), "q": q})
        # --- every interleaving of a 3-part reply with a 2-part reply of another request (same type/other xid, same xid/other type)
        for (x2, t2) in ((8, 1), (7, 4), (8, 5)):
            A = self.reply(7, 1, E[1][:4], [1, 2, 1]); B = self.reply(x2, t2, E[t2][:3], [2, 1])
            for pos in itertools.combinations(range(5), 2):
                ai, bi, msgs = iter(A), iter(B), []
                for i in range(5):
                    msgs.append(next(bi) if i in pos else next(ai))
                cases.append({"features": feat, "early": [], "msgs": msgs, "q": q})
        return cases

    def _listener_cases(self, E):
        """Listener outcomes as a case parameter.  One history — a 3-part reply A interleaved with a 2-part reply B of another type,
        port statuses and a second features reply in between, then request A's (xid, type) used AGAIN for a 2-part reply (a part lost
        or left behind by the first round would show there), two statuses received during the handshake — run with a listener of
        RawStatsReply / the aggregated events / PortStatus + FeaturesReceived (+ ConnectionUp) on the nexus or on the connection that
        answers with EVERY spelling revent accepts (halt, unsubscribe, raise, return), always / at the first / a middle / the final part."""
        feat = [pd(1, "a", HWS[0]), pd(2, "b", HWS[1])]
        q = {"nos": [1, 2, 3], "names": ["a", "b", "c"], "hws": HWS + ["0000000000a9"]}
        ren = pd(1, "c", "0000000000a9")
        A = self.reply(7, 1, E[1][:5], [2, 1, 2]); B = self.reply(8, 4, E[4][:3], [2, 1]); A2 = self.reply(7, 1, E[1][5:8], [1, 2])
        st1 = {"t": "status", "reason": 2, "port": ren, "snap": True}
        st2 = {"t": "status", "reason": 1, "port": feat[1], "snap": True}
        f2 = {"t": "features", "ports": [feat[1], pd(3, "a", HWS[0])], "snap": True}
        msgs = [A[0], B[0], st1, A[1], B[1], A[2], f2, st2] + A2            # stats at 0 1 3 4 5 8 9; A: 0 3 5; again 8 9
        early = [{"t": "status", "reason": 1, "port": feat[1]}, {"t": "status", "reason": 0, "port": pd(3, "c", HWS[1])}]
        def mk(beh, **kw):
            return dict({"features": feat, "early": early, "q": q, "msgs": msgs, "beh": beh}, **kw)
        agg = ["FlowStatsReceived", "PortStatsReceived"]
        prt = ["PortStatus", "FeaturesReceived"]
        groups = [(["RawStatsReply"], None), (["RawStatsReply"], [3]), (["RawStatsReply"], [5]), (agg, None), (prt, None),
                  (list(BEH_EVENTS), None)]
        cases = []
        for sp in sorted(BEH):
            for lv in ("nexus", "con"):
                for evs, at in groups:
                    cases.append(mk([{"lv": lv, "ev": e, "sp": sp, "at": at} for e in evs]))
        # two listeners of one kind (the first one's halt hides the event from the second), both levels at once, the first part / the
        # handshake only, several messages per read, a second connection with the same request ids whose listeners answer differently
        both = [[{"lv": "nexus", "ev": "RawStatsReply", "sp": a, "at": at}, {"lv": "con", "ev": "RawStatsReply", "sp": b, "at": at2}]
                for a, b, at, at2 in (("halt", "halt", [0, 5], [3]), ("raise", "haltremove", None, [3, 9]), ("once_halt", "true", None, [5, 8]),
                                      ("true", "raise_base", [3, 5], None), ("haltremove", "halt", [0], [0]), ("sethalt", "empty", [9], [8]))]
        both += [[{"lv": "nexus", "ev": "RawStatsReply", "sp": "halt", "at": [3]}, {"lv": "nexus", "ev": "RawStatsReply", "sp": "raise", "at": None}],
                 [{"lv": "con", "ev": "RawStatsReply", "sp": "tuple_halt", "at": [0, 3, 5, 8, 9]}, {"lv": "con", "ev": "FlowStatsReceived", "sp": "halt", "at": None}],
                 [{"lv": lv, "ev": e, "sp": "halt", "at": [-1]} for lv in ("nexus", "con") for e in HS_EVENTS],
                 [{"lv": "nexus", "ev": e, "sp": "haltremove", "at": [-1]} for e in HS_EVENTS],
                 [{"lv": "nexus", "ev": "PortStatus", "sp": "halt", "at": [-1, 2]}, {"lv": "con", "ev": "PortStatus", "sp": "raise", "at": None}],
                 [{"lv": "nexus", "ev": "FeaturesReceived", "sp": "true", "at": [6]}, {"lv": "nexus", "ev": "PortStatus", "sp": "empty", "at": [7]}]]
        for beh in both:
            cases.append(mk(beh))
            cases.append(mk(beh, groups=[3, 3, 4]))
        # kinds with NO listener on the nexus (the raise there answers None), with and without listeners on the connection
        for mute in (["stats"], ["RawStatsReply"], ["stats", "RawStatsReply"], ["PortStatus", "FeaturesReceived"], ["stats"] + list(MISC_EVENTS)):
            cases.append(mk([], mute=mute))
            for sp in ("halt", "true", "haltremove", "raise", "remove"):
                cases.append(mk([{"lv": "con", "ev": e, "sp": sp, "at": None} for e in BEH_EVENTS], mute=mute))
                cases.append(mk([{"lv": "nexus", "ev": e, "sp": sp, "at": [3, 5, 6, 7]} for e in BEH_EVENTS], mute=mute))
        peer_msgs = [dict(A[0], body=E[1][8:9]), dict(B[0], body=E[4][3:4]), dict(A[2], body=E[1][9:10]), dict(B[1], body=E[4][4:5])]
        for beh, pbeh in ((both[0], []), ([], both[0]), (both[2], both[3]), ([{"lv": "nexus", "ev": e, "sp": "halt", "at": None} for e in BEH_EVENTS], [])):
            c = mk(beh); c["peer"] = {"features": feat, "early": early[:1], "q": q, "msgs": peer_msgs, "beh": pbeh}
            cases.append(c)
        return cases

    def _small_scope(self, L):
        feat = [pd(1, "a", HWS[0]), pd(2, "b", HWS[1])]
        q = {"nos": [1, 2, 3], "names": ["a", "b", "x"], "hws": HWS + ["0000000000ff"]}
        ops = [("u", n, nm, hw) for n in (1, 2) for nm in ("a", "b") for hw in HWS] + [("d", 1), ("d", 2)]
        for seq in itertools.product(ops, repeat=L):
            msgs = []
            for i, o in enumerate(seq):
                if o[0] == "d": msgs.append({"t": "status", "reason": 1, "port": pd(o[1], "zz", "0000000000ee"), "snap": True})
                else: msgs.append({"t": "status", "reason": 0 if i % 2 == 0 else 2, "port": pd(o[1], o[2], o[3]), "snap": True})
            yield {"features": feat, "early": [], "msgs": msgs, "q": q}

    # ------------------------------------------------------------------ generators
    _U = (NOS, NAMES, HWS)

    def _rand_port(self, rng):
        return pd(rng.choice(self._U[0]), rng.choice(self._U[1]), rng.choice(self._U[2]), rng.choice([0, 0, 1]))

    def _rand_features(self, rng):
        nos = rng.sample(self._U[0], rng.choice([0, 1, 2, 2, 3, 4]))
        f = [pd(n, rng.choice(self._U[1]), rng.choice(self._U[2]), rng.choice([0, 1])) for n in nos]
        if f and rng.random() < 0.1: f.append(dict(f[0]))                 # an identical duplicate entry
        return f

    def _rand_status(self, rng, live=None):
        r = rng.choice([0, 0, 1, 1, 2, 2, 2, 3])
        p = self._rand_port(rng)
        return {"t": "status", "reason": r, "port": p, "snap": True}

    def _port_walk(self, rng, n):
        msgs = []
        for _ in range(n):
            x = rng.random()
            if x < 0.05:
                msgs.append({"t": "features", "ports": self._rand_features(rng), "snap": True})
                if rng.random() < 0.3: msgs[-1]["dpid"] = 0x18          # the switch reports another datapath id
            else: msgs.append(self._rand_status(rng))
        return msgs

    def _stats_streams(self, rng, E=None):
        """1..3 concurrent requests with distinct (xid, type); returns the list of per-request part lists"""
        streams, used = [], set()
        for _ in range(rng.choice([1, 1, 2, 2, 2, 3])):
            for _try in range(20):
                xid = rng.choice([1, 2, 3, 0xffffffff, rng.randint(0, 0xffffffff), rng.choice(XIDS_RARE)])
                t = rng.choice([1, 3, 4, 5, 1, 3, 4, 5, 0, 2])
                if (xid, t) not in used: break
            used.add((xid, t))
            if t in MULTIPART:
                n = rng.choice([0, 1, 2, 3, 5, 8, 12, rng.randint(0, 12)])
                k = rng.randint(1, 6)
                if rng.random() < 0.75 and n >= k:
                    cuts = sorted(rng.sample(range(1, n), k - 1)) if k > 1 else []
                else:
                    cuts = sorted(rng.randint(0, n) for _ in range(k - 1))                 # may give empty parts
                sizes = [b - a for a, b in zip([0] + cuts, cuts + [n])]
                stream = self.reply(xid, t, self._entries(rng, t, n), sizes)
                if rng.random() < 0.45:                 # the same (xid, type) used again, back to back: a poller with a fixed xid (1..3 more rounds)
                    for _ in range(rng.choice([1, 1, 2, 3])):
                        k2 = rng.choice([1, 2, 2, 3, 4])
                        n2 = rng.choice([0, 1, 2, 3, 5, rng.randint(0, 8)])
                        cuts2 = sorted(rng.randint(0, n2) for _ in range(k2 - 1))
                        if rng.random() < 0.35 and k2 > 1: cuts2[-1] = n2                    # an empty final part
                        sizes2 = [b - a for a, b in zip([0] + cuts2, cuts2 + [n2])]
                        stream += self.reply(xid, t, self._entries(rng, t, n2), sizes2)
            else:
                stream = self.reply(xid, t, self._entries(rng, t, 1), [1])
            streams.append(stream)
        return streams

    def _case(self, rng, kind, mode=None):
        """mode: None | "rare" (rare port numbers / names / addresses) | "groups" (several messages per read) | "peer" (a second
        connection alive at the same time, same numbers / names / request ids) | "hostile" (listeners that raise)"""
        if mode == "rare":
            self._U = (NOS_RARE, NAMES_RARE, HWS_RARE)
            try:
                c = self._case(rng, kind); c["q"] = Q_RARE
                if c.get("peer"): c["peer"]["q"] = Q_RARE
                return c
            finally:
                self._U = (NOS, NAMES, HWS)
        if mode == "peer":
            c = self._case(rng, kind); p = self._case(rng, rng.choice(["ports", "stats"]))
            akeys = sorted(set((m["xid"], m["type"]) for m in c["msgs"] if m["t"] == "stats"))
            pkeys = sorted(set((m["xid"], m["type"]) for m in p["msgs"] if m["t"] == "stats"))
            ren, used = {}, set()
            for k in pkeys:                                        # the peer's requests carry this connection's xids (same type first)
                cand = [x for x, t in akeys if t == k[1]] + [x for x, t in akeys]
                for x in cand:
                    if (x, k[1]) not in used and (x, k[1]) not in pkeys:
                        ren[k] = x; used.add((x, k[1])); break
            for m in p["msgs"]:
                if m["t"] == "stats" and (m["xid"], m["type"]) in ren: m["xid"] = ren[(m["xid"], m["type"])]
            c["peer"] = p
            return c
        if mode == "groups":
            c = self._case(rng, kind)
            sizes, left = [], len(c["msgs"])
            while left:
                n = min(left, rng.choice([1, 2, 2, 3, 4])); sizes.append(n); left -= n
            c["groups"] = sizes
            return c
        if mode == "hostile":
            c = self._case(rng, kind); c["hostile"] = True
            return c
        if mode == "beh":                                   # 1..3 listeners of the case's own: level, event kind, spelling, when
            c = self._case(rng, kind, rng.choice([None, None, "groups", "peer"]))
            for cc in [c] + ([c["peer"]] if c.get("peer") and rng.random() < 0.5 else []):
                n = len(cc["msgs"])
                sidx = [i for i, m in enumerate(cc["msgs"]) if m["t"] == "stats"]
                beh = []
                for _ in range(rng.choice([1, 1, 2, 3])):
                    ev = rng.choice(["RawStatsReply"] * 4 + list(BEH_EVENTS)) if sidx else rng.choice(list(HS_EVENTS) + ["PortStatus"])
                    pool = sidx if (sidx and ev not in HS_EVENTS) else list(range(-1, n))
                    at = rng.choice([None, rng.sample(pool, rng.randint(1, min(3, len(pool))))])
                    beh.append({"lv": rng.choice(["nexus", "nexus", "con"]), "ev": ev, "sp": rng.choice(sorted(BEH)), "at": at if at is None else sorted(at)})
                cc["beh"] = beh
            return c
        feat = self._rand_features(rng)
        early = [dict(self._rand_status(rng), snap=False) for _ in range(rng.choice([0, 0, 0, 1, 2]))]
        pre = [dict(self._rand_status(rng), snap=False) for _ in range(rng.choice([0, 0, 0, 0, 1, 2]))]
        if kind == "ports":
            msgs = self._port_walk(rng, rng.choice([1, 2, 3, 5, 8, 12, rng.randint(1, 12)]))
            if rng.random() < 0.3:
                msgs = self.interleave(rng, [msgs, [self._other(rng) for _ in range(rng.randint(1, 3))]])
        elif kind == "stats":
            streams = self._stats_streams(rng)
            if rng.random() < 0.6:
                streams.append([dict(self._other(rng), snap=rng.random() < 0.3) for _ in range(rng.randint(1, 4))])
            if rng.random() < 0.3:
                streams.append(self._port_walk(rng, rng.randint(1, 3)))
            msgs = self.interleave(rng, streams)
        else:                                                                              # weird: what the property does not speak about
            streams = self._stats_streams(rng)
            w = rng.choice(["more-nonlist", "vendor", "unknown-more"])
            if w == "more-nonlist":
                wt = rng.choice([0, 2])
                streams.append([{"t": "stats", "xid": 77, "type": wt, "more": True, "body": self._entries(rng, wt, 1)}])
            elif w == "vendor": streams.append([{"t": "stats", "xid": 78, "type": 0xffff, "more": False, "body": ["00002320" + "00" * 4]}])
            else: streams.append([{"t": "stats", "xid": 79, "type": 9, "more": True, "body": ["00" * 8]}])
            msgs = self.interleave(rng, streams)
        return {"features": feat, "pre": pre, "early": early, "msgs": msgs, "q": Q_FULL}

    def generate(self, rng, tier):
        n = 900 if tier == "quick" else 7000
        for i in range(n):
            mode = [None, "beh", "rare", "groups", "peer", "beh", "rare", "groups", "peer", "hostile"][(i // 2) % 10]
            c = self._case(rng, "ports" if i % 2 == 0 else ("stats" if i % 10 != 9 else "weird"), mode)
            # which event kinds have NO listener on the nexus (raiseEvent answers None there): none of them, or some
            if not c.get("beh") and rng.random() < 0.25: c["mute"] = list(MISC_EVENTS) + ["stats"]
            elif c.get("beh") and rng.random() < 0.3: c["mute"] = sorted(rng.sample(["stats"] + list(MISC_EVENTS), rng.randint(1, 3)))
            yield c
        if tier == "thorough":
            for c in self._small_scope(3): yield c
            for c in self._small_scope(4): yield c
            E = self._fixed_entries()
            feat = [pd(1, "a", HWS[0])]
            q = {"nos": [1], "names": ["a"], "hws": HWS[:1]}
            for t in MULTIPART:                                           # all partitions of 6..12 entries into 1..6 non-empty parts
                for n in range(6, 13):
                    if t == 1 and n > 9: continue                         # flow entries are large; the three fixed-size types go to 12
                    for k in range(1, 7):
                        for sizes in compositions(n, k):
                            yield {"features": feat, "early": [], "msgs": self.reply(50 + n, t, E[t][:n], sizes), "q": q}

    def search_cases(self, rng, tier):
        for c in self.corpus()[:40]: yield c
        for c in self._listener_cases(self._fixed_entries()): yield c
        while True:
            yield self._case(rng, rng.choice(["ports", "stats"]), rng.choice([None, "rare", "groups", "peer", "beh", "beh"]))

    # ------------------------------------------------------------------ implementation
    def _canon_port(self, p):
        b = p.pack()
        name = b[8:24].split(b"\0", 1)[0]
        return [int.from_bytes(b[0:2], "big"), int.from_bytes(name, "big"), int.from_bytes(b[2:8], "big"), int.from_bytes(b[24:48], "big")]

    def _look(self, coll, index):
        try:
            return self._canon_port(coll[index])
        except IndexError:
            return "IndexError"
        except Exception as e:
            return type(e).__name__

    def _snap_coll(self, coll, q, pre):
        EthAddr = self.EthAddr
        keys = sorted(coll.keys())
        o = {pre + "keys": keys, pre + "len": len(coll)}
        extra = {}
        it = sorted(iter(coll)); ik = sorted(coll.iterkeys())
        if it != keys or ik != keys or len(list(coll.keys())) != len(keys): extra["iter"] = [it, ik, list(coll.keys())]
        o[pre + "no"] = [self._look(coll, k) for k in q["nos"]]
        o[pre + "in_no"] = [(k in coll) for k in q["nos"]]
        o[pre + "name"] = [self._look(coll, s) for s in q["names"]]
        o[pre + "in_name"] = [(s in coll) for s in q["names"]]
        hws = [EthAddr(bytes.fromhex(h)) for h in q["hws"]]
        o[pre + "hw"] = [self._look(coll, a) for a in hws]
        o[pre + "in_hw"] = [(a in coll) for a in hws]
        try: o[pre + "values"] = sorted(self._canon_port(p) for p in coll.values())
        except Exception as e: o[pre + "values"] = type(e).__name__
        try: o[pre + "items"] = sorted([k, self._canon_port(p)] for k, p in coll.items())
        except Exception as e: o[pre + "items"] = type(e).__name__
        for k, want in zip(q["nos"], o[pre + "no"]):                  # get / has_key / itervalues agree with [] / in
            g = coll.get(k)
            if (self._canon_port(g) if g is not None else "IndexError") != want or coll.has_key(k) != (k in coll): extra.setdefault("get", []).append(k)
        try:
            if sorted(self._canon_port(p) for p in coll.itervalues()) != o[pre + "values"]: extra["itervalues"] = True
        except Exception as e:
            if o[pre + "values"] != type(e).__name__: extra["itervalues"] = True
        try:
            if sorted([k, self._canon_port(p)] for k, p in coll.iteritems()) != o[pre + "items"]: extra["iteritems"] = True
        except Exception as e:
            if o[pre + "items"] != type(e).__name__: extra["iteritems"] = True
        try:
            vs = sorted(coll.values(), key=lambda p: p.port_no)
            want = "<Ports: %s>" % ", ".join("%s:%i" % (p.name, p.port_no) for p in vs) if vs else "<Ports: Empty>"
            if str(coll) != want: extra["str"] = str(coll)
        except Exception as e:
            extra["str"] = type(e).__name__
        if extra: o[pre + "extra"] = extra
        return o

    def _snap(self, con, q):
        o = self._snap_coll(con.ports, q, "")
        o.update(self._snap_coll(con.original_ports, q, "o"))
        coll = con.ports
        canon = lambda g: self._canon_port(g) if g is not None else "IndexError"
        o["get"] = [canon(coll.get(k)) for k in q["nos"]]
        o["get_dflt"] = [canon(coll.get(k, self._dflt)) for k in q["nos"]]
        kw = [canon(coll.get(k, default=self._dflt)) for k in q["nos"]]                   # keyword form of the default
        again = [self._look(coll, k) for k in q["nos"]]                                  # the same lookup again, after get()/has_key()
        shw = [self._look(coll, self.EthAddr(":".join(h[i:i + 2] for i in range(0, 12, 2)))) for h in q["hws"]]   # EthAddr from text
        if kw != o["get_dflt"] or again != o["no"] or shw != o["hw"]:
            o.setdefault("extra", {})["conventions"] = [kw != o["get_dflt"], again != o["no"], shw != o["hw"]]
        o["has_key"] = [coll.has_key(k) for k in q["nos"]]
        try:
            c = coll.copy()
            if c is None: o["copy"] = None                 # the method ends without `return r` (candidate C17-1)
            else:
                o["copy"] = {"keys": sorted(c.keys()), "len": len(c), "no": [self._look(c, k) for k in q["nos"]],
                             "masks": sorted(getattr(c, "_masks", ())), "values": sorted(self._canon_port(p) for p in c.values())}
                if getattr(c, "_chain", None) is not None: o["copy"]["chain"] = True
        except Exception as e:
            o["copy"] = type(e).__name__
        return o

    def _canon_event(self, ev, con):
        stats = ev.stats if isinstance(ev.stats, list) else [ev.stats]
        parts = ev.ofp if isinstance(ev.ofp, list) else [ev.ofp]
        o = {"cls": type(ev).__name__, "stats": [(s.pack() if hasattr(s, "pack") else bytes(s)).hex() for s in stats],
             "xids": [p.xid for p in parts], "listlike": isinstance(ev.stats, list), "ofp_listlike": isinstance(ev.ofp, list)}
        if ev.dpid != con.dpid or ev.connection is not con: o["dpid"] = ev.dpid
        return o

    class _Session:
        """one connection of a case: scripted socket, recorders, handshake, message groups (several messages per read)"""
        def __init__(self, chk, case, dpid):
            self.chk, self.case, self.dpid = chk, case, dpid
            of_01 = chk.of_01
            self.sock = Sock()
            self.con = con = of_01.Connection(self.sock)
            chk._sessions[id(con)] = self
            self.seq = 0                      # messages unpacked so far on this connection
            self.base = None                  # value of seq when the connected phase starts
            self.events, self.raws, self.excs, self.nexus, self.at_event, self.live = [], [], [], [], [], []
            self.hs = {"up": [], "fr": [], "replay": []}
            self.escaped = None
            # the same events as the FIRST listener on the nexus sees them (a nexus-level listener may halt an event: the handler
            # then does not raise it on the connection, by design), the listeners' own log of what they answered, and how many
            # events of each kind each level's recorder has seen (the ordinal a listener's answer refers to)
            self.nraws, self.nat_event, self.hs_n, self.behlog, self.cnt = [], [], {"up": [], "fr": [], "replay": []}, [], {}
            self.beh = [b for b in (case.get("beh") or [])]
            self._beh_eids = []
            def wrap(u):
                if u is None: return None
                def w(raw, offset=0):
                    r = u(raw, offset); self.seq += 1; return r
                return w
            con.unpackers = [wrap(u) for u in con.unpackers]
            for name in STATS_EVENTS:
                con.addListenerByName(name, self._on_stats)
            def on_raw(ev):
                self.bump("con", "RawStatsReply"); self.raws.append((self.midx(), self._canon_raw(ev)))
            con.addListenerByName("RawStatsReply", on_raw)
            self.has_early = has_early = bool(case.get("early"))
            q = case["q"]
            def on_up(ev):
                self.bump("con", "ConnectionUp"); self.hs["up"].append(chk._snap(con, q))
            def on_fr(ev):
                self.bump("con", "FeaturesReceived")
                if self.base is None: self.hs["fr"].append(chk._snap(con, q) if has_early else None)
                else: self.at_event.append((self.midx(), self._view_at(ev)))
            con.addListenerByName("ConnectionUp", on_up)
            con.addListenerByName("FeaturesReceived", on_fr)
            con.addListenerByName("PortStatus", self._on_port_status)
            for spec in self.beh:                                    # the case's listeners: after the recorders on their level
                if spec["lv"] == "nexus" and spec["ev"] in chk._muted: continue       # muted = NO listener of that kind on the nexus
                src = chk.core.openflow if spec["lv"] == "nexus" else con
                self._beh_eids.append((src, src.addListenerByName(spec["ev"], self._beh_listener(spec), priority=-10, once=spec["sp"] in BEH_ONCE)))
            if case.get("hostile"):                                  # listeners that raise: registered after the recorders
                def boom(ev): raise RuntimeError("listener failure")
                for name in list(STATS_EVENTS) + ["PortStatus", "RawStatsReply"]:
                    con.addListenerByName(name, boom)

        def midx(self): return -1 if self.base is None else self.seq - self.base - 1

        def bump(self, lv, name): self.cnt[(lv, name)] = self.cnt.get((lv, name), 0) + 1

        def _canon_raw(self, ev):
            con = self.con
            return [ev.ofp.xid, ev.ofp.type, not ev.ofp.is_last_reply] + ([] if ev.dpid == con.dpid and ev.connection is con else ["dpid"])

        def _view_at(self, ev):
            """what a handler of a PortStatus / FeaturesReceived event raised in the connected phase sees"""
            chk, con = self.chk, self.con
            if type(ev).__name__ == "FeaturesReceived":
                return {"keys": sorted(con.ports.keys()), "okeys": sorted(con.original_ports.keys()), "fr": True}
            return {"keys": sorted(con.ports.keys()), "no": ev.ofp.desc.port_no, "look": chk._look(con.ports, ev.ofp.desc.port_no), "reason": ev.ofp.reason}

        def on_nexus(self, ev):
            chk, name, q = self.chk, type(ev).__name__, self.case["q"]
            self.bump("nexus", name)
            if name == "RawStatsReply": self.nraws.append((self.midx(), self._canon_raw(ev)))
            elif name == "ConnectionUp": self.hs_n["up"].append(chk._snap(self.con, q) if self.beh else None)
            elif self.base is not None: self.nat_event.append((self.midx(), self._view_at(ev)))
            elif name == "FeaturesReceived": self.hs_n["fr"].append(chk._snap(self.con, q) if self.beh and self.has_early else None)
            else: self.hs_n["replay"].append(chk._snap(self.con, q) if self.beh else None)

        def _beh_listener(self, spec):
            """a listener of one event kind on one level that answers with the spelling spec["sp"] while the connection handles one
            of the messages spec["at"] (-1 = the handshake; None = always) and plainly returns otherwise"""
            sess, revent = self, self.chk.revent
            lv, name, sp, at = spec["lv"], spec["ev"], spec["sp"], spec.get("at")
            def h(ev):
                if getattr(ev, "connection", None) is not sess.con: return None
                i = sess.midx()
                if at is not None and i not in at: return None
                sess.behlog.append((i, [lv, name, BEH[sp], sess.cnt.get((lv, name), 0) - 1]))
                if sp == "continue": return revent.EventContinue
                if sp == "one": return 1
                if sp == "raise": raise RuntimeError("listener of %s fails" % name)
                if sp == "raise_base": raise ListenerQuit()
                if sp == "raise_revent": raise revent.ReventError("listener of %s fails" % name)
                if sp in ("halt", "once_halt"): return revent.EventHalt
                if sp == "true": return True
                if sp == "sethalt": ev.halt = True; return None
                if sp == "empty": return ()
                if sp == "tuple_halt": return (True,)
                if sp == "haltremove": return revent.EventHaltAndRemove
                if sp == "tuple_haltremove": return (1, True)
                if sp == "remove": return revent.EventRemove
                if sp == "tuple_remove": return (False, True)
                if sp == "false": return False
                return None                                              # "none", "once"
            return h

        def _on_stats(self, ev):
            self.bump("con", type(ev).__name__)
            c = self.chk._canon_event(ev, self.con)
            self.events.append((self.midx(), c))
            self.live.append((ev, dict(c)))

        def _on_port_status(self, ev):
            chk, con = self.chk, self.con
            self.bump("con", "PortStatus")
            if self.base is None:
                self.hs["replay"].append(chk._snap(con, self.case["q"]))
            else:                                                    # what a PortStatus handler sees: the view with this notification applied
                self.at_event.append((self.midx(), self._view_at(ev)))

        def feed(self, data):
            chk = self.chk
            chk._reading = self
            try:
                while data:
                    self.sock.chunks.append(data[:2048]); data = data[2048:]
                    try:
                        r = self.con.read()
                    except Exception as e:             # OpenFlow_01_Task closes a connection whose read() raises
                        self.escaped = type(e).__name__; return False
                    if r is False: return False
                return True
            finally:
                chk._reading = None

        def handshake(self):
            chk, case, of = self.chk, self.case, self.chk.of
            ok = self.feed(of.ofp_hello(xid=1).pack())
            for m in case.get("pre", []):                                  # before the features reply: dropped by the handshake handler
                ok = ok and self.feed(chk._msg_bytes(m))
            ok = ok and self.feed(chk._msg_bytes({"t": "features", "ports": case["features"], "dpid": self.dpid}))
            for m in case.get("early", []):
                ok = ok and self.feed(chk._msg_bytes(m))
            bar, b = None, self.sock.sent
            while len(b) >= 8:
                l = struct.unpack("!H", b[2:4])[0]
                if l < 8: break
                if b[1] == of.OFPT_BARRIER_REQUEST: bar = struct.unpack("!L", b[4:8])[0]
                b = b[l:]
            if not ok or bar is None: return "no barrier request / connection closed"
            self.feed(of.ofp_barrier_reply(xid=bar).pack())
            if len(self.hs["up"]) != 1 and self.con.connect_time is None: return "connection did not come up"
            self.base = self.seq
            self.snaps = [chk._snap(self.con, case["q"])]
            self.groups = self._groups()
            self.alive = True
            return None

        def _groups(self):
            msgs, sizes = self.case["msgs"], self.case.get("groups")
            if not sizes or sum(sizes) != len(msgs): sizes = [1] * len(msgs)
            out, i = [], 0
            for n in sizes:
                out.append(list(range(i, i + n))); i += n
            return [g for g in out if g]

        def step(self):
            """feed the next group (several messages in one byte string); returns False when nothing is left"""
            if not self.groups or not self.alive: return False
            g = self.groups.pop(0)
            msgs = self.case["msgs"]
            self.alive = self.feed(b"".join(self.chk._msg_bytes(msgs[i]) for i in g))
            self.fed = g[-1]
            if self.alive and msgs[g[-1]].get("snap"): self.snaps.append(self.chk._snap(self.con, self.case["q"]))
            return True

        def result(self):
            n = len(self.case["msgs"])
            last = getattr(self, "fed", -1)
            outs = []
            for i in range(last + 1):
                o = {"events": [e for j, e in self.events if j == i], "raw": [r for j, r in self.raws if j == i]}
                ex = [x for j, x in self.excs if j == i]
                if ex: o["exc"] = ex
                mu = self.chk._muted
                nx = [e for j, e in self.nexus if j == i] + [e for e in o["events"] if e["cls"] in mu]
                if nx != o["events"]: o["nexus"] = nx
                ae = [a for j, a in self.at_event if j == i]
                if ae: o["at_event"] = ae
                nr = o["raw"] if "RawStatsReply" in mu else [r for j, r in self.nraws if j == i]
                if nr != o["raw"]: o["nraw"] = nr
                na = [a for j, a in self.nat_event if j == i] + [a for a in ae if ("FeaturesReceived" if a.get("fr") else "PortStatus") in mu]
                if na != ae: o["nat_event"] = na
                bl = [b for j, b in self.behlog if j == i]
                if bl: o["beh"] = bl
                outs.append(o)
            if not self.alive and outs: outs[-1]["closed"] = self.escaped or True
            stray = [e for j, e in self.events + self.nexus if not (0 <= j <= last)] + [r for j, r in self.raws + self.nraws if not (0 <= j <= last)]
            res = {"handshake": "up", "snaps": self.snaps, "outs": outs, "buf": len(self.con.buf),
                   "up_snaps": self.hs["up"], "fr_snaps": self.hs["fr"], "replay_snaps": self.hs["replay"]}
            if stray: res["stray"] = stray[:3]
            mu = self.chk._muted
            hsn = {k: (self.hs[k] if name in mu else self.hs_n[k]) for k, name in (("up", "ConnectionUp"), ("fr", "FeaturesReceived"), ("replay", "PortStatus"))}
            if self.beh:
                res.update({"n_up_snaps": hsn["up"], "n_fr_snaps": hsn["fr"], "n_replay_snaps": hsn["replay"],
                            "hs_beh": [b for j, b in self.behlog if j == -1]})
            elif [len(hsn[k]) for k in ("up", "fr", "replay")] != [len(self.hs[k]) for k in ("up", "fr", "replay")]:
                res["hs_nexus_counts"] = [len(hsn[k]) for k in ("up", "fr", "replay")]
            # events handed to listeners must not change afterwards (a list reused for the next event, say)
            for ev, c in self.live:
                now = self.chk._canon_event(ev, self.con)
                if now != c: res["mutated_later"] = [c["cls"], c["xids"]]; break
            return res

        def close(self):
            for src, eid in self._beh_eids:
                try: src.removeListener(eid)
                except Exception: pass
            self._beh_eids = []
            self.chk._sessions.pop(id(self.con), None)
            try: self.con.ofnexus._disconnect(self.con.dpid)
            except Exception: pass

    def impl(self, case):
        of_01 = self.of_01
        real_exc = of_01.log.exception
        def on_exc(*a, **k):
            s = self._reading
            if s is not None: s.excs.append((s.midx(), sys.exc_info()[0].__name__ if sys.exc_info()[0] else "?"))
        of_01.log.exception = on_exc
        sess = []
        try:
            self._set_muted(self.mute_of(case))
            a = self._Session(self, case, 0x17); sess.append(a)
            h = a.handshake()
            if h: return {"handshake": h}
            b = None
            if case.get("peer"):                               # a second connection, alive at the same time: nothing may leak across
                b = self._Session(self, case["peer"], 0x27); sess.append(b)
                h = b.handshake()
                if h: return {"handshake": "peer: " + h}
            more = True
            while more:
                more = a.step()
                if b is not None: more = b.step() or more
            res = a.result()
            if b is not None: res["peer"] = b.result()
            return res
        finally:
            of_01.log.exception = real_exc
            for s in sess: s.close()

    @staticmethod
    def _snap_flags(case):
        """a snapshot is taken after a message that asks for one and is the last of its read group"""
        msgs, sizes = case["msgs"], case.get("groups")
        if not sizes or sum(sizes) != len(msgs): sizes = [1] * len(msgs)
        last, i = set(), 0
        for n in sizes:
            i += n
            if n: last.add(i - 1)
        return [bool(m.get("snap")) and k in last for k, m in enumerate(msgs)]

    # ------------------------------------------------------------------ model
    def _ids(self, case):
        ids = {}
        for m in case["msgs"]:
            if m["t"] == "stats":
                for h in m["body"]: ids.setdefault(h, len(ids))
        return ids

    def model_request2(self, case, obs):
        if obs.get("handshake") != "up": return None
        ids = self._ids(case)
        q = case["q"]
        mq = {"nos": q["nos"], "names": [name_int(s) for s in q["names"]], "hws": [int(h, 16) for h in q["hws"]]}
        def seen(sn):
            f = lambda l: [(x[0] if isinstance(x, list) else None) for x in l]
            return {"name": f(sn["name"]), "hw": f(sn["hw"]), "oname": f(sn["oname"]), "ohw": f(sn["ohw"])}
        snaps = iter(obs["snaps"])
        hs = [{"t": "status", "reason": m["reason"], "port": pd_canon(m["port"])} for m in case.get("pre", [])]
        hs.append({"t": "features", "ports": [pd_canon(p) for p in case["features"]]})
        for m in case.get("early", []):
            hs.append({"t": "status", "reason": m["reason"], "port": pd_canon(m["port"])})
        seen0 = seen(next(snaps))
        ups, _frs, reps = self._hs_primary(case, obs)
        up = ups[0] if len(ups) == 1 else None
        levels = bool(case.get("beh"))
        msgs = []
        flags = self._snap_flags(case)
        for k, m in enumerate(case["msgs"]):
            if m["t"] == "status": mm = {"t": "status", "reason": m["reason"], "port": pd_canon(m["port"])}
            elif m["t"] == "features": mm = {"t": "features", "ports": [pd_canon(p) for p in m["ports"]]}
            elif m["t"] == "stats": mm = {"t": "stats", "xid": m["xid"], "type": m["type"], "more": m["more"], "body": [ids[h] for h in m["body"]]}
            else: mm = {"t": "other"}
            if flags[k]: mm["seen"] = seen(next(snaps))
            if levels and k < len(obs["outs"]):
                # what the nexus-level listeners answered while this message was handled (their own log): an input of the handlers
                hl = set(b[1] for b in obs["outs"][k].get("beh", []) if b[0] == "nexus" and b[2] in HALTING)
                mm["halt"] = ["RawStatsReply" in hl, bool(hl & set(STATS_EVENTS)), ("PortStatus" if m["t"] == "status" else "FeaturesReceived") in hl]
            msgs.append(mm)
        # copy() is compared when the implementation returns a collection (the unrepaired method returns None: candidate C17-1)
        req = {"q": mq, "hs": hs, "seen0": seen0, "msgs": msgs, "copy": all(sn.get("copy") is not None for sn in obs["snaps"]),
               "seen_replay": [seen(sn) for sn in reps]}
        if levels: req["levels"] = True
        if up is not None: req["seen_up"] = seen(up)
        return req

    SNAP_KEYS = ["keys", "len", "no", "in_no", "name", "in_name", "hw", "in_hw", "values", "items"]

    def impl_view(self, case, obs):
        if obs.get("handshake") != "up": return obs
        ids = self._ids(case)
        levels = bool(case.get("beh"))
        def outs_of(pick):
            outs = []
            for o in obs["outs"]:
                evs = pick(o)
                if o.get("exc"): outs.append({"raised": o["exc"][0]}); continue
                if len(evs) == 0: outs.append(None); continue
                if len(evs) > 1: outs.append({"many": len(evs)}); continue
                e = evs[0]
                outs.append({"type": STATS_EVENTS[e["cls"]], "stats": [ids.get(h, -1) for h in e["stats"]], "xids": e["xids"]})
            return outs
        def raws_of(pick):
            return [(pick(o)[0] if len(pick(o)) == 1 else (None if not pick(o) else {"many": pick(o)})) for o in obs["outs"]]
        outs = outs_of((lambda o: o.get("nexus", o["events"])) if levels else (lambda o: o["events"]))
        with_copy = all(sn.get("copy") is not None for sn in obs["snaps"])
        def proj(sn):
            d = {p + k: sn[p + k] for p in ("", "o") for k in self.SNAP_KEYS}
            for k in ("get", "get_dflt", "has_key"): d[k] = sn[k]
            if with_copy: d["copy"] = sn["copy"]
            return d
        snaps = [proj(sn) for sn in obs["snaps"]]
        raws = raws_of((lambda o: o.get("nraw", o["raw"])) if levels else (lambda o: o["raw"]))
        ups, _frs, reps = self._hs_primary(case, obs)
        v = {"outs": outs, "raws": raws, "snaps": snaps,
             "up_snap": proj(ups[0]) if len(ups) == 1 else {"ConnectionUp raised": len(ups)},
             "replay_snaps": [proj(sn) for sn in reps]}
        if levels:                                   # per level: the connection-level events are the nexus-level ones minus those halted there
            v["outs_con"] = outs_of(lambda o: o["events"]); v["raws_con"] = raws_of(lambda o: o["raw"])
            v["pev"] = [[len(o.get("nat_event", o.get("at_event", []))), len(o.get("at_event", []))] for o in obs["outs"]]
        return v

    def model_obs(self, case, resp):
        if "error" in resp: return resp
        v = {"outs": resp["outs"], "raws": resp["raws"], "snaps": resp["snaps"], "up_snap": resp.get("up_snap"),
             "replay_snaps": resp.get("replay_snaps")}
        if case.get("beh"):
            for k in ("outs_con", "raws_con", "pev"): v[k] = resp.get(k)
        return v

    @staticmethod
    def _hs_primary(case, obs):
        """the handshake's events as the FIRST listener sees them: on the nexus when the case has listeners of its own (recorded with
        snapshots then), else on the connection (the two are required to agree)"""
        if case.get("beh") and "n_up_snaps" in obs: return obs["n_up_snaps"], obs["n_fr_snaps"], obs["n_replay_snaps"]
        return obs["up_snaps"], obs["fr_snaps"], obs["replay_snaps"]

    @staticmethod
    def _con_level_ok(nexus_items, con_items, halted):
        """the connection-level events are the nexus-level ones, in order, except that one a nexus-level listener halted (ordinals
        `halted`) may be missing (it is, by design: the handlers skip the second raise)"""
        N, C, H = nexus_items, con_items, set(halted)
        def sub(i, j):
            if i == len(N): return j == len(C)
            if j < len(C) and N[i] == C[j] and sub(i + 1, j + 1): return True
            return i in H and sub(i + 1, j)
        return sub(0, 0)

    # ------------------------------------------------------------------ the property, on the implementation's observables
    def _check_coll(self, s, pre, cur, q, who):
        """cur: the abstract map number -> canonical port.  Returns a failure string or None."""
        vals = sorted(cur.values())
        if s[pre + "keys"] != sorted(cur): return "ports:keys:wrong: %s keys %s, expected %s" % (who, s[pre + "keys"], sorted(cur))
        if s[pre + "len"] != len(cur): return "ports:len:wrong: %s len %s, expected %d" % (who, s[pre + "len"], len(cur))
        if pre + "extra" in s: return "ports:iter:inconsistent: %s %s" % (who, sorted(s[pre + "extra"]))
        for k, got, isin in zip(q["nos"], s[pre + "no"], s[pre + "in_no"]):
            want = cur.get(k, "IndexError")
            if got != want: return "ports:by-no:%s: %s[%d] = %s, expected %s" % ("stale" if want == "IndexError" else "wrong", who, k, got, want)
            if isin != (k in cur): return "ports:contains:wrong: %d in %s = %s" % (k, who, isin)
        if s[pre + "values"] != vals: return "ports:values:wrong: %s values %s, expected %s" % (who, s[pre + "values"], vals)
        if s[pre + "items"] != sorted([k, v] for k, v in cur.items()): return "ports:items:wrong: %s" % who
        for view, field, keys, conv in (("by-name", 1, q["names"], name_int), ("by-hw", 2, q["hws"], lambda h: int(h, 16))):
            tag = "name" if view == "by-name" else "hw"
            for key, got, isin in zip(keys, s[pre + tag], s[pre + "in_" + tag]):
                have = [p for p in vals if p[field] == conv(key)]
                if got == "IndexError":
                    if have: return "ports:%s:missing: %s[%r] raises, but port %d carries it" % (view, who, key, have[0][0])
                elif not isinstance(got, list): return "ports:%s:%s: %s[%r]" % (view, got, who, key)
                elif got not in have:
                    return "ports:%s:stale: %s[%r] = port %d %s which is not in the current map" % (view, who, key, got[0], got)
                if isin != bool(have): return "ports:%s:contains-%s: %r in %s = %s" % (view, "stale" if isin else "missing", key, who, isin)
        return None

    def oracle(self, case, obs, top=True):
        if obs.get("handshake") != "up": return "handshake: " + str(obs.get("handshake"))
        q = case["q"]
        snap_flags = self._snap_flags(case)
        # ---- ports: fold the notifications into a map and compare every view after every snapshot
        def judged(f):
            nos = [p["no"] for p in f]
            return all(f[i] == f[nos.index(n)] for i, n in enumerate(nos))       # a number listed twice only with the same description
        orig = {p["no"]: pd_canon(p) for p in case["features"]}
        ok_feat = judged(case["features"])
        cur = dict(orig)
        def apply(m):
            nonlocal orig, cur, ok_feat
            if m["t"] == "status":
                if m["reason"] == 1: cur.pop(m["port"]["no"], None)
                elif m["reason"] in (0, 2): cur[m["port"]["no"]] = pd_canon(m["port"])
                else: return False                                               # an unknown reason: the property does not say
            elif m["t"] == "features":
                orig = {p["no"]: pd_canon(p) for p in m["ports"]}; cur = dict(orig); ok_feat = judged(m["ports"])
            return True
        defined = True
        snaps = iter(obs["snaps"])
        def check(s):
            if not (defined and ok_feat): return None
            f = self._check_coll(s, "", cur, q, "ports") or self._check_coll(s, "o", orig, q, "original_ports")
            if f: return f
            for k, g, gd, hk in zip(q["nos"], s["get"], s["get_dflt"], s["has_key"]):
                want = cur.get(k, "IndexError")
                if g != want or gd != cur.get(k, [0, 0, 0, 0]): return "ports:get:wrong: ports.get(%d) = %s / %s, expected %s" % (k, g, gd, want)
                if hk != (k in cur): return "ports:has_key:wrong: ports.has_key(%d) = %s" % (k, hk)
            c = s.get("copy")
            if c is not None:                                   # judged once the method returns its result (C17-1)
                if not isinstance(c, dict): return "ports:copy:%s: ports.copy() raised" % c
                if c["keys"] != sorted(cur) or c["len"] != len(cur) or c["values"] != sorted(cur.values()) or c["masks"] or c.get("chain") \
                   or c["no"] != [cur.get(k, "IndexError") for k in q["nos"]]:
                    return "ports:copy:wrong: ports.copy() = %s, expected the current map %s" % (c, sorted(cur.values()))
            return None
        # ---- at ConnectionUp / FeaturesReceived nothing has been dispatched yet: the view is the features reply; the statuses
        #      received during the handshake are dispatched afterwards, one PortStatus event each (C17 reads "notifications applied
        #      in order" relative to dispatch: at every event the view holds exactly the notifications dispatched so far)
        ups, frs, reps = self._hs_primary(case, obs)
        if len(ups) != 1 or len(frs) != 1:
            return "handshake:events:count: ConnectionUp raised %d times, FeaturesReceived %d times" % (len(ups), len(frs))
        if "hs_nexus_counts" in obs:
            return "handshake:nexus-differs: ConnectionUp / FeaturesReceived / replayed PortStatus raised %s times on the nexus" % (obs["hs_nexus_counts"],)
        if case.get("beh") and "n_up_snaps" in obs:                 # the connection level: the same, minus what a nexus-level listener halted
            hb = obs.get("hs_beh", [])
            for name, N, C in (("ConnectionUp", ups, obs["up_snaps"]), ("FeaturesReceived", frs, obs["fr_snaps"]), ("PortStatus", reps, obs["replay_snaps"])):
                if not self._con_level_ok(N, C, [b[3] for b in hb if b[0] == "nexus" and b[1] == name and b[2] in HALTING]):
                    return "handshake:con-level:differs: %s raised %d times on the nexus and %d times on the connection, not explained by halting listeners" % (name, len(N), len(C))
        for tag, sn in (("ConnectionUp", ups[0]), ("FeaturesReceived", frs[0])):
            if sn is None: continue                       # not recorded (no status was received during this handshake)
            f = check(sn)
            if f: return f.replace("ports:", "ports-at-up:", 1) + " (at %s)" % tag
        early = case.get("early", [])
        if len(reps) != len(early):
            return "handshake:replay:count: %d port statuses received during the handshake, %d PortStatus events when the connection came up" % (len(early), len(reps))
        for k, m in enumerate(early):
            defined = apply(m) and defined
            f = check(reps[k])
            if f: return f.replace("ports:", "ports-at-replay:", 1) + " (at replayed PortStatus %d)" % k
        f = check(next(snaps))
        if f: return f + " (after handshake)"
        # ---- statistics: per request, the open parts; the event due at each message
        open_parts, tainted, crossed = {}, set(), set()
        for i, (m, o) in enumerate(zip(case["msgs"], obs["outs"])):
            # the events as the first listener on the nexus sees them (what "fires" means whatever other listeners do); on the
            # connection: the same, except that an event a nexus-level listener halted may be missing there
            halted = set(b[1] for b in o.get("beh", []) if b[0] == "nexus" and b[2] in HALTING)
            evs = o.get("nexus", o["events"])
            want_raw = [[m["xid"], m["type"], m["more"]]] if m["t"] == "stats" else []
            nraw = o.get("nraw", o["raw"])
            if nraw != want_raw: return "stats:raw:wrong: message %d (%s) raised RawStatsReply %s, expected %s" % (i, m["t"], nraw, want_raw)
            if o["raw"] != nraw and not (o["raw"] == [] and "RawStatsReply" in halted):
                return "stats:raw:con-differs: message %d raised RawStatsReply %s on the connection, %s on the nexus" % (i, o["raw"], nraw)
            if any("dpid" in e for e in evs + o["events"]): return "stats:event:wrong-dpid: message %d" % i
            if "nexus" in o and not (o["events"] == [] and len(evs) == 1 and evs[0]["cls"] in halted):
                return "stats:nexus-differs: message %d: nexus saw %d events, connection %d" % (i, len(o["nexus"]), len(o["events"]))
            if o.get("closed"): return "conn:closed: message %d closed the connection" % i
            if m["t"] == "stats":
                key = (m["xid"], m["type"])
                for k, v in open_parts.items():
                    if k != key and v: crossed.add(k); crossed.add(key)     # another request's part arrives while k is open
                ctx = "interleaved" if key in crossed else "sequential"
                if not m["more"]: crossed.discard(key)
                if m["type"] not in HANDLED or (m["more"] and m["type"] not in MULTIPART):
                    tainted.add(key)
                if key in tainted:
                    pass                                                        # not a reply the property speaks about
                elif m["more"]:
                    open_parts.setdefault(key, []).append(m)
                    if evs: return "stats:%s:early: message %d (part with REPLY_MORE) raised %s" % (ctx, i, evs[0]["cls"])
                else:
                    parts = open_parts.pop(key, []) + [m]
                    want_stats = [h for p in parts for h in p["body"]]
                    if len(evs) == 0:
                        return "stats:%s:lost: final part of request xid=%d type=%d (message %d, %d parts) raised no event%s" % (
                            ctx, m["xid"], m["type"], i, len(parts), (" [" + o["exc"][0] + "]") if o.get("exc") else "")
                    if len(evs) > 1: return "stats:%s:duplicate: message %d raised %d events" % (ctx, i, len(evs))
                    e = evs[0]
                    if e["listlike"] != (m["type"] in MULTIPART) or e.get("ofp_listlike") != (m["type"] in MULTIPART):
                        return "stats:%s:wrong-shape: type %d event has .stats %s, .ofp %s" % (ctx, m["type"], "list" if e["listlike"] else "object", "list" if e.get("ofp_listlike") else "message")
                    if STATS_EVENTS.get(e["cls"]) != m["type"]: return "stats:%s:wrong-class: type %d raised %s" % (ctx, m["type"], e["cls"])
                    if e["stats"] != want_stats:
                        kind = "merged" if len(e["stats"]) > len(want_stats) else ("truncated" if len(e["stats"]) < len(want_stats) else "reordered")
                        return "stats:%s:%s: request xid=%d type=%d: event carries %d entries, its parts carry %d" % (ctx, kind, m["xid"], m["type"], len(e["stats"]), len(want_stats))
                    if e["xids"] != [p["xid"] for p in parts] and m["type"] in MULTIPART: return "stats:%s:wrong-parts: event.ofp xids %s" % (ctx, e["xids"])
            else:
                if evs: return "stats:spurious: a %s message raised %s" % (m["t"], evs[0]["cls"])
                defined = apply(m) and defined
                ae_con = o.get("at_event", [])
                ae = o.get("nat_event", ae_con)
                if m["t"] in ("status", "features"):                   # the PortStatus / FeaturesReceived handlers see the view with this message applied
                    ename = "PortStatus" if m["t"] == "status" else "FeaturesReceived"
                    if len(ae) != 1: return "ports:event:count: %s message %d raised %d %s events" % (m["t"], i, len(ae), ename)
                    if ae_con != ae and not (ae_con == [] and ename in halted):
                        return "ports:event:con-differs: message %d: %s raised %d times on the connection, %d on the nexus (or with another view)" % (i, ename, len(ae_con), len(ae))
                    if defined and ok_feat and m["t"] == "status":
                        want = cur.get(m["port"]["no"], "IndexError")
                        if ae[0].get("keys") != sorted(cur) or ae[0].get("look") != want:
                            return "ports:at-event:wrong: inside the PortStatus handler of message %d ports[%d] = %s keys %s, expected %s keys %s" % (
                                i, m["port"]["no"], ae[0].get("look"), ae[0].get("keys"), want, sorted(cur))
                    if defined and ok_feat and m["t"] == "features":
                        if ae[0].get("keys") != sorted(cur) or ae[0].get("okeys") != sorted(orig):
                            return "ports:at-event:wrong: inside the FeaturesReceived handler of message %d ports has keys %s, original_ports %s, expected %s" % (
                                i, ae[0].get("keys"), ae[0].get("okeys"), sorted(cur))
                elif ae or ae_con: return "ports:event:spurious: a %s message raised a port event" % m["t"]
            if snap_flags[i]:
                f = check(next(snaps))
                if f: return f + " (after message %d)" % i
        if obs.get("stray"): return "stats:stray:event: an event outside the handling of any message: %s" % (obs["stray"][:1],)
        if obs.get("mutated_later"): return "stats:event:mutated-later: the event %s handed to listeners changed afterwards" % (obs["mutated_later"],)
        if len(obs["outs"]) != len(case["msgs"]): return "conn:closed: only %d of %d messages were handled" % (len(obs["outs"]), len(case["msgs"]))
        if top and case.get("peer"):                                   # the second connection, judged on its own: nothing of this one may show up there
            if "peer" not in obs: return "peer:missing: no observation of the second connection"
            f = self.oracle(case["peer"], obs["peer"], top=False)
            if f: return "peer:" + f
        return None

    def finding_key(self, case, obs, failure):
        return ":".join(failure.split(":")[:3]).strip()

    def nontrivial(self, case, obs):
        if obs.get("handshake") != "up": return False
        sn = obs["snaps"]
        changed = any(a != b for a, b in zip(sn, sn[1:]))
        multi = any(len(o["events"]) == 1 and len(o["events"][0]["xids"]) >= 2 for o in obs["outs"])
        keys = [(m["xid"], m["type"]) for m in case["msgs"] if m["t"] == "stats"]
        overlap = any(keys[i] != keys[i + 1] and keys[i] in keys[i + 2:] for i in range(len(keys) - 2))
        return changed or multi or overlap

    def shrink_candidates(self, case):
        for k in ("peer", "groups", "hostile", "beh", "mute"):
            if case.get(k):
                c = dict(case); c.pop(k); yield c
        beh = case.get("beh") or []
        if len(beh) > 1:
            for i in range(len(beh)):
                c = dict(case); c["beh"] = beh[:i] + beh[i + 1:]; yield c
        for i, b in enumerate(beh):                      # one listener: one message at a time
            if b.get("at") is None or len(b["at"]) > 1:
                for a in (b["at"] if b.get("at") is not None else range(-1, len(case["msgs"]))):
                    c = dict(case); c["beh"] = beh[:i] + [dict(b, at=[a])] + beh[i + 1:]; yield c
        if case.get("peer"):
            for pc in self.shrink_candidates(case["peer"]):
                c = dict(case); c["peer"] = pc; yield c
        for i in range(len(case["msgs"])):
            c = dict(case); c["msgs"] = case["msgs"][:i] + case["msgs"][i + 1:]; c.pop("groups", None)
            if beh:                                      # the listeners' "at" refers to message indices
                c["beh"] = [b if b.get("at") is None else dict(b, at=[a - (a > i) for a in b["at"] if a != i]) for b in beh]
            yield c
        for i in range(len(case.get("early", []))):
            c = dict(case); c["early"] = case["early"][:i] + case["early"][i + 1:]; yield c
        if case.get("pre"):
            c = dict(case); c["pre"] = []; yield c
        for i in range(len(case["features"])):
            c = dict(case); c["features"] = case["features"][:i] + case["features"][i + 1:]; yield c
        for i, m in enumerate(case["msgs"]):
            if m["t"] == "stats" and len(m["body"]) > 1:
                c = dict(case); c["msgs"] = list(case["msgs"]); c["msgs"][i] = dict(m, body=m["body"][:1]); yield c

CHECK = C17
