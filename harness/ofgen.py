"""Structured generator of valid OpenFlow 1.0 objects built from the library's own classes (used by C01, C02, C10, C13).
Every random choice comes from the `rng` passed in.  Objects are described as JSON-able specs
({"cls": name, "kw": {...}}) so that cases can be written to replay files; `build(spec)` constructs the object."""
import pox.openflow.libopenflow_01 as of
from pox.lib.addresses import EthAddr, IPAddr

U8, U16, U32, U64 = 0xff, 0xffff, 0xffffffff, 0xffffffffffffffff


def rint(rng, mx):
    return rng.choice([0, 1, mx, (mx + 1) >> 1, rng.randint(0, mx), rng.randint(0, mx)])


def rbytes(rng, n):
    return bytes(rng.randint(0, 255) for _ in range(n))


def rmac(rng):
    return rbytes(rng, 6).hex()


def rname(rng, mx):
    n = rng.choice([0, 1, mx - 1, rng.randint(0, mx - 1)])
    return "".join(rng.choice("abcxyz019-_") for _ in range(n))


def phy_port(rng):
    return {"cls": "ofp_phy_port", "kw": dict(port_no=rint(rng, U16), hw_addr=rmac(rng), name=rname(rng, 16),
            config=rint(rng, U32), state=rint(rng, U32), curr=rint(rng, U32), advertised=rint(rng, U32),
            supported=rint(rng, U32), peer=rint(rng, U32))}


def match(rng, normal=True):
    """a match built the way controller code builds one: set a random subset of fields (prerequisites respected when
    `normal`), everything else wildcarded"""
    kw = {}
    if rng.random() < 0.5: kw["in_port"] = rint(rng, U16)
    if rng.random() < 0.4: kw["dl_src"] = rmac(rng)
    if rng.random() < 0.4: kw["dl_dst"] = rmac(rng)
    if rng.random() < 0.3: kw["dl_vlan"] = rng.choice([0, 1, 4095, 0xffff, rng.randint(0, 4095)])
    if rng.random() < 0.2: kw["dl_vlan_pcp"] = rng.randint(0, 7)
    kind = rng.choice(["none", "ip", "ip", "arp", "other"])
    if kind == "ip":
        kw["dl_type"] = 0x800
        if rng.random() < 0.6: kw["nw_src"] = [rbytes(rng, 4).hex(), rng.choice([32, 32, 24, 8, 1, rng.randint(1, 32)])]
        if rng.random() < 0.6: kw["nw_dst"] = [rbytes(rng, 4).hex(), rng.choice([32, 32, 24, 8, 1, rng.randint(1, 32)])]
        if rng.random() < 0.3: kw["nw_tos"] = rng.randint(0, 63) << 2
        if rng.random() < 0.7:
            kw["nw_proto"] = rng.choice([1, 6, 17])
            if rng.random() < 0.6: kw["tp_src"] = rint(rng, U16 if kw["nw_proto"] != 1 else U8)
            if rng.random() < 0.6: kw["tp_dst"] = rint(rng, U16 if kw["nw_proto"] != 1 else U8)
    elif kind == "arp":
        kw["dl_type"] = 0x806
        if rng.random() < 0.5: kw["nw_proto"] = rng.choice([1, 2])
        if rng.random() < 0.5: kw["nw_src"] = [rbytes(rng, 4).hex(), 32]
        if rng.random() < 0.5: kw["nw_dst"] = [rbytes(rng, 4).hex(), 32]
    elif kind == "other":
        kw["dl_type"] = rng.choice([0x88cc, 0x86dd, 0x05ff, rng.randint(1536, U16)])
    return {"cls": "ofp_match", "kw": kw}


def action(rng):
    k = rng.randint(0, 12)
    if k == 0: return {"cls": "ofp_action_output", "kw": dict(port=rng.choice([rint(rng, 0xff00), of.OFPP_FLOOD, of.OFPP_ALL, of.OFPP_IN_PORT, of.OFPP_TABLE]))}
    if k == 1: return {"cls": "ofp_action_output", "kw": dict(port=of.OFPP_CONTROLLER, max_len=rint(rng, U16))}
    if k == 2: return {"cls": "ofp_action_enqueue", "kw": dict(port=rint(rng, U16), queue_id=rint(rng, U32))}
    if k == 3: return {"cls": "ofp_action_strip_vlan", "kw": {}}
    if k == 4: return {"cls": "ofp_action_vlan_vid", "kw": dict(vlan_vid=rint(rng, U16))}
    if k == 5: return {"cls": "ofp_action_vlan_pcp", "kw": dict(vlan_pcp=rint(rng, U8))}
    if k == 6: return {"cls": "ofp_action_dl_addr", "kw": dict(type=rng.choice([4, 5]), dl_addr=rmac(rng))}
    if k == 7: return {"cls": "ofp_action_nw_addr", "kw": dict(type=rng.choice([6, 7]), nw_addr=rbytes(rng, 4).hex())}
    if k == 8: return {"cls": "ofp_action_nw_tos", "kw": dict(nw_tos=rint(rng, U8))}
    if k == 9: return {"cls": "ofp_action_tp_port", "kw": dict(type=rng.choice([9, 10]), tp_port=rint(rng, U16))}
    if k == 10: return {"cls": "ofp_action_vendor_generic", "kw": dict(vendor=rint(rng, U32), body=rbytes(rng, 4 + 8 * rng.randint(0, 3)).hex())}
    return {"cls": "ofp_action_output", "kw": dict(port=rng.randint(1, 48))}


def actions(rng, mx=6):
    return [action(rng) for _ in range(rng.choice([0, 1, 1, 2, rng.randint(0, mx)]))]


def queue_prop(rng):
    if rng.random() < 0.5:
        return {"cls": "ofp_queue_prop_min_rate", "kw": dict(rate=rint(rng, U16))}
    return {"cls": "ofp_queue_prop_none", "kw": {}}


def packet_queue(rng):
    return {"cls": "ofp_packet_queue", "kw": dict(queue_id=rint(rng, U32), properties=[queue_prop(rng) for _ in range(rng.randint(0, 3))])}


def flow_stats(rng):
    return {"cls": "ofp_flow_stats", "kw": dict(table_id=rint(rng, U8), match=match(rng), duration_sec=rint(rng, U32),
            duration_nsec=rint(rng, U32), priority=rint(rng, U16), idle_timeout=rint(rng, U16), hard_timeout=rint(rng, U16),
            cookie=rint(rng, U64), packet_count=rint(rng, U64), byte_count=rint(rng, U64), actions=actions(rng, 4))}


def port_stats(rng):
    kw = dict(port_no=rint(rng, U16))
    for f in ("rx_packets", "tx_packets", "rx_bytes", "tx_bytes", "rx_dropped", "tx_dropped", "rx_errors", "tx_errors",
              "rx_frame_err", "rx_over_err", "rx_crc_err", "collisions"):
        kw[f] = rint(rng, U64)
    return {"cls": "ofp_port_stats", "kw": kw}


def queue_stats(rng):
    return {"cls": "ofp_queue_stats", "kw": dict(port_no=rint(rng, U16), queue_id=rint(rng, U32), tx_bytes=rint(rng, U64),
            tx_packets=rint(rng, U64), tx_errors=rint(rng, U64))}


def table_stats(rng):
    return {"cls": "ofp_table_stats", "kw": dict(table_id=rint(rng, U8), name=rname(rng, 32), wildcards=rint(rng, U32),
            max_entries=rint(rng, U32), active_count=rint(rng, U32), lookup_count=rint(rng, U64), matched_count=rint(rng, U64))}


def desc_stats(rng):
    return {"cls": "ofp_desc_stats", "kw": dict(mfr_desc=rname(rng, 256), hw_desc=rname(rng, 256), sw_desc=rname(rng, 256),
            serial_num=rname(rng, 32), dp_desc=rname(rng, 256))}


MESSAGE_KINDS = ["hello", "error", "echo_request", "echo_reply", "vendor", "features_request", "features_reply",
                 "get_config_request", "get_config_reply", "set_config", "packet_in", "flow_removed", "port_status",
                 "packet_out", "flow_mod", "port_mod", "stats_request", "stats_reply", "barrier_request", "barrier_reply",
                 "queue_get_config_request", "queue_get_config_reply"]

STATS_REQ = ["desc", "flow", "aggregate", "table", "port", "queue"]
STATS_REP = ["desc", "flow", "aggregate", "table", "port", "queue"]


def message(rng, kind=None, small=False):
    kind = kind or rng.choice(MESSAGE_KINDS)
    xid = rint(rng, U32)
    dl = (lambda: rng.choice([0, 1, 7, rng.randint(0, 64)])) if small else (lambda: rng.choice([0, 1, 60, 64, rng.randint(0, 1500)]))
    if kind == "hello": return {"cls": "ofp_hello", "kw": dict(xid=xid)}
    if kind == "error": return {"cls": "ofp_error", "kw": dict(xid=xid, type=rng.randint(0, 5), code=rng.randint(0, 8), data=rbytes(rng, dl()).hex())}
    if kind == "echo_request": return {"cls": "ofp_echo_request", "kw": dict(xid=xid, body=rbytes(rng, dl()).hex())}
    if kind == "echo_reply": return {"cls": "ofp_echo_reply", "kw": dict(xid=xid, body=rbytes(rng, dl()).hex())}
    if kind == "vendor": return {"cls": "ofp_vendor_generic", "kw": dict(xid=xid, vendor=rint(rng, U32), data=rbytes(rng, dl()).hex())}
    if kind == "features_request": return {"cls": "ofp_features_request", "kw": dict(xid=xid)}
    if kind == "features_reply":
        return {"cls": "ofp_features_reply", "kw": dict(xid=xid, datapath_id=rint(rng, U64), n_buffers=rint(rng, U32), n_tables=rint(rng, U8),
                capabilities=rint(rng, U32), actions=rint(rng, U32), ports=[phy_port(rng) for _ in range(rng.randint(0, 3 if small else 8))])}
    if kind == "get_config_request": return {"cls": "ofp_get_config_request", "kw": dict(xid=xid)}
    if kind == "get_config_reply": return {"cls": "ofp_get_config_reply", "kw": dict(xid=xid, flags=rint(rng, U16), miss_send_len=rint(rng, U16))}
    if kind == "set_config": return {"cls": "ofp_set_config", "kw": dict(xid=xid, flags=rint(rng, U16), miss_send_len=rint(rng, U16))}
    if kind == "packet_in":
        return {"cls": "ofp_packet_in", "kw": dict(xid=xid, buffer_id=rng.choice([None, rint(rng, U32 - 1)]), in_port=rint(rng, U16), reason=rng.randint(0, 1), data=rbytes(rng, dl()).hex())}
    if kind == "flow_removed":
        return {"cls": "ofp_flow_removed", "kw": dict(xid=xid, match=match(rng), cookie=rint(rng, U64), priority=rint(rng, U16), reason=rng.randint(0, 2),
                duration_sec=rint(rng, U32), duration_nsec=rint(rng, U32), idle_timeout=rint(rng, U16), packet_count=rint(rng, U64), byte_count=rint(rng, U64))}
    if kind == "port_status": return {"cls": "ofp_port_status", "kw": dict(xid=xid, reason=rng.randint(0, 2), desc=phy_port(rng))}
    if kind == "packet_out":
        bid = rng.choice([None, rint(rng, U32 - 1)])
        return {"cls": "ofp_packet_out", "kw": dict(xid=xid, buffer_id=bid, in_port=rint(rng, U16), actions=actions(rng), data=(rbytes(rng, dl()).hex() if bid is None else ""))}
    if kind == "flow_mod":
        return {"cls": "ofp_flow_mod", "kw": dict(xid=xid, match=match(rng), cookie=rint(rng, U64), command=rng.randint(0, 4), idle_timeout=rint(rng, U16),
                hard_timeout=rint(rng, U16), priority=rint(rng, U16), buffer_id=rng.choice([None, rint(rng, U32 - 1)]), out_port=rint(rng, U16),
                flags=rng.randint(0, 7), actions=actions(rng))}
    if kind == "port_mod": return {"cls": "ofp_port_mod", "kw": dict(xid=xid, port_no=rint(rng, U16), hw_addr=rmac(rng), config=rint(rng, U32), mask=rint(rng, U32), advertise=rint(rng, U32))}
    if kind == "stats_request":
        t = rng.choice(STATS_REQ)
        if t == "desc": body = {"cls": "ofp_desc_stats_request", "kw": {}}
        elif t == "table": body = {"cls": "ofp_table_stats_request", "kw": {}}
        elif t == "flow": body = {"cls": "ofp_flow_stats_request", "kw": dict(match=match(rng), table_id=rint(rng, U8), out_port=rint(rng, U16))}
        elif t == "aggregate": body = {"cls": "ofp_aggregate_stats_request", "kw": dict(match=match(rng), table_id=rint(rng, U8), out_port=rint(rng, U16))}
        elif t == "port": body = {"cls": "ofp_port_stats_request", "kw": dict(port_no=rint(rng, U16))}
        else: body = {"cls": "ofp_queue_stats_request", "kw": dict(port_no=rint(rng, U16), queue_id=rint(rng, U32))}
        return {"cls": "ofp_stats_request", "kw": dict(xid=xid, flags=rint(rng, U16), body=body)}
    if kind == "stats_reply":
        t = rng.choice(STATS_REP)
        n = rng.randint(0, 3 if small else 12)
        if t == "desc": body = desc_stats(rng)
        elif t == "aggregate": body = {"cls": "ofp_aggregate_stats", "kw": dict(packet_count=rint(rng, U64), byte_count=rint(rng, U64), flow_count=rint(rng, U32))}
        elif t == "flow": body = [flow_stats(rng) for _ in range(n)]
        elif t == "table": body = [table_stats(rng) for _ in range(n)]
        elif t == "port": body = [port_stats(rng) for _ in range(n)]
        else: body = [queue_stats(rng) for _ in range(n)]
        tcode = {"desc": 0, "flow": 1, "aggregate": 2, "table": 3, "port": 4, "queue": 5}[t]
        return {"cls": "ofp_stats_reply", "kw": dict(xid=xid, type=tcode, flags=rng.choice([0, 1]), body=body)}
    if kind == "barrier_request": return {"cls": "ofp_barrier_request", "kw": dict(xid=xid)}
    if kind == "barrier_reply": return {"cls": "ofp_barrier_reply", "kw": dict(xid=xid)}
    if kind == "queue_get_config_request": return {"cls": "ofp_queue_get_config_request", "kw": dict(xid=xid, port=rint(rng, U16))}
    if kind == "queue_get_config_reply":
        return {"cls": "ofp_queue_get_config_reply", "kw": dict(xid=xid, port=rint(rng, U16), queues=[packet_queue(rng) for _ in range(rng.randint(0, 3))])}
    raise KeyError(kind)


_HEX_FIELDS = {"data", "body"}


def build(spec):
    """spec → library object"""
    if isinstance(spec, list):
        return [build(s) for s in spec]
    if not isinstance(spec, dict) or "cls" not in spec:
        return spec
    cls = getattr(of, spec["cls"])
    kw = {}
    for k, v in spec["kw"].items():
        if isinstance(v, dict) and "cls" in v: v = build(v)
        elif isinstance(v, list) and v and isinstance(v[0], dict) and "cls" in v[0]: v = [build(x) for x in v]
        elif k in ("hw_addr", "dl_addr", "dl_src", "dl_dst") and isinstance(v, str): v = EthAddr(bytes.fromhex(v))
        elif k == "nw_addr": v = IPAddr(bytes.fromhex(v))
        elif k in ("nw_src", "nw_dst") and isinstance(v, list): v = (IPAddr(bytes.fromhex(v[0])), v[1])
        elif k in _HEX_FIELDS and isinstance(v, str): v = bytes.fromhex(v)
        kw[k] = v
    return cls(**kw)
