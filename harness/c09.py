"""C09 — connection lifecycle events and the connection registry stay consistent (DESIGN §5 C09).

Implementation side: the REAL `OpenFlow_01_Task.run` generator is driven by hand (its `Select` yields are answered by this
harness, its listener socket is a fake whose `accept()` hands out scripted sockets), so real `of_01.Connection` objects are
created, read, closed and dropped exactly by the code under test; the real default/handshake handler tables and the real
`core.openflow` nexus are used.  Observed: every event on the nexus and on each Connection, every message written to
each socket (type, xid), every `nexus._connect`, what `sendToDPID` returns, which connections the task still selects on,
the registry after every operation."""
import os, struct, errno, itertools, random, socket as real_socket
import common, poxenv, ofgen
from common import Check

EVENTS = ["ConnectionHandshakeComplete", "ConnectionUp", "FeaturesReceived", "PortStatus", "ConnectionDown", "PacketIn",
          "ErrorIn", "BarrierIn", "RawStatsReply", "SwitchDescReceived"]
TAGGED = {"PortStatus", "PacketIn", "ErrorIn", "BarrierIn"}        # events whose argument is the xid of the message
T_HELLO, T_ERROR, T_ECHO_REQ, T_FEAT_REP, T_PACKET_IN, T_PORT_STATUS, T_STATS_REP, T_BARRIER_REQ, T_BARRIER_REP = 0, 1, 2, 6, 10, 12, 17, 18, 19
KIND_OF_TYPE = {0: "hello", 1: "error", 2: "echo_request", 3: "echo_reply", 6: "features_reply", 10: "packet_in", 12: "port_status", 17: "stats_desc", 19: "barrier_reply"}
ASYNC = ["port_status", "echo_request", "packet_in", "error", "echo_reply", "error0"]
BAD_XID = 0x7ffffff0                                                # never drawn by the counter in a run of this size


class ListenerQuit(BaseException):
    """what a listener with the outcome "raise_base" raises (not an Exception)"""


class Sock:
    """scripted socket of one switch connection"""
    def __init__(self, world, idx):
        self.w, self.idx, self.chunks, self.broken, self.shut, self.closed = world, idx, [], False, False, False
    def recv(self, n, flags=0):
        if self.chunks:
            c = self.chunks.pop(0)
            assert len(c) <= n, "batch larger than one recv"
            return c
        return b""                                                  # EOF
    def send(self, d, flags=0):
        if self.broken: raise real_socket.error(errno.EPIPE, "Broken pipe")
        d = bytes(d); o = 0
        while o < len(d):
            ln = struct.unpack("!H", d[o + 2:o + 4])[0]
            self.w.log.append(["sent", self.idx, d[o + 1], struct.unpack("!L", d[o + 4:o + 8])[0]])
            o += max(ln, 8)
        return len(d)
    def shutdown(self, *a):
        if self.shut: raise real_socket.error(errno.ENOTCONN, "Transport endpoint is not connected")
        self.shut = True
    def close(self): self.closed = True
    def fileno(self): return 1000 + self.idx
    def setblocking(self, b): pass
    def getpeername(self): return ("peer", 6633)


class Listener:
    def __init__(self): self.q = []
    def setsockopt(self, *a): pass
    def bind(self, *a): pass
    def listen(self, *a): pass
    def setblocking(self, *a): pass
    def accept(self): return (self.q.pop(0), ("peer", 1))
    def close(self): pass
    def fileno(self): return 999


class SocketShim:
    """stands in for the `socket` module inside of_01 while a case runs (only the listener is created through it)"""
    AF_INET, SOCK_STREAM, SOL_SOCKET, SO_REUSEADDR = real_socket.AF_INET, real_socket.SOCK_STREAM, real_socket.SOL_SOCKET, real_socket.SO_REUSEADDR
    error, SHUT_RDWR = real_socket.error, real_socket.SHUT_RDWR
    def __init__(self): self.listener = None
    def socket(self, *a):
        self.listener = Listener(); return self.listener


def hdr(ty, ln, xid): return struct.pack("!BBHL", 1, ty, ln, xid)


class World:
    """one fresh controller: nexus registry empty, xid counter at 1, a new run of the real OpenFlow task loop"""
    def __init__(self, chk):
        self.chk = chk
        of_01, of, core = chk.of_01, chk.of, chk.core
        self.log, self.cons, self.socks, self.inlog = [], [], [], []
        self.nexus = core.openflow
        self.nexus._connections.clear()
        chk.sink[0] = self
        of_01.Connection._aborted_connections = 1                   # keeps the "N connections aborted" debug timer out of the run
        self.shim = SocketShim()
        of_01.socket = self.shim
        of.generate_xid = of.xid_generator()
        self.gen = chk.task.run()
        self.sel = self.gen.send(None)
        self.L = self.shim.listener
        self.selected = []
        self.dead_task = None
        self.re_count = {}                                           # (level, event kind, action, connection) -> times the re-entrant listener acted

    def idx(self, con):
        for i, c in enumerate(self.cons):
            if c is con: return i
        return -1

    def _resume(self, r, w, e):
        try:
            self.sel = self.gen.send((r, w, e))
        except StopIteration:
            self.dead_task = "task loop ended"; return
        except (KeyboardInterrupt, SystemExit):
            raise
        except BaseException as ex:                                  # an exception that escapes the task loop kills the controller's I/O
            self.dead_task = "task loop died: " + type(ex).__name__; return
        now = [s for s in self.sel._args[0] if s is not self.L]
        for c in self.selected:
            if not any(c is n for n in now):
                self.log.append(["closed", self.idx(c)])
        self.selected = now

    def connect(self, before=(), after=(), elist=()):
        """the listener is readable (one accept); `before` / `after` = other readable connections of the same select round"""
        i = len(self.socks)
        s = Sock(self, i); self.socks.append(s); self.L.q.append(s)
        # the Connection is created inside the task; its listeners are attached right after (nothing is raised in __init__)
        self.cons.append(None)
        old_init = self.chk.of_01.Connection.__init__
        w = self
        def init_and_record(con, sock):
            w.cons[i] = con                                          # so that Sock.send during __init__ is attributed
            old_init(con, sock)
        self.chk.of_01.Connection.__init__ = init_and_record
        try:
            self._resume(list(before) + [self.L] + list(after), [], list(elist))
        finally:
            self.chk.of_01.Connection.__init__ = old_init
        con = self.cons[i]
        if con is None: return
        for name in EVENTS:
            cls = getattr(self.chk.of_01, name)
            if cls in con._eventMixin_events:
                con.addListener(cls, self.chk.recorder("con", name), priority=1000000)
                sp = self.chk.beh.get(("con", name))
                if sp is not None:
                    con.addListener(cls, self.chk.beh_listener("con", name, sp), priority=-10, once=sp in self.chk.ONCE_SPELLINGS)
                for lv, ev, act in self.chk.re:                      # re-entrant listeners on the Connection itself (case["re"])
                    if lv == "con" and ev == name: con.addListener(cls, self.chk.re_listener("con", name, act), priority=5)
        unp = list(con.unpackers)
        def wrap(u, ty):
            def f(raw, offset=0):
                r = u(raw, offset)
                m = r[1]
                extra = [m.type, m.code] if ty == T_ERROR else (m.datapath_id if ty == T_FEAT_REP else None)
                w.log.append(["in", i, ty, m.xid, extra])
                return r
            return f
        con.unpackers = [wrap(u, t) if u is not None else None for t, u in enumerate(unp)]

    def is_selected(self, i):
        return i < len(self.cons) and self.cons[i] is not None and any(self.cons[i] is c for c in self.selected)

    def recv(self, i, data):
        if self.dead_task or not self.is_selected(i): return False
        self.socks[i].chunks.append(data)
        self._resume([self.cons[i]], [], [])
        return True

    def lose(self, i, via):
        if self.dead_task or not self.is_selected(i): return False
        if via == "err": self._resume([], [], [self.cons[i]])
        elif via == "exc":                                           # an exception leaves read(): a message of a type nothing can unpack
            self.socks[i].chunks.append(hdr(30, 8, 0))
            self._resume([self.cons[i]], [], [])
        else: self._resume([self.cons[i]], [], [])                  # recv() answers b"" : EOF
        return True

    def round(self, elist, ritems):
        """ONE select round with several things at once: connections with an error condition, then readable ones in the given order
        (each with its data, or nothing = EOF), at most one of them the listener"""
        if self.dead_task: return
        e = [self.cons[c] for c in elist if self.is_selected(c)]
        before, after, new = [], [], False
        for it in ritems:
            if it == "new": new = True; continue
            c, data = it
            if not self.is_selected(c): continue
            if data: self.socks[c].chunks.append(data)
            (after if new else before).append(self.cons[c])
        if new: self.connect(before, after, e)
        else: self._resume(before, [], e)

    def finish(self):
        """let the task loop end the way it does at shutdown (core.running False) so the generator is not left suspended"""
        core = self.chk.core
        if self.dead_task is None:
            core.running = False
            try:
                self.gen.send(([], [], []))
            except StopIteration:
                pass
            except (Exception, ListenerQuit):
                pass
            finally:
                core.running = True
        self.chk.sink[0] = None
        self.chk.of_01.socket = real_socket

    def registry(self):
        out = []
        for k in self.nexus.connections.dpids:
            out.append([k, self.idx(self.nexus.getConnection(k))])
        return sorted(out, key=lambda kv: (kv[0] is None, kv[0] or 0))

    def conn_state(self):
        return [{"dpid": c.dpid, "up": c.connect_time is not None, "disc": bool(c.disconnected), "down_raised": bool(c.disconnection_raised),
                 "closed": not self.is_selected(i)} for i, c in enumerate(self.cons) if c is not None]


class C09(Check):
    id = "C09"
    prop_module = "PoxModel.Properties.C09"
    lean_targets = ["drv_c09"]
    driver = "drv_c09"
    _T = ["up_once", "up_raised", "down_once", "registry_exact_partial", "registry_exact_no_overlap", "early_ps_partial", "close_only_when_lost",
          "up_once_listeners", "down_once_listeners", "down_once_halting", "up_once_halting"]
    theorems = ["Pox.C09." + t for t in _T] + ["Pox.C09." + t + "_v" for t in _T] + ["Pox.C09." + t for t in [
        "listeners_none_is_model", "halting_keeps", "registry_exact_full_defect", "early_ps_full_defect", "registry_samedpid_needed_defect",
        "up_listener_disconnects_regression", "d3_defect", "down_without_up_defect", "dispatch_after_disconnect_defect", "error_closes_defect"]]
    # name-based anchors, resolved on the tree under test by common.AnchorCoverage (robust to line shifts)
    anchors = [('pox/openflow/of_01.py', n) for n in ['DefaultOpenFlowHandlers.handle_STATS_REPLY', 'DefaultOpenFlowHandlers.handle_PORT_STATUS', 'DefaultOpenFlowHandlers.handle_PACKET_IN', 'DefaultOpenFlowHandlers.handle_ERROR', 'DefaultOpenFlowHandlers.handle_BARRIER_REPLY', 'DefaultOpenFlowHandlers.handle_HELLO', 'DefaultOpenFlowHandlers.handle_ECHO_REQUEST', 'DefaultOpenFlowHandlers.handle_FEATURES_REPLY', 'HandshakeOpenFlowHandlers.handle_BARRIER_REPLY', 'HandshakeOpenFlowHandlers.handle_ERROR', 'HandshakeOpenFlowHandlers.handle_HELLO', 'HandshakeOpenFlowHandlers.handle_ECHO_REQUEST', 'HandshakeOpenFlowHandlers.handle_STATS_REPLY', 'HandshakeOpenFlowHandlers.handle_FEATURES_REPLY', 'HandshakeOpenFlowHandlers.handle_PORT_STATUS', 'HandshakeOpenFlowHandlers._finish_connecting', 'Connection.close', 'Connection.disconnect', 'Connection.send', 'handle_OFPST_DESC', 'OpenFlow_01_Task.run']] + \
              [('pox/openflow/__init__.py', n) for n in ['OpenFlowNexus.connections', 'OpenFlowNexus.getConnection', 'OpenFlowNexus.sendToDPID', 'OpenFlowNexus._connect', 'OpenFlowNexus._disconnect']]
    design_ref = "DESIGN.md §5 C09, §6 D3, Appendix E"
    coverage_cases = 1000000                     # every case runs under the line tracer (cheap here)
    technique = ("Lean 4 proof (invariants over all operation histories of a small-step model of Connection/handshake handlers/nexus, "
                 "proved leaf by leaf through a closed-form case principle `step_elim`) + differential correspondence: the compiled model "
                 "against the real OpenFlow_01_Task loop, real Connection objects over scripted sockets, real handler tables and real nexus")
    level_text = ("Theorems (Properties/C09.lean), each for EVERY history of accepts / message arrivals / EOFs / component disconnects / socket failures / "
                  "sendToDPID calls over any number of connections and datapath ids, headline versions about the tree as it stands (Cfg.repaired: /repo has D03, "
                  "C09-1/2/3/5/6), `_v` versions about either variant of C09-5 (the harness probes which one the tree has): up_once (ConnectionUp at most once, "
                  "only by the barrier reply or BAD_REQUEST/BAD_TYPE error carrying the xid of the barrier request sent after the last features reply), up_raised (the "
                  "converse: a live handshaking connection with a working socket gets its barrier request on the features reply, and unless it is lost / its socket "
                  "breaks / the handshake restarts meanwhile, that barrier reply or error DOES raise ConnectionUp on both levels), down_once (at most one "
                  "ConnectionDown, none without/before ConnectionUp, exactly one for an announced connection that is closed or disconnected, the only exception being "
                  "the deferred event of a failed send until the task closes it), close_only_when_lost. PARTIAL, weaker than the property's clause, and the file "
                  "proves the clause itself false for the code: registry_exact_partial (every entry is a live announced connection with that datapath id; the entry is "
                  "exactly the most recently REGISTERED connection if still live, else nobody — not 'every live datapath is reachable': registry_exact_full_defect, open "
                  "finding C09-4; literal exactness only when connections of one datapath never overlap: registry_exact_no_overlap) and early_ps_partial (the announcing "
                  "step raises exactly the port-status received since the LAST features reply, in order, once each; earlier ones are dropped: early_ps_full_defect). "
                  "Re-entrant listeners (a ConnectionUp listener that sends / calls sendToDPID / disconnects, a ConnectionDown listener that calls sendToDPID): "
                  "up_once_listeners, down_once_listeners are proved over the listener model runL for every such behaviour (at most one Up / Down per connection and "
                  "level, no Down without nexus-level Up, no Up after a Down, and with C09-6 in place no Down in the step that raises the connection-level Up); the "
                  "registry and early-port-status statements are NOT proved with listeners (tested and model-compared only). Listeners that HALT events or unsubscribe "
                  "(Model/ConnH.lean: one arbitrary outcome per event kind for the last nexus-level listener; halting = a filter on each step's outputs): down_once_halting "
                  "(whatever they do, ConnectionDown at most once per connection on the nexus AND on the connection, only for an announced connection, exactly once on BOTH "
                  "levels for an announced connection the task has closed: a nexus-level halt of ConnectionDown does not take it from the Connection's listeners), "
                  "up_once_halting (with re-entrant listeners too: at most one Up / Down per connection and level), halting_keeps (halting never changes a nexus-level "
                  "event, a ConnectionDown, a write, a registration, a sendToDPID result or a close; it only removes connection-level events of the other kinds; "
                  "listeners that never halt change nothing). Regression witnesses for every committed "
                  "repair are kept on the models of the reverted code.")
    level_note = ("Trusted: Lean kernel, axioms propext/Classical.choice/Quot.sound, the hand-written model Model/Conn.lean (tied to the code only by this "
                  "correspondence run), the harness (scripted sockets, fake listener, recording listeners, unpacker wrapper). Assumed, not proved: event listeners "
                  "do not re-enter the connection (the base theorems; re-entrant and halting listeners have their own, weaker theorems); default OpenFlowConnectionArbiter; xid counter does not wrap; "
                  "every ofp_error carries data; framing (C02) and the deferred sender (C20) are out of scope.")
    trusted_base = ["harness/c09.py detect_variant: whether the tree has the repairs C09-5 / C09-6 is decided by probing the real code on two witness histories (source shape = cross-check only, never aborts); the driver evaluates the model at that variant and the correspondence validates the choice",
                    "model Model/Conn.lean (+ Model/ConnL.lean for re-entrant listeners, Model/ConnH.lean for halting listeners) hand-written from of_01.py / openflow/__init__.py; tied by this correspondence run",
                    "harness: real OpenFlow_01_Task.run generator driven by hand (fake listener socket, scripted connection sockets), recording listeners, `_connect` wrapper"]
    assumptions = ["the base theorems (up_once, up_raised, down_once, registry_exact_partial, early_ps_partial, close_only_when_lost) assume listeners that do not re-enter the "
                   "connection (no halt / disconnect / send inside a handler); for listeners that do (nexus-level ConnectionUp listeners that send, call sendToDPID or disconnect; "
                   "ConnectionDown listeners that call sendToDPID(event.dpid)) up_once_listeners / down_once_listeners are proved over Model/ConnL.lean `runL` (which provably equals "
                   "the base model without such listeners: listeners_none_is_model), and everything else is tested and model-compared only; for nexus-level listeners that halt "
                   "an event or unsubscribe (every event kind) down_once_halting / up_once_halting / halting_keeps are proved over Model/ConnH.lean `outsH`, the halting listener "
                   "being the LAST one on the nexus; listeners on the Connection object are modelled as having no effect (the correspondence run checks that, for every "
                   "spelling of halt / unsubscribe / raise); a halting listener that also re-enters the controller is not covered",
                   "the default OpenFlowConnectionArbiter (nexus = core.openflow); miss_send_len and clear_flows_on_connect at their defaults",
                   "fewer than 2^31 xids drawn per run; every ofp_error message carries data; framing itself is C02's business, but how the switch's bytes are cut into reads is a case parameter here (`seg`): the model is told the messages, the oracle demands that the connection handles exactly the messages that arrived, in order, once each",
                   "re-entrant lifecycle calls (disconnect / close / send / sendToDPID) from listeners of every event kind on either level (case parameter `re`) are model-compared only when made from ConnectionDown listeners as disconnect / close / send (model answer: no effect); from the other listeners they are checked by the oracle only (the listener model Model/ConnL.lean has ConnectionUp / ConnectionDown listeners on the nexus only; a general one needs a small-step machine with a control stack)",
                   "on a tree with the commit of C09-5 reverted (variant v = false, detected by probing) registry_exact_partial_v assumes each connection's features replies name one datapath id; on the tree as it stands it is unconditional"]
    rule = ("case = history of {connect, recv(c, batch of messages), lose(c, eof|select-error), disc(c), sockfail(c), sendto(d)} over <= 4 connections, "
            "datapath ids {5,6,7} and the edge ids {0, 1, 2^63, 2^64-1} (every hand-written, loss-point and 2-connection history is repeated with them, half of the generated ones use them); corpus = 19 hand-written histories (D3, orphan, dpid change, wrong xid, send errors...), loss at each of 6 points of the handshake "
            "x {eof, select error, disconnect(), send error} x {alone, beside a live connection of the same datapath} x 2 batchings, every interleaving of the 4 handshake "
            "messages (both finishing variants) with <= 2 insertions of {port_status, echo_request, packet_in, error(other xid), error(other code)}, all 24 orders of the 4 "
            "handshake messages with <= 1 insertion, every connect/up/lose order of 2 connections; generated = sampled 3-insertion interleavings and 3-connection orders "
            "(exhaustive in the thorough tier) + seeded random histories (30% with neighbouring reads / EOFs / accepts merged into ONE select round); + all 70 interleavings of two connections' handshakes (x same/different datapath x both finishing variants), 22 hand-written multi-event select rounds (error list + readable list, both orders, accept next to data, the new connection's barrier reply next to the stale one's EOF), the API called positionally / by keyword / with a message object, and the hand-written + sampled interleaved / round histories again behind a prelude that burns 260 xids (every xid above 256); + ~690 of the hand-written / loss-point / 2-connection histories re-run with re-entrant application listeners (7 listener behaviours; compared with the listener model runL); + the error sweep: at each of the 3 positions between hello and the barrier answer an ERROR of every (type, code) (3x3 in the quick corpus, 6x9 in the thorough tier) with xid in {0, the barrier's, the features request's, barrier+-1, 2^31-1, 2^32-1}, and every other kind of message (echo request / reply, packet-in, port status, desc stats reply, hello, barrier replies with those xids), followed by the real barrier reply; loss kinds now include an exception leaving read() (a message of a type nothing can unpack); + ~700 hand-written / interleaved histories run with NO nexus-level listener for some event kinds (raiseEvent returns None) or with a nexus listener that halts them; + ~2500 hand-written / loss-point / 2-connection / select-round histories run with a LAST listener on the nexus or on every Connection that halts / unsubscribes / raises on a lifecycle event (ConnectionUp, ConnectionDown: all 14 spellings — EventHalt, True, (), event.halt, EventHaltAndRemove, once=True, EventRemove, False, EventContinue, Exception, BaseException, ReventError — x both levels x every hand-written history; the other kinds and combinations in rotation; a third together with re-entrant listeners), a quarter of the generated histories likewise (nexus-level outcomes are model-compared through Model/ConnH.lean, connection-level ones must change nothing); + ~1800 segmentations of the switch's byte stream (case parameter `seg` of a read: every single cut message x offset {1, 4, 8, 9, middle, last byte} and sampled pairs of cuts in 5 handshake / early-port-status histories whose reads hold several messages; 1-, 7-, 8-, 9-, 13-, 64-byte reads and rotating cuts over the hand-written / loss-point / two-connection histories, some with halting or re-entrant listeners; a 40-message burst read with the real 2048-byte limit); + ~2100 histories with re-entrant lifecycle calls from listeners (case parameter `re` = [[level, event kind, action]]: disconnect / close / send / sendToDPID from a listener of every lifecycle event kind on the nexus and on the Connection over every hand-written history, the other event kinds and combinations in rotation over loss-point / two-connection / select-round histories, some with halting listeners and segmentation); 30% of the generated histories get random cuts, 20% random re-entrant listeners; oracle clauses added: the messages a connection handles are exactly those that arrived, in order, once each (arrival:*), and a live connection whose barrier answer arrives IS announced (up:missing); non-trivial = at least one message was dispatched")

    def setup(self):
        self.core = poxenv.boot()
        import pox.openflow.of_01 as of_01, pox.openflow.libopenflow_01 as of
        self.of_01, self.of = of_01, of
        self.sink = [None]
        self.task = of_01.OpenFlow_01_Task(port=6633)
        nexus = self.core.openflow
        chk = self
        for name in EVENTS:
            nexus.addListener(getattr(of_01, name), self.recorder("nexus", name), priority=1000000)   # records the moment of the raise
        # case["mute"]: event kinds that have NO listener on the nexus during the case (raiseEvent then returns None);
        # case["halt"]: kinds for which an application listener on the nexus halts the event (the connection-level raise is then skipped)
        # case["beh"]: {"nexus": {event kind: spelling}, "con": {event kind: spelling}} = what the LAST listener of that kind on that level does with
        # the event (halt it / unsubscribe / raise ...: BEH_SPELLINGS); installed per case by install_beh, after the recorders
        self._beh_eids = []
        self._re_eids, self.re = [], []
        # re-entrant application listeners (run after the recorders); what they do is part of the case: case["listeners"]
        self.listeners = {}
        nexus.addListener(of_01.ConnectionUp, self.app_listener("up"))
        nexus.addListener(of_01.ConnectionDown, self.app_listener("down"))
        orig_connect = nexus._connect
        chk = self
        def connect_rec(con):
            w = chk.sink[0]
            if w is not None: w.log.append(["reg", con.dpid, w.idx(con)])
            return orig_connect(con)
        nexus._connect = connect_rec
        self.variant = self.detect_variant()

    # Which variant of the two repairs (C09-5, C09-6) the tree under test has is decided by PROBING its behaviour on the two witness
    # histories; the statement text of the two functions is only a cross-check (recorded in the evidence).  Nothing here can abort the
    # run: with an unknown shape, or a probe that fails, the run goes on with the probed (or default = committed) variant, the driver
    # evaluates the model there, and if model and code then disagree the run reports it (failing input, or the tie as broken).
    VARIANT_SHAPES = {
        "dpid": ("DefaultOpenFlowHandlers", "handle_FEATURES_REPLY", {
            False: "con.features = msg\ncon.original_ports._ports = set(msg.ports)\ncon.ports._reset()\ncon.dpid = msg.datapath_id\ncon.ofnexus._connect(con)\n"
                   "e = con.ofnexus.raiseEventNoErrors(FeaturesReceived, con, msg)\nif e is None or e.halt != True:\n    con.raiseEventNoErrors(FeaturesReceived, con, msg)",
            True: "con.features = msg\ncon.original_ports._ports = set(msg.ports)\ncon.ports._reset()\nif con.dpid != msg.datapath_id:\n"
                  "    con.ofnexus._disconnect(con.dpid, con)\ncon.dpid = msg.datapath_id\ncon.ofnexus._connect(con)\n"
                  "e = con.ofnexus.raiseEventNoErrors(FeaturesReceived, con, msg)\nif e is None or e.halt != True:\n    con.raiseEventNoErrors(FeaturesReceived, con, msg)"}),
        "stop": ("HandshakeOpenFlowHandlers", "_finish_connecting", {
            False: "con.ofnexus._connect(con)\ncon.info('connected')\ncon.connect_time = time.time()\ncon.handlers = _default_handlers.handlers\n"
                   "con.ofnexus.raiseEventNoErrors(ConnectionHandshakeComplete, con)\ne = con.ofnexus.raiseEventNoErrors(ConnectionUp, con, con.features)\n"
                   "if e is None or e.halt != True:\n    con.raiseEventNoErrors(ConnectionUp, con, con.features)\nif con.features:",
            True: "con.ofnexus._connect(con)\ncon.info('connected')\ncon.connect_time = time.time()\ncon.handlers = _default_handlers.handlers\n"
                  "con.ofnexus.raiseEventNoErrors(ConnectionHandshakeComplete, con)\ne = con.ofnexus.raiseEventNoErrors(ConnectionUp, con, con.features)\n"
                  "if con.disconnected:\n    return\nif e is None or e.halt != True:\n    con.raiseEventNoErrors(ConnectionUp, con, con.features)\nif con.features:"})}

    def shape_variant(self):
        """flag -> True/False when the source has one of the two known statement shapes, else None"""
        import ast
        out = {k: None for k in self.VARIANT_SHAPES}
        try:
            tree = ast.parse(open(os.path.join(common.REPO, "pox/openflow/of_01.py")).read())
            for flag, (cls, fn, shapes) in self.VARIANT_SHAPES.items():
                c = [n for n in tree.body if isinstance(n, ast.ClassDef) and n.name == cls]
                f = [n for n in (c[0].body if c else []) if isinstance(n, ast.FunctionDef) and n.name == fn]
                if not f: continue
                text = "\n".join(ast.unparse(x) for x in f[0].body)
                hits = [k for k, shape in shapes.items() if text.startswith(shape)]
                if len(hits) == 1: out[flag] = hits[0]
        except Exception:
            pass
        return out

    def probe_variant(self):
        """the two witnesses, on the real code: (dpid) an established connection of datapath 5 gets a features reply naming 6 — is 5 still
        registered?  (stop) a ConnectionUp listener disconnects the connection — is ConnectionUp still raised on the connection?"""
        out, notes = {"dpid": True, "stop": True}, {}
        C = {"op": "connect"}
        try:
            obs = self.impl({"ops": [C] + self.up_ops(0, 5) + [{"op": "recv", "c": 0, "msgs": [self.M("features_reply", 3, d=6)]}]})
            out["dpid"] = 5 not in [k for k, _ in obs["regs"][-1]]
        except Exception as e:
            notes["dpid"] = "probe failed (%s: %s); assuming the committed variant" % (type(e).__name__, e)
        try:
            obs = self.impl({"ops": [C] + self.up_ops(0, 5), "listeners": {"up": "disc"}})
            out["stop"] = not any(e[:2] == ["con", "ConnectionUp"] for st in obs["steps"] for e in st)
        except Exception as e:
            notes["stop"] = "probe failed (%s: %s); assuming the committed variant" % (type(e).__name__, e)
        return out, notes

    def detect_variant(self):
        probe, notes = self.probe_variant()
        shape = self.shape_variant()
        self.variant_source = {}
        for k in probe:
            if shape[k] is None: self.variant_source[k] = "probe (source has neither known shape)"
            elif shape[k] != probe[k]: self.variant_source[k] = "probe (source has the %s shape but behaves otherwise on the witness)" % shape[k]
            else: self.variant_source[k] = "probe+shape"
            if k in notes: self.variant_source[k] = notes[k]
        return probe

    def extra_evidence(self):
        return {"variant": self.variant, "variant_decided_by": self.variant_source,
                "uncovered_explained": "anchored lines never executed are outside the modelled behaviour: request_description=False, the version check unreachable "
                "through read(), a custom arbiter returning no nexus, `except: pass` arms, the aborted-connections debug timer, the deferred-sender / partial-write / "
                "EAGAIN arms of Connection.send (C20's business), and in OpenFlow_01_Task.run (anchored whole): bind errors, the SSL branch, pcap wrapping and the "
                "exception handler after the loop (C10's business)"}

    # event kinds that are not lifecycle announcements: a history may be run with no nexus listener for them, or with one that halts them
    QUIET_KINDS = ["FeaturesReceived", "PortStatus", "PacketIn", "ErrorIn", "BarrierIn", "RawStatsReply", "SwitchDescReceived"]

    def set_muted(self, names):
        """remove every nexus-level listener of these event kinds (put back by set_muted([]))"""
        nexus, of_01 = self.core.openflow, self.of_01
        for cls, saved in getattr(self, "_muted_saved", {}).items():
            nexus._eventMixin_handlers[cls] = saved
        self._muted_saved = {}
        for n in names:
            cls = getattr(of_01, n)
            self._muted_saved[cls] = nexus._eventMixin_handlers.get(cls, [])
            nexus._eventMixin_handlers[cls] = []

    # every spelling of a listener outcome (revent.raiseEvent) -> what the model makes of it when the listener is on the nexus
    BEH_SPELLINGS = {"none": "cont", "continue": "cont", "raise": "cont", "raise_base": "cont", "raise_revent": "cont",
                     "halt": "halt", "true": "halt", "sethalt": "halt", "empty": "halt",
                     "haltremove": "haltremove", "once_halt": "haltremove", "remove": "remove", "false": "remove", "once": "remove"}
    ONCE_SPELLINGS = ("once", "once_halt")
    HALTING = ("halt", "haltremove")

    def beh_of(self, case):
        """(level, event kind) -> spelling; the old `halt: [kinds]` = a nexus listener answering EventHalt; a nexus-level listener of a muted kind
        does not exist (mute = the nexus has no listener at all for that kind)"""
        out = {}
        for name in case.get("halt") or []: out[("nexus", name)] = "halt"
        for level, tab in sorted((case.get("beh") or {}).items()):
            for name, sp in sorted(tab.items()): out[(level, name)] = sp
        for name in case.get("mute") or []: out.pop(("nexus", name), None)
        return out

    def beh_listener(self, level, name, sp):
        chk = self
        import pox.lib.revent as revent
        def h(ev):
            w = chk.sink[0]
            if w is None: return
            w.log.append(["beh", level, name, w.idx(ev.connection), ev.ofp.xid if name in TAGGED else 0, sp])
            if sp == "continue": return revent.EventContinue
            if sp == "raise": raise RuntimeError("listener of %s fails" % name)
            if sp == "raise_base": raise ListenerQuit()
            if sp == "raise_revent": raise revent.ReventError("listener of %s fails" % name)
            if sp in ("halt", "once_halt"): return revent.EventHalt
            if sp == "true": return True
            if sp == "sethalt": ev.halt = True; return None
            if sp == "empty": return ()
            if sp == "haltremove": return revent.EventHaltAndRemove
            if sp == "remove": return revent.EventRemove
            if sp == "false": return False
            return None                                              # "none", "once"
        return h

    def install_beh(self, case):
        self.beh = self.beh_of(case)
        nexus = self.core.openflow
        for (level, name), sp in sorted(self.beh.items()):
            if level == "nexus":
                self._beh_eids.append(nexus.addListener(getattr(self.of_01, name), self.beh_listener("nexus", name, sp), priority=-10,
                                                        once=sp in self.ONCE_SPELLINGS))

    def remove_beh(self):
        for eid in self._beh_eids: self.core.openflow.removeListener(eid)
        self._beh_eids = []; self.beh = {}

    def app_listener(self, which):
        """an application's nexus-level ConnectionUp / ConnectionDown handler that re-enters the controller:
        "send" = con.send(...), "sendto" = core.openflow.sendToDPID(event.dpid, ...), "disc" = con.disconnect()"""
        chk = self
        def h(ev):
            w, act = chk.sink[0], chk.listeners.get(which)
            if w is None or act is None: return
            i = w.idx(ev.connection)
            x = (5000 if which == "up" else 6000) + i
            if act == "send":
                ev.connection.send(hdr(T_BARRIER_REQ, 8, x))
            elif act == "disc":
                ev.connection.disconnect()
            elif act == "sendto":
                chk.listener_sendto(w, which, i, ev.dpid, x)
        return h

    @staticmethod
    def listener_sendto(w, which, i, d, x):
        """sendToDPID(d, <barrier request x>) from inside a listener, with what the registry clause predicts for it at this moment"""
        # the connection most recently registered under d, if it is live now (what registry_exact says the entry is)
        exp = None
        for e in w.log:
            if e[0] == "reg" and e[1] == d: exp = e[2]
        # (registered = its handshake is complete: `_connect` is logged; it need not have been announced yet when a ConnectionHandshakeComplete listener asks)
        if exp is not None and (w.cons[exp].disconnected or w.cons[exp].dpid != d): exp = None
        exp_ok = exp is not None and not w.socks[exp].broken
        ret = w.nexus.sendToDPID(d, hdr(T_BARRIER_REQ, 8, x))
        w.log.append(["hsendto", which, i, d, x, bool(ret), exp, exp_ok])

    # ---- re-entrant lifecycle calls from listeners of ANY event kind on either level: case["re"] = [[level, event kind, action], ...]
    # action: "disc" = event.connection.disconnect(), "close" = .close(), "send" = .send(<barrier request 7000+c>),
    # "sendto" = core.openflow.sendToDPID(connection.dpid, <barrier request 7000+c>).  A listener acts at most RE_LIMIT times per connection
    # (an application's shared release routine; and a change that re-raises the event must not make the harness recurse without end).
    RE_ACTS = ("disc", "close", "send", "sendto")
    RE_LIMIT = 2

    def re_listener(self, level, name, act):
        chk = self
        def h(ev):
            w = chk.sink[0]
            if w is None: return
            con = ev.connection
            i = w.idx(con)
            key = (level, name, act, i)
            if w.re_count.get(key, 0) >= chk.RE_LIMIT: return
            w.re_count[key] = w.re_count.get(key, 0) + 1
            w.log.append(["hact", level, name, i, act])
            if act == "disc": con.disconnect()
            elif act == "close": con.close()
            elif act == "send": con.send(hdr(T_BARRIER_REQ, 8, 7000 + i))
            elif act == "sendto": chk.listener_sendto(w, "re", i, con.dpid, 7000 + i)
        return h

    def install_re(self, case):
        self.re = [tuple(x) for x in case.get("re") or []]
        nexus = self.core.openflow
        for lv, name, act in self.re:
            if lv == "nexus":
                self._re_eids.append(nexus.addListener(getattr(self.of_01, name), self.re_listener("nexus", name, act), priority=5))

    def remove_re(self):
        for eid in self._re_eids: self.core.openflow.removeListener(eid)
        self._re_eids, self.re = [], []

    def recorder(self, where, name):
        chk = self
        def h(ev):
            w = chk.sink[0]
            if w is None: return
            arg = ev.ofp.xid if name in TAGGED else 0
            w.log.append([where, name, w.idx(ev.connection), arg])
        return h

    # ------------------------------------------------------------------ messages (built before the run; the xid is patched in at delivery)
    def _template(self, kind, key):
        k = (kind, key)
        t = self._tmpl.get(k)
        if t is None:
            of = self.of
            rng = random.Random(hash(k) & 0xffff)
            if kind == "hello": o = of.ofp_hello()
            elif kind == "features_reply":
                o = of.ofp_features_reply(datapath_id=key, n_buffers=256, n_tables=1, capabilities=0xc7, actions=0xfff,
                                          ports=[ofgen.build(ofgen.phy_port(rng)) for _ in range(key % 3)])
            elif kind == "stats_desc": o = of.ofp_stats_reply(type=0, flags=0, body=ofgen.build(ofgen.desc_stats(rng)))
            elif kind == "barrier_reply": o = of.ofp_barrier_reply()
            elif kind == "error": o = of.ofp_error(type=key[0], code=key[1], data=b"\x01\x12\x00\x08\x00\x00\x00\x00")
            elif kind == "port_status": o = of.ofp_port_status(reason=key % 3, desc=ofgen.build(ofgen.phy_port(rng)))
            elif kind == "echo_request": o = of.ofp_echo_request(body=b"ping")
            elif kind == "echo_reply": o = of.ofp_echo_reply(body=b"pong")
            elif kind == "packet_in": o = of.ofp_packet_in(in_port=1, reason=0, data=b"\x00" * 14)
            else: raise KeyError(kind)
            o.xid = 0
            t = o.pack()
            self._tmpl[k] = t
        return t

    def msg_bytes(self, m, xid):
        kind = m["m"]
        if kind == "features_reply": t = self._template(kind, m["d"])
        elif kind == "error": t = self._template(kind, (m["ty"], m["code"]))
        elif kind == "port_status": t = self._template(kind, m.get("r", 0))
        else: t = self._template(kind, 0)
        return t[:4] + struct.pack("!L", xid) + t[8:]

    @staticmethod
    def resolve_x(x, c, log):
        """xids written relative to what the controller sent on connection c: "good" = its latest barrier request, "good+1" / "good-1",
        "freq" = its latest features request (a value that names no request of that kind stands in when there is none)"""
        if not isinstance(x, str): return x
        good, freq = BAD_XID, BAD_XID - 2
        for e in log:
            if e[0] == "sent" and e[1] == c:
                if e[2] == T_BARRIER_REQ: good = e[3]
                if e[2] == 5: freq = e[3]
        return {"good": good, "good+1": good + 1, "good-1": good - 1, "freq": freq}[x]

    # ------------------------------------------------------------------ implementation
    def impl(self, case):
        if not hasattr(self, "_tmpl"): self._tmpl = {}
        for op in case["ops"]:                                       # build every template first: library constructors draw xids
            if op["op"] == "recv":
                for m in op["msgs"]: self.msg_bytes(m, 0)
        self._objs = {}
        for op in case["ops"]:
            if op["op"] == "round":
                for it in op.get("r", []):
                    if it != "new":
                        for m in it.get("msgs", []): self.msg_bytes(m, 0)
            if op["op"] == "sendto" and op.get("obj"):
                o = self.of.ofp_barrier_request(); o.xid = op["x"]; self._objs[op["x"]] = o
        self.remove_beh(); self.remove_re(); self.set_muted([])     # (nothing left over from a case that ended in an exception)
        w = World(self)
        self.listeners = dict(case.get("listeners") or {})
        self.set_muted(case.get("mute") or [])
        self.install_beh(case)                                       # (the connection-level ones are attached at accept time)
        self.install_re(case)
        steps, resolved, regs, states = [], [], [], []
        for op in case["ops"]:
            mark = len(w.log)
            k = op["op"]
            if k == "connect":
                w.connect(); resolved.append({"op": "connect"})
            elif k == "recv":
                c, parts = op["c"], []
                snap = list(w.log)
                for m in op["msgs"]:
                    x = self.resolve_x(m.get("x", 0), c, snap)
                    parts.append(self.msg_bytes(m, x))
                    r = dict(m); r["x"] = x; r.pop("r", None); r["op"] = "msg"; r["c"] = c
                    resolved.append(r)
                if c < len(w.cons):
                    for chunk in self.chunks(parts, op.get("seg")): w.recv(c, chunk)
            elif k == "round":
                # several events in one select round; the task handles the error list first, then the readable ones in order
                snap = list(w.log)
                for c in op.get("e", []): resolved.append({"op": "eof", "c": c})
                ritems = []
                for it in op.get("r", []):
                    if it == "new":
                        resolved.append({"op": "connect"}); ritems.append("new"); continue
                    c, data = it["c"], b""
                    for m in it.get("msgs", []):
                        x = self.resolve_x(m.get("x", 0), c, snap)
                        data += self.msg_bytes(m, x)
                        r = dict(m); r["x"] = x; r.pop("r", None); r["op"] = "msg"; r["c"] = c
                        resolved.append(r)
                    if not it.get("msgs"): resolved.append({"op": "eof", "c": c})
                    assert len(data) <= 2048
                    ritems.append((c, data))
                w.round([c for c in op.get("e", []) if c < len(w.cons)], [it for it in ritems if it == "new" or it[0] < len(w.cons)])
            elif k == "lose":
                resolved.append({"op": "eof", "c": op["c"]})
                if op["c"] < len(w.cons): w.lose(op["c"], op.get("via", "eof"))
            elif k == "disc":
                resolved.append({"op": "disc", "c": op["c"]})
                if op["c"] < len(w.cons):                             # the three ways a component may call it
                    how = op.get("how", 0)
                    try:
                        if how == 1: w.cons[op["c"]].disconnect("dropped by the application")
                        elif how == 2: w.cons[op["c"]].disconnect(msg="dropped by the application", defer_event=False)
                        else: w.cons[op["c"]].disconnect()
                    except (Exception, ListenerQuit) as ex:           # (a listener's failure reaching the caller: an observable like any other)
                        w.log.append(["raised", type(ex).__name__])
            elif k == "sockfail":
                resolved.append({"op": "sockfail", "c": op["c"]})
                if op["c"] < len(w.cons): w.socks[op["c"]].broken = True
            elif k == "sendto":
                resolved.append({"op": "sendto", "d": op["d"], "x": op["x"]})
                try:
                    if op.get("obj"):                                 # a message object instead of bytes (built before the run: see msg_objs)
                        ret = w.nexus.sendToDPID(op["d"], self._objs[op["x"]])
                    else:
                        ret = w.nexus.sendToDPID(dpid=op["d"], data=hdr(T_BARRIER_REQ, 8, op["x"])) if op.get("kw") else \
                              w.nexus.sendToDPID(op["d"], hdr(T_BARRIER_REQ, 8, op["x"]))
                    w.log.append(["ret", bool(ret)])
                except (Exception, ListenerQuit) as ex:
                    w.log.append(["raised", type(ex).__name__])
            else:
                raise KeyError(k)
            steps.append([e for e in w.log[mark:]])
            regs.append(w.registry()); states.append(w.conn_state())
            if w.dead_task: break
        nx = self.of.generate_xid()
        w.finish()
        self.listeners = {}; self.remove_beh(); self.remove_re(); self.set_muted([])
        return {"steps": steps, "resolved": resolved, "regs": regs, "states": states, "dead_task": w.dead_task,
                "next_xid": nx, "nsteps": [self.nsteps(op) for op in case["ops"]]}

    @staticmethod
    def chunks(parts, seg):
        """how the bytes of the messages of one recv op are cut into reads.  No `seg`: whole messages, as many per read as fit into the 2048 bytes one
        recv() takes.  seg = {"every": n}: n bytes per read; seg = [[mi, off], ...]: a read ends `off` bytes into message mi ("m" = in the middle of
        it, negative = counted from its end, 0 = in front of it); a read never has more than 2048 bytes"""
        if not seg:
            out, data = [], b""
            for b in parts:
                if data and len(data) + len(b) > 2048:
                    out.append(data); data = b""
                data += b
            return out + [data]
        data = b"".join(parts)
        if isinstance(seg, dict):
            n = max(1, int(seg["every"]))
            cuts = set(range(n, len(data), n))
        else:
            cuts, starts, o = set(), [], 0
            for b in parts: starts.append(o); o += len(b)
            for mi, off in seg:
                if not 0 <= mi < len(parts): continue
                L = len(parts[mi])
                k = L // 2 if off == "m" else (L + off if off < 0 else off)
                cuts.add(starts[mi] + max(0, min(L, k)))
        out, last = [], 0
        for p in sorted(cuts) + [len(data)]:
            if p <= last or p > len(data): continue
            while p - last > 2048:
                out.append(data[last:last + 2048]); last += 2048
            out.append(data[last:p]); last = p
        return out

    @staticmethod
    def round_norm(op, outs):
        """within one select round the harness sees which connections the task dropped only when the round is over: compare the
        'closed' markers of a round as a set at its end"""
        if op["op"] != "round": return outs
        return [e for e in outs if e[0] != "closed"] + sorted(e for e in outs if e[0] == "closed")

    @staticmethod
    def nsteps(op):
        if op["op"] == "recv": return len(op["msgs"])
        if op["op"] == "round":
            return len(op.get("e", [])) + sum(1 if it == "new" else max(1, len(it.get("msgs", []))) for it in op.get("r", []))
        return 1

    # ------------------------------------------------------------------ model glue
    OLD_CFG = {"d3": False, "down": False, "read": False, "err": False, "dpid": False}
    def dpids_of(self, case):
        ds = set()
        for op in case["ops"]:
            if op["op"] == "sendto": ds.add(op["d"])
            msgs = op["msgs"] if op["op"] == "recv" else [m for it in op.get("r", []) if it != "new" for m in it.get("msgs", [])] if op["op"] == "round" else []
            for m in msgs:
                if m["m"] == "features_reply": ds.add(m["d"])
        return sorted(ds)

    # re-entrant calls the model has an answer for without being told: on a ConnectionDown (either level) the connection is already
    # disconnected and its ConnectionDown marked as raised, so disconnect() / close() / send() from there change nothing observable
    MODEL_NOOP_RE = {("ConnectionDown", "disc"), ("ConnectionDown", "close"), ("ConnectionDown", "send")}

    def model_request2(self, case, obs):
        if any((ev, act) not in self.MODEL_NOOP_RE for _, ev, act in case.get("re") or []):
            return None                                              # other re-entrant listeners: oracle only (the model has no such listeners)
        req = {"ops": obs["resolved"], "dpids": self.dpids_of(case),
               "cfg": {"d3": True, "down": True, "read": True, "err": True, "dpid": self.variant["dpid"]}}
        ls = case.get("listeners")
        if ls: req["listeners"] = {"up": ls.get("up"), "down": ls.get("down"), "stop": self.variant["stop"]}
        # nexus-level listeners that halt / unsubscribe: the model applies them (Model/ConnH.lean); connection-level ones are `other` to the model
        halting = {name: self.BEH_SPELLINGS[sp] for (level, name), sp in self.beh_of(case).items() if level == "nexus" and self.BEH_SPELLINGS[sp] != "cont"}
        if halting: req["halting"] = halting
        if os.environ.get("VERIF_C09_CFG") == "old": req["cfg"] = self.OLD_CFG      # manual use only: the unrepaired model against an unrepaired tree
        return req

    def impl_view(self, case, obs):
        if obs.get("dead_task"): return {"dead_task": obs["dead_task"]}
        final = obs["regs"][-1] if obs["regs"] else []
        return {"steps": [self.round_norm(op, [e for e in st if e[0] not in ("in", "hsendto", "beh", "hact")]) for op, st in zip(case["ops"], obs["steps"])],
                "reg": [[d, dict((k, v) for k, v in final if k is not None).get(d)] for d in self.dpids_of(case)],
                "regnone": dict((str(k), v) for k, v in final).get("None"),
                "conns": obs["states"][-1] if obs["states"] else [], "next_xid": obs["next_xid"]}

    def model_obs(self, case, resp):
        if "error" in resp: return resp
        steps, it = [], iter(resp["steps"])
        for op in case["ops"]:
            n = self.nsteps(op)
            grp = []
            for _ in range(n): grp += next(it)
            mute = set(case.get("mute") or [])
            grp = [e for e in grp if not (e[0] == "nexus" and e[1] in mute)]
            steps.append(self.round_norm(op, grp))
        return {"steps": steps, "reg": resp["reg"], "regnone": resp["regnone"], "conns": resp["conns"], "next_xid": resp["next_xid"]}

    # ------------------------------------------------------------------ generators
    @staticmethod
    def M(kind, x=0, **kw):
        d = {"m": kind, "x": x}; d.update(kw); return d

    def hs_msgs(self, d, fin="barrier"):
        last = self.M("barrier_reply", "good") if fin == "barrier" else self.M("error", "good", ty=1, code=1)
        return [self.M("hello", 11), self.M("features_reply", 12, d=d), self.M("stats_desc", 13), last]

    def async_msg(self, kind, j):
        if kind == "port_status": return self.M("port_status", 60 + j, r=j % 3)
        if kind == "echo_request": return self.M("echo_request", 70 + j)
        if kind == "packet_in": return self.M("packet_in", 80 + j)
        if kind == "error": return self.M("error", BAD_XID + 1, ty=1, code=1)          # "barrier unsupported"-shaped, but for another xid
        if kind == "error_type": return self.M("error", "good", ty=1, code=2)          # right xid, another code
        if kind == "echo_reply": return self.M("echo_reply", 75 + j)
        if kind == "error0": return self.M("error", 0, ty=1, code=1)                    # "barrier unsupported"-shaped with xid 0 (an ordinary value)
        raise KeyError(kind)

    @staticmethod
    def batches(c, msgs, mode):
        """mode 0: one read per message; mode 1: as few reads as possible (a reply that quotes the barrier xid cannot be
        in the same read as the features reply that triggers the request)"""
        out, cur, feat_in_cur = [], [], False
        for m in msgs:
            if mode == 0 or (isinstance(m.get("x"), str) and feat_in_cur):
                if cur: out.append({"op": "recv", "c": c, "msgs": cur})
                cur, feat_in_cur = [], False
            cur.append(m)
            if m["m"] == "features_reply": feat_in_cur = True
            if mode == 0:
                out.append({"op": "recv", "c": c, "msgs": cur}); cur = []
        if cur: out.append({"op": "recv", "c": c, "msgs": cur})
        return out

    def up_ops(self, c, d, fin="barrier", mode=1, ps=()):
        m = self.hs_msgs(d, fin)
        msgs = m[:3] + [self.M("port_status", x, r=x % 3) for x in ps] + m[3:]
        return self.batches(c, msgs, mode)

    def interleavings(self, maxk, perms, kinds, sample=None, rng=None):
        tail = [{"op": "recv", "c": 0, "msgs": [self.M("port_status", 90, r=1)]}, {"op": "sendto", "d": 5, "x": 900},
                {"op": "lose", "c": 0, "via": "eof"}, {"op": "sendto", "d": 5, "x": 901}]
        n = 0
        for fin in ("barrier", "error"):
            base = self.hs_msgs(5, fin)
            orders = list(itertools.permutations(range(4))) if perms else [(0, 1, 2, 3)]
            for order in orders:
                seq0 = [base[i] for i in order]
                for k in range(maxk + 1):
                    for pos in itertools.combinations(range(4 + k), k):
                        for ks in itertools.product(kinds, repeat=k):
                            n += 1
                            if sample is not None and rng.random() >= sample: continue
                            seq, it, ai = [], iter(seq0), 0
                            for slot in range(4 + k):
                                if slot in pos:
                                    seq.append(self.async_msg(ks[ai], ai)); ai += 1
                                else:
                                    seq.append(next(it))
                            yield {"ops": [{"op": "connect"}] + self.batches(0, seq, n % 2) + tail, "tag": "interleave"}

    def loss_ops(self, c, kind):
        if kind == "eof": return [{"op": "lose", "c": c, "via": "eof"}]
        if kind == "err": return [{"op": "lose", "c": c, "via": "err"}]
        if kind == "exc": return [{"op": "lose", "c": c, "via": "exc"}]
        if kind == "disc": return [{"op": "disc", "c": c}]
        if kind == "sockfail": return [{"op": "sockfail", "c": c}]
        if kind == "senderr": return [{"op": "sockfail", "c": c}, {"op": "recv", "c": c, "msgs": [self.M("echo_request", 77)]}]
        raise KeyError(kind)

    def orders(self, nconn, dpid_patterns, losses):
        """every interleaving of (connect_i, up_i, lose_i) for nconn connections, with registry probes after each event"""
        def multiperms(left):
            if not any(left): yield (); return
            for i in range(len(left)):
                if left[i]:
                    left[i] -= 1
                    for rest in multiperms(left): yield (i,) + rest
                    left[i] += 1
        for perm in multiperms([3] * nconn):
            for pat in dpid_patterns:
                for li, loss in enumerate(losses):
                    ops, stage, ids, nxt = [], {}, {}, 0
                    for i in perm:
                        st = stage.get(i, 0); stage[i] = st + 1
                        if st == 0:
                            ids[i] = nxt; nxt += 1; ops.append({"op": "connect"})
                        elif st == 1:
                            ops += self.up_ops(ids[i], pat[i], "barrier" if (i + li) % 2 == 0 else "error", mode=(i + li) % 2, ps=(40 + i,))
                        else:
                            ops += self.loss_ops(ids[i], loss[i % len(loss)])
                            if loss[i % len(loss)] in ("disc", "sockfail", "senderr"): ops.append({"op": "lose", "c": ids[i], "via": "eof"})
                        for d in sorted(set(pat)): ops.append({"op": "sendto", "d": d, "x": 900 + len(ops)})
                    yield {"ops": ops, "tag": "orders"}

    def loss_points(self):
        for fin in ("barrier", "error"):
            for other in (False, True):
                for p in range(6):
                    for kind in ("eof", "err", "disc", "sockfail", "senderr", "exc"):
                        for mode in (0, 1):
                            m = self.hs_msgs(5, fin)
                            msgs = m[:2] + [self.M("port_status", 61, r=0)] + m[2:] + [self.M("port_status", 62, r=1)]
                            pre = [{"op": "connect"}] + (self.up_ops(0, 5) + [{"op": "connect"}] if other else [])
                            c = 1 if other else 0
                            ops = pre + self.batches(c, msgs[:p], mode) + self.loss_ops(c, kind) + self.batches(c, msgs[p:], mode)
                            ops += [{"op": "sendto", "d": 5, "x": 950}, {"op": "lose", "c": c, "via": "eof"}, {"op": "sendto", "d": 5, "x": 951}]
                            if other: ops += [{"op": "lose", "c": 0, "via": "err"}, {"op": "sendto", "d": 5, "x": 952}]
                            yield {"ops": ops, "tag": "loss"}

    def specials(self):
        M, up = self.M, self.up_ops
        C = {"op": "connect"}
        def S(d, x): return {"op": "sendto", "d": d, "x": x}
        def R(c, *msgs): return {"op": "recv", "c": c, "msgs": list(msgs)}
        def X(c, via="eof"): return {"op": "lose", "c": c, "via": via}
        yield {"ops": [C] + up(0, 5) + [C] + up(1, 5) + [X(0), S(5, 1)], "tag": "D3"}                        # stale close after reconnect
        yield {"ops": [C] + up(0, 5) + [C, R(1, M("hello", 1), M("features_reply", 2, d=5)), X(1), S(5, 1)], "tag": "D3-handshake"}
        yield {"ops": [C] + up(0, 5) + [R(0, M("error", 9, ty=1, code=1), M("packet_in", 10)), S(5, 1), X(0)], "tag": "error-when-up"}
        yield {"ops": [C, R(0, M("hello", 1), M("features_reply", 2, d=5)), {"op": "sockfail", "c": 0}, R(0, M("echo_request", 4), M("barrier_reply", "good")), S(5, 1), X(0), S(5, 2)], "tag": "send-error-then-barrier"}
        yield {"ops": [C] + up(0, 5) + [{"op": "disc", "c": 0}, C] + up(1, 5) + [X(0), S(5, 1)], "tag": "D3-disc-then-close"}
        yield {"ops": [C] + up(0, 5) + [R(0, M("port_status", 21), M("packet_in", 22), M("echo_request", 23), M("echo_reply", 24), M("error", 25, ty=2, code=3)),
                       R(0, M("barrier_reply", 26), M("stats_desc", 27), M("hello", 28), M("features_reply", 29, d=5), M("port_status", 30)), S(5, 1), X(0)], "tag": "all-when-up"}
        yield {"ops": [C] + up(0, 5) + [C] + up(1, 5) + [X(1), S(5, 1), X(0)], "tag": "orphan"}              # newer one dies first
        yield {"ops": [C] + up(0, 5) + [R(0, M("features_reply", 3, d=6)), S(5, 1), S(6, 2), X(0), S(5, 3), S(6, 4)], "tag": "dpid-change"}
        yield {"ops": [C] + up(0, 5) + [C] + up(1, 5) + [R(0, M("features_reply", 3, d=5)), S(5, 1), X(0), S(5, 2), X(1), S(5, 3)], "tag": "refresh"}
        yield {"ops": [C, R(0, M("hello", 1), M("port_status", 50), M("features_reply", 2, d=5)), R(0, M("port_status", 51), M("barrier_reply", "good")), X(0)], "tag": "ps-before-features"}
        yield {"ops": [C, R(0, M("hello", 1), M("features_reply", 2, d=5)), R(0, M("port_status", 51), M("features_reply", 3, d=5)), R(0, M("port_status", 52), M("barrier_reply", "good")), X(0)], "tag": "features-twice"}
        yield {"ops": [C, R(0, M("hello", 1), M("features_reply", 2, d=5)), R(0, M("barrier_reply", BAD_XID)), R(0, M("barrier_reply", "good")), S(5, 1), X(0)], "tag": "wrong-xid"}
        yield {"ops": [C, R(0, M("hello", 1), M("features_reply", 2, d=5)), R(0, M("barrier_reply", BAD_XID), M("features_reply", 3, d=5)), X(0), S(5, 1)], "tag": "wrong-xid-batch"}
        yield {"ops": [C, R(0, M("barrier_reply", 3), M("error", 3, ty=1, code=1), M("hello", 1), M("hello", 2)), R(0, M("features_reply", 2, d=5)),
                       R(0, M("error", "good", ty=1, code=0), M("error", "good", ty=0, code=1), M("error", "good", ty=1, code=1)), X(0, "err")], "tag": "errors"}
        yield {"ops": [C] + up(0, 5) + [{"op": "sockfail", "c": 0}, S(5, 1), S(5, 2), X(0), S(5, 3)], "tag": "sendto-send-error"}
        yield {"ops": [C, {"op": "sockfail", "c": 0}, R(0, M("hello", 1)), R(0, M("features_reply", 2, d=5)), X(0)], "tag": "send-error-hello"}
        yield {"ops": [C, R(0, M("hello", 1)), {"op": "sockfail", "c": 0}, R(0, M("features_reply", 2, d=5), M("barrier_reply", 5)), X(0), S(5, 1)], "tag": "send-error-features"}
        yield {"ops": [C] + up(0, 5) + [X(0), {"op": "disc", "c": 0}, R(0, M("packet_in", 1)), X(0), {"op": "disc", "c": 7}, R(3, M("hello", 1)), S(9, 9)], "tag": "after-close"}
        yield {"ops": [C] + up(0, 5) + [{"op": "disc", "c": 0}, R(0, M("features_reply", 3, d=5), M("port_status", 9)), S(5, 1), X(0)], "tag": "msg-after-disc"}

    # datapath ids are arbitrary 64-bit numbers: the histories are written with the placeholders 5, 6, 7 and re-run with the edge
    # values (0 is a legal id and falsy in Python; 2^64-1 is the largest; 1 and 2^63 for good measure)
    DPID_MAPS = [{5: 0, 6: 1, 7: 2}, {5: 2 ** 64 - 1, 6: 0, 7: 5}, {5: 1, 6: 2 ** 63, 7: 0}]

    @staticmethod
    def remap(case, mp):
        def f(d): return mp.get(d, d)
        ops = []
        for o in case["ops"]:
            o = dict(o)
            if o["op"] == "sendto": o["d"] = f(o["d"])
            elif o["op"] == "recv":
                o["msgs"] = [dict(m, d=f(m["d"])) if m["m"] == "features_reply" else m for m in o["msgs"]]
            elif o["op"] == "round":
                o["r"] = [it if it == "new" else dict(it, msgs=[dict(m, d=f(m["d"])) if m["m"] == "features_reply" else m for m in it.get("msgs", [])])
                          for it in o.get("r", [])]
            ops.append(o)
        c = dict(case); c["ops"] = ops; c["tag"] = case.get("tag", "") + "/dpid%s" % sorted(mp.items())[0][1]
        return c

    @staticmethod
    def shift(case, k, prelude, tag):
        """the same history with every connection index raised by k, after `prelude` (which creates k connections)"""
        ops = []
        for o in case["ops"]:
            o = dict(o)
            if "c" in o: o["c"] += k
            if o["op"] == "round":
                o["e"] = [c + k for c in o.get("e", [])]
                o["r"] = [it if it == "new" else dict(it, c=it["c"] + k) for it in o.get("r", [])]
            ops.append(o)
        c = dict(case); c["ops"] = list(prelude) + ops; c["tag"] = case.get("tag", "") + tag
        return c

    def high_xid_prelude(self):
        """one established connection (datapath 9) that is sent 260 hellos: the default handler answers each with a features request, so
        every xid drawn afterwards is above 256 — where `is` and `==` on ints part ways"""
        ops = [{"op": "connect"}] + self.up_ops(0, 9)
        for j in range(10):
            ops.append({"op": "recv", "c": 0, "msgs": [self.M("hello", 300 + j)] * 26})
        return ops

    def interleaved_handshakes(self):
        """two connections whose handshakes interleave in every way (each connection's handshake state must be its own)"""
        def merges(a, b):
            if not a: yield list(b); return
            if not b: yield list(a); return
            for r in merges(a[1:], b): yield [a[0]] + r
            for r in merges(a, b[1:]): yield [b[0]] + r
        for da, db in ((5, 5), (5, 6)):
            for fin in ("barrier", "error"):
                A = [(0, m) for m in self.hs_msgs(da, fin)[:2]] + [(0, self.M("port_status", 41)), (0, self.hs_msgs(da, fin)[3])]
                B = [(1, m) for m in self.hs_msgs(db, "barrier")[:2]] + [(1, self.M("port_status", 42)), (1, self.hs_msgs(db, "barrier")[3])]
                for seq in merges(A, B):
                    ops = [{"op": "connect"}, {"op": "connect"}] + [{"op": "recv", "c": c, "msgs": [m]} for c, m in seq]
                    ops += [{"op": "sendto", "d": da, "x": 901}, {"op": "sendto", "d": db, "x": 902}, {"op": "lose", "c": 1}, {"op": "sendto", "d": db, "x": 903},
                            {"op": "lose", "c": 0}, {"op": "sendto", "d": da, "x": 904}]
                    yield {"ops": ops, "tag": "interleaved-handshakes"}

    def rounds(self):
        """several events in ONE select round: error list and readable list together, two readable connections in both orders, an
        accept next to data, the barrier reply of the new connection next to the EOF of the stale one"""
        M, up = self.M, self.up_ops
        C = {"op": "connect"}
        def S(d, x): return {"op": "sendto", "d": d, "x": x}
        half = lambda c, d: [{"op": "recv", "c": c, "msgs": [M("hello", 1), M("features_reply", 2, d=d)]}]
        bar = lambda c: {"c": c, "msgs": [M("barrier_reply", "good")]}
        eof = lambda c: {"c": c}
        for d1 in (5, 6):
            pre = [C] + up(0, 5) + [C] + half(1, d1)
            for r in ([bar(1), eof(0)], [eof(0), bar(1)], [bar(1), {"c": 0, "msgs": [M("port_status", 33), M("echo_request", 34)]}]):
                yield {"ops": pre + [{"op": "round", "r": r}, S(5, 1), S(6, 2), {"op": "lose", "c": 1}, S(5, 3), {"op": "lose", "c": 0}, S(5, 4)], "tag": "round"}
            yield {"ops": pre + [{"op": "round", "e": [0], "r": [bar(1)]}, S(5, 1), S(6, 2), {"op": "lose", "c": 1}, S(5, 3)], "tag": "round"}
            yield {"ops": pre + [{"op": "round", "e": [1], "r": [{"c": 0, "msgs": [M("port_status", 33)]}]}, S(5, 1), {"op": "lose", "c": 0}], "tag": "round"}
            yield {"ops": pre + [{"op": "round", "e": [0, 1]}, S(5, 1), S(6, 2)], "tag": "round"}
            yield {"ops": pre + [{"op": "round", "r": [eof(0), eof(1)]}, S(5, 1), S(6, 2)], "tag": "round"}
            yield {"ops": pre + [{"op": "round", "r": [eof(1), "new", eof(0)]}, {"op": "recv", "c": 2, "msgs": [M("hello", 1), M("features_reply", 2, d=d1)]},
                                 {"op": "recv", "c": 2, "msgs": [M("barrier_reply", "good")]}, S(5, 1), S(6, 2), {"op": "lose", "c": 2}, S(d1, 3)], "tag": "round"}
            yield {"ops": [C] + up(0, 5) + [{"op": "round", "r": ["new", {"c": 0, "msgs": [M("packet_in", 7)]}]}] + half(1, d1) +
                          [{"op": "round", "r": [{"c": 0, "msgs": [M("port_status", 8)]}, bar(1)]}, S(5, 1), S(6, 2),
                           {"op": "round", "e": [1], "r": [eof(0)]}, S(5, 3), S(6, 4)], "tag": "round"}

    @staticmethod
    def merge_rounds(case, rng):
        """some neighbouring reads / losses / accepts of a random history happen in ONE select round instead of one after the other"""
        ops, out, i = case["ops"], [], 0
        def item(o):
            if o["op"] == "connect": return "new"
            if o["op"] == "recv" and sum(len(m.get("body", "")) for m in o["msgs"]) == 0 and len(o["msgs"]) <= 2 and \
               not any(m["m"] in ("stats_desc", "features_reply") for m in o["msgs"]): return {"c": o["c"], "msgs": o["msgs"]}
            if o["op"] == "lose" and o.get("via", "eof") == "eof": return {"c": o["c"]}
            return None
        created = 0                                                  # connections accepted before the current position
        while i < len(ops):
            a = item(ops[i])
            b_ = item(ops[i + 1]) if i + 1 < len(ops) else None
            distinct = a is not None and b_ is not None and not (a == "new" and b_ == "new") and \
                       (a == "new" or b_ == "new" or a["c"] != b_["c"]) and \
                       all(it == "new" or it["c"] < created for it in (a, b_))   # only a connection that exists can be readable
            if distinct and rng.random() < 0.5:
                out.append({"op": "round", "r": [a, b_]}); i += 2
                created += sum(1 for it in (a, b_) if it == "new")
            else:
                out.append(ops[i]); created += 1 if ops[i]["op"] == "connect" else 0; i += 1
        c = dict(case); c["ops"] = out
        return c

    def error_sweep(self, full):
        """between hello and the barrier answer, at every position, an ERROR of every (type, code) with every interesting xid — 0, the barrier
        request's, the features request's, barrier ± 1, a large one — and every other kind of message the switch may send then; afterwards the real
        barrier reply.  Only BAD_REQUEST/BAD_TYPE with exactly the barrier's xid may announce the connection."""
        M = self.M
        types = range(0, 6) if full else (0, 1, 2)
        codes = range(0, 9) if full else (0, 1, 2)
        xids = [0, "good", "freq", "good+1", "good-1", 0x7fffffff, 0xffffffff]
        base = [M("hello", 11), M("features_reply", 12, d=5), M("stats_desc", 13)]
        n = 0
        for pos in (1, 2, 3):                                        # after hello / after the features reply / after the desc reply
            for t in types:
                for cd in codes:
                    for x in xids:
                        n += 1
                        seq = base[:pos] + [M("error", x, ty=t, code=cd)] + base[pos:]
                        ops = [{"op": "connect"}] + self.batches(0, seq, n % 2) + [{"op": "sendto", "d": 5, "x": 900},
                               {"op": "recv", "c": 0, "msgs": [M("barrier_reply", "good")]}, {"op": "sendto", "d": 5, "x": 901}, {"op": "lose", "c": 0}]
                        yield {"ops": ops, "tag": "error-sweep"}
            others = [M("echo_request", 0), M("echo_reply", 0), M("packet_in", 0), M("port_status", 0), M("stats_desc", 0), M("hello", 0),
                      M("barrier_reply", 0), M("barrier_reply", "good+1"), M("barrier_reply", "good-1"), M("barrier_reply", "freq")]
            for o in others:
                n += 1
                seq = base[:pos] + [o] + base[pos:]
                yield {"ops": [{"op": "connect"}] + self.batches(0, seq, n % 2) + [{"op": "sendto", "d": 5, "x": 900},
                       {"op": "recv", "c": 0, "msgs": [M("barrier_reply", "good")]}, {"op": "sendto", "d": 5, "x": 901}, {"op": "lose", "c": 0}], "tag": "error-sweep"}

    def conventions(self):
        """the API called the other ways: disconnect(msg) positionally / by keyword, sendToDPID by keyword / with a message object"""
        C = {"op": "connect"}
        for how in (1, 2):
            for p in (2, 4):
                hsops = self.up_ops(0, 5, mode=0)
                yield {"ops": [C] + hsops[:p] + [{"op": "disc", "c": 0, "how": how}] + hsops[p:] +
                              [{"op": "sendto", "d": 5, "x": 1, "kw": True}, {"op": "lose", "c": 0}, {"op": "sendto", "d": 5, "x": 2, "obj": True}], "tag": "conventions"}
        yield {"ops": [C] + self.up_ops(0, 5) + [C] + self.up_ops(1, 5) + [{"op": "sendto", "d": 5, "x": 700, "obj": True}, {"op": "disc", "c": 1, "how": 1},
                      {"op": "sendto", "d": 5, "x": 701, "kw": True}, {"op": "disc", "c": 0, "how": 2}, {"op": "sendto", "d": 5, "x": 702, "obj": True}], "tag": "conventions"}

    LISTENERS = [{"up": "send"}, {"up": "sendto"}, {"down": "sendto"}, {"up": "send", "down": "sendto"}, {"up": "sendto", "down": "sendto"}]

    def with_listeners(self, case, ls):
        c = dict(case); c["listeners"] = ls; c["tag"] = case.get("tag", "") + "/listeners"
        return c

    def listener_cases(self):
        """histories run with application listeners that re-enter the controller from inside ConnectionUp / ConnectionDown
        (compared with the listener model `runL` of Model/ConnL.lean; the theorems assume listeners that do not re-enter)"""
        base = list(self.specials()) + list(self.orders(2, [(5, 5), (5, 6)], [("eof", "err"), ("senderr", "disc")])) + list(self.loss_points())[::5]
        variants = list(self.LISTENERS) + [{"up": "disc"}, {"up": "disc", "down": "sendto"}]
        for j, c in enumerate(base):
            for t, ls in enumerate(variants):
                c2 = self.with_listeners(c, ls)
                yield c2 if (j + t) % 2 == 0 else self.remap(c2, self.DPID_MAPS[(j + t) % 3])

    MUTES = [{"mute": ["PortStatus"]}, {"mute": ["BarrierIn", "ErrorIn", "PacketIn"]}, {"mute": ["FeaturesReceived", "RawStatsReply", "SwitchDescReceived", "PortStatus"]},
             {"halt": ["PortStatus"]}, {"halt": ["FeaturesReceived", "BarrierIn", "PacketIn", "ErrorIn", "RawStatsReply", "SwitchDescReceived"]},
             {"mute": ["PacketIn"], "halt": ["PortStatus", "ErrorIn"]}]

    def quiet_cases(self):
        """histories run with NO nexus-level listener for some event kinds (raiseEvent returns None) or with one that halts them"""
        base = list(self.specials()) + list(self.interleavings(1, False, ASYNC))
        for j, c in enumerate(base):
            for t, q in enumerate(self.MUTES):
                if (j + t) % 2: continue
                c2 = dict(c); c2.update(q); c2["tag"] = c.get("tag", "") + "/quiet"
                yield c2

    LIFECYCLE = ["ConnectionUp", "ConnectionDown", "ConnectionHandshakeComplete", "FeaturesReceived", "PortStatus"]

    def with_beh(self, case, beh, tag="/beh"):
        c = dict(case); c["beh"] = beh; c["tag"] = case.get("tag", "") + tag
        return c

    def halting_cases(self):
        """histories run with a LAST listener, on the nexus or on every Connection, that halts / unsubscribes / raises (every spelling of every
        outcome) on a lifecycle event: ConnectionUp and ConnectionDown with every spelling on either level over every hand-written history; the other
        kinds, combinations over both levels, and the loss-point / two-connection / select-round histories in rotation; a third of them together
        with re-entrant application listeners.  Nexus-level outcomes are model-compared (Model/ConnH.lean); connection-level ones must change nothing."""
        sp = sorted(self.BEH_SPELLINGS)
        singles = [{lv: {k: x}} for k in ("ConnectionDown", "ConnectionUp") for lv in ("nexus", "con") for x in sp]
        others = [{lv: {k: x}} for k in self.LIFECYCLE[2:] + ["PacketIn", "ErrorIn", "BarrierIn", "RawStatsReply", "SwitchDescReceived"] for lv in ("nexus", "con") for x in sp]
        combos = [{"nexus": {k: x for k in self.LIFECYCLE}} for x in ("halt", "haltremove", "raise", "remove", "sethalt", "true")] + \
                 [{"con": {k: x for k in self.LIFECYCLE}} for x in ("halt", "haltremove", "raise_base", "false")] + \
                 [{"nexus": {k: x for k in EVENTS}, "con": {k: y for k in EVENTS}} for x, y in (("halt", "halt"), ("haltremove", "raise"), ("raise", "haltremove"),
                                                                                                ("once_halt", "once_halt"), ("empty", "remove"))] + \
                 [{"nexus": {"ConnectionUp": "halt", "ConnectionDown": "halt"}}, {"nexus": {"ConnectionUp": "haltremove", "ConnectionDown": "once_halt"}},
                  {"nexus": {"ConnectionDown": "halt"}, "con": {"ConnectionDown": "halt"}}, {"nexus": {"ConnectionDown": "raise"}, "con": {"ConnectionDown": "raise"}},
                  {"nexus": {"ConnectionUp": "raise", "PortStatus": "haltremove"}, "con": {"ConnectionUp": "halt"}}]
        specials = list(self.specials())
        for j, c in enumerate(specials):
            for t, b in enumerate(singles):
                yield self.with_beh(c, b) if (j + t) % 4 else self.remap(self.with_beh(c, b), self.DPID_MAPS[(j + t) % 3])
            for t, b in enumerate(others):
                if (j + t) % 6 == 0: yield self.with_beh(c, b)
            for t, b in enumerate(combos): yield self.with_beh(c, b)
        wide = list(self.loss_points())[::3] + list(self.orders(2, [(5, 5), (5, 6)], [("eof", "err"), ("disc", "senderr")])) + list(self.rounds()) + \
               list(self.interleaved_handshakes())[::9]
        pool = singles + combos + others[::5]
        lsn = list(self.LISTENERS) + [{"up": "disc"}, {"up": "disc", "down": "sendto"}]
        for j, c in enumerate(wide):
            for t in range(2):
                c2 = self.with_beh(c, pool[(7 * j + 13 * t) % len(pool)])
                if (j + t) % 3 == 0: c2 = self.with_listeners(c2, lsn[(j + t) % len(lsn)])
                yield c2

    # ------------------------------------------------------------------ segmentations of the switch's byte stream
    SEG_OFFS = (1, 4, 8, 9, "m", -1)                                 # a read ends inside the header / right behind it / inside the body / one byte short

    @staticmethod
    def with_seg(case, pick, tag="/seg"):
        """the same history with the bytes of its reads cut differently: pick(j, op) -> seg for the j-th recv op (or None)"""
        ops, j = [], 0
        for o in case["ops"]:
            if o["op"] == "recv":
                sg = pick(j, o); j += 1
                if sg: o = dict(o, seg=sg)
            ops.append(o)
        c = dict(case); c["ops"] = ops; c["tag"] = case.get("tag", "") + tag
        return c

    def seg_bases(self):
        """handshake / early-port-status / lifecycle histories whose reads hold several messages"""
        M, C = self.M, {"op": "connect"}
        def S(d, x): return {"op": "sendto", "d": d, "x": x}
        for fin in ("barrier", "error"):
            for ps in ((41, 42), (41, 42, 43, 44)):
                # early port-status in the read of the features reply AND in the read of the barrier answer; more messages behind it
                m = self.hs_msgs(5, fin)
                ops = [C, {"op": "recv", "c": 0, "msgs": m[:3] + [M("port_status", x, r=x % 3) for x in ps]},
                       {"op": "recv", "c": 0, "msgs": [M("port_status", 45, r=1), M("echo_request", 46), M("port_status", 47, r=2), m[3], M("port_status", 48), M("packet_in", 49)]},
                       S(5, 900), {"op": "recv", "c": 0, "msgs": [M("port_status", 50, r=1), M("packet_in", 51), M("port_status", 52, r=2)]},
                       {"op": "lose", "c": 0}, S(5, 901)]
                yield {"ops": ops, "tag": "seg-handshake"}
        yield {"ops": [C] + self.up_ops(0, 5, ps=(41,)) + [C] + self.up_ops(1, 5, "error", ps=(42, 43)) + [S(5, 1), {"op": "lose", "c": 0}, S(5, 2),
               {"op": "recv", "c": 1, "msgs": [M("port_status", 44), M("features_reply", 3, d=6), M("port_status", 45)]}, S(5, 3), S(6, 4), {"op": "lose", "c": 1, "via": "err"}], "tag": "seg-reconnect"}
        for c in self.specials(): yield c
        for c in list(self.loss_points())[1::4]: yield c
        for c in self.orders(2, [(5, 5), (5, 6)], [("eof", "err"), ("disc", "senderr")]): yield c

    def segment_cases(self):
        """HARDENING 16: how the switch's bytes are cut into reads is an input.  Every single cut (message x offset) and every pair of cuts in the
        handshake histories; fixed read sizes (1, 7, 8, 9, 13, 64 bytes) and rotating cuts over the hand-written / loss-point / two-connection
        histories; some with halting or re-entrant listeners.  The model's answer does not depend on the cuts (it is told the messages)."""
        bases = list(self.seg_bases())
        nhs = 5
        for b, c in enumerate(bases[:nhs]):
            recvs = [o for o in c["ops"] if o["op"] == "recv"]
            singles = [(j, mi, off) for j, o in enumerate(recvs) for mi in range(len(o["msgs"])) for off in self.SEG_OFFS]
            for (j, mi, off) in singles:
                yield self.with_seg(c, lambda jj, o, j=j, mi=mi, off=off: [[mi, off]] if jj == j else None)
            for t, ((j1, m1, o1), (j2, m2, o2)) in enumerate(itertools.combinations(singles, 2)):
                if (t + b) % 23 == 0 and (j1, m1) != (j2, m2):
                    yield self.with_seg(c, lambda jj, o, a=(j1, m1, o1), b_=(j2, m2, o2): [[x[1], x[2]] for x in (a, b_) if x[0] == jj] or None)
        sizes = (7, 8, 9, 13, 64)
        lsn = list(self.LISTENERS) + [{"up": "disc"}]
        for b, c in enumerate(bases):
            if b < nhs or b % 9 == 0: yield self.with_seg(c, lambda jj, o: {"every": 1}, "/seg1")
            yield self.with_seg(c, lambda jj, o, n=sizes[b % len(sizes)]: {"every": n})
            for t in range(2):
                # in every read with several messages: one cut inside a message that is not the first, a second one somewhere else
                def pick(jj, o, t=t, b=b):
                    n = len(o["msgs"])
                    if n < 2: return [[0, self.SEG_OFFS[(b + jj + t) % 6]]] if (b + jj + t) % 3 == 0 else None
                    sg = [[1 + (b + jj + 3 * t) % (n - 1), (8, "m", -1, 9)[(b + jj + t) % 4]]]
                    if (b + jj) % 2: sg.append([(b + t) % n, self.SEG_OFFS[(b + 2 * jj + t) % 6]])
                    return sg
                c2 = self.with_seg(c, pick)
                if (b + t) % 5 == 0: c2 = self.with_listeners(c2, lsn[(b + t) % len(lsn)])
                if (b + t) % 7 == 0: c2 = self.with_beh(c2, {"nexus": {"PortStatus": "halt"}} if b % 2 else {"con": {"ConnectionUp": "haltremove", "PortStatus": "raise"}})
                yield c2 if (b + t) % 4 else self.remap(c2, self.DPID_MAPS[(b + t) % 3])
        # the burst of a switch with many messages read with the real 2048-byte limit, cutting through whatever is there
        m = self.hs_msgs(5)
        burst = m[:3] + [self.M("port_status", 100 + j, r=j % 3) for j in range(40)]
        yield {"ops": [{"op": "connect"}, {"op": "recv", "c": 0, "msgs": burst, "seg": {"every": 2048}}, {"op": "recv", "c": 0, "msgs": [self.M("port_status", 150), m[3]] +
               [self.M("packet_in", 200 + j) if j % 3 else self.M("port_status", 200 + j) for j in range(70)], "seg": {"every": 2048}}, {"op": "sendto", "d": 5, "x": 1}, {"op": "lose", "c": 0}], "tag": "seg-burst"}

    # ------------------------------------------------------------------ re-entrant lifecycle calls from listeners of every event kind
    def with_re(self, case, re_, tag="/re"):
        c = dict(case); c["re"] = [list(x) for x in re_]; c["tag"] = case.get("tag", "") + tag
        return c

    def reentrant_cases(self):
        """HARDENING 5/16: what a listener does is an input.  disconnect() / close() / send() / sendToDPID() called from inside a listener of every
        lifecycle event kind (and of the other kinds, in rotation) on the nexus and on the Connection, over the hand-written, loss-point,
        two-connection and select-round histories.  The exactly-once clauses apply unchanged.  Model-compared when all the calls are made from
        ConnectionDown listeners and are disconnect / close / send (the model's answer: nothing changes); oracle only otherwise."""
        M, C = self.M, {"op": "connect"}
        def S(d, x): return {"op": "sendto", "d": d, "x": x}
        life = [C] + self.up_ops(0, 5, ps=(41, 42)) + [{"op": "recv", "c": 0, "msgs": [M("port_status", 43), M("packet_in", 44), M("features_reply", 3, d=5), M("port_status", 45)]},
                S(5, 1), C] + self.up_ops(1, 5, "error", mode=0, ps=(46,)) + [S(5, 2), {"op": "lose", "c": 0}, S(5, 3), {"op": "disc", "c": 1}, S(5, 4), {"op": "lose", "c": 1, "via": "err"}, S(5, 5)]
        specials = [{"ops": life, "tag": "lifecycle"}] + list(self.specials())
        singles = [[[lv, ev, act]] for ev in self.LIFECYCLE for lv in ("nexus", "con") for act in self.RE_ACTS if not (lv == "con" and ev == "ConnectionHandshakeComplete")]
        others = [[[lv, ev, act]] for ev in ("PacketIn", "ErrorIn", "BarrierIn", "RawStatsReply", "SwitchDescReceived") for lv in ("nexus", "con") for act in self.RE_ACTS]
        combos = [[[lv, ev, act] for ev in ("ConnectionUp", "ConnectionDown", "FeaturesReceived", "PortStatus") for lv in lvs] for act in self.RE_ACTS for lvs in (("nexus",), ("con",), ("nexus", "con"))] + \
                 [[["nexus", "ConnectionDown", a], ["con", "ConnectionDown", b]] for a in ("disc", "close", "send") for b in ("disc", "close", "send")] + \
                 [[["nexus", "ConnectionUp", "sendto"], ["con", "ConnectionDown", "close"]], [["con", "PortStatus", "close"], ["nexus", "ConnectionDown", "disc"]],
                  [["nexus", "PortStatus", "disc"], ["nexus", "ConnectionDown", "close"], ["con", "ConnectionDown", "disc"]]]
        for j, c in enumerate(specials):
            for t, r in enumerate(singles + combos):
                c2 = self.with_re(c, r)
                yield c2 if (j + t) % 4 else self.remap(c2, self.DPID_MAPS[(j + t) % 3])
            for t, r in enumerate(others):
                if (j + t) % 4 == 0: yield self.with_re(c, r)
        wide = list(self.loss_points())[::3] + list(self.orders(2, [(5, 5), (5, 6)], [("eof", "err"), ("disc", "senderr")])) + list(self.rounds()) + \
               list(self.interleaved_handshakes())[::9] + list(self.seg_bases())[:3]
        pool = singles + combos + others[::3]
        sp = sorted(self.BEH_SPELLINGS)
        for j, c in enumerate(wide):
            for t in range(3):
                c2 = self.with_re(c, pool[(5 * j + 11 * t) % len(pool)])
                if (j + t) % 4 == 0: c2 = self.with_beh(c2, {("nexus", "con")[j % 2]: {self.LIFECYCLE[(j + t) % 5]: sp[(j + 3 * t) % len(sp)]}})
                if (j + t) % 5 == 0: c2 = self.with_listeners(c2, self.LISTENERS[(j + t) % len(self.LISTENERS)])
                if (j + t) % 6 == 0: c2 = self.with_seg(c2, lambda jj, o, j=j: [[len(o["msgs"]) - 1, (8, "m", -1)[(j + jj) % 3]]])
                yield c2

    def random_re(self, rng):
        return [[rng.choice(["nexus", "nexus", "con"]), rng.choice(self.LIFECYCLE[:2] + self.LIFECYCLE + EVENTS), rng.choice(self.RE_ACTS)] for _ in range(rng.choice([1, 1, 2, 3]))]

    @staticmethod
    def random_seg(rng):
        r = rng.random()
        if r < 0.25:
            n = rng.choice([1, 3, 7, 8, 9, 16, 31, 64, 100])
            return lambda jj, o: {"every": n}
        def pick(jj, o):
            n = len(o["msgs"])
            if rng.random() < 0.3: return None
            return [[rng.randrange(n), rng.choice(C09.SEG_OFFS + (0, 2, 7, 12, 16, -2, -8))] for _ in range(rng.choice([1, 1, 2, 3]))]
        return pick

    def corpus(self):
        cases = list(self._corpus())
        return cases + list(self.listener_cases()) + list(self.quiet_cases()) + list(self.halting_cases()) + list(self.segment_cases()) + list(self.reentrant_cases())

    def _corpus(self):
        cases = list(self.specials())
        cases += list(self.loss_points())
        cases += list(self.interleavings(2, False, ["port_status", "echo_request", "packet_in", "error", "error_type"]))
        cases += list(self.interleavings(1, True, ASYNC))
        orders2 = list(self.orders(2, [(5, 5), (5, 6)], [("eof", "err"), ("disc", "senderr"), ("err", "sockfail")]))
        cases += orders2
        for mp in self.DPID_MAPS:                                    # the same histories for the edge datapath ids
            cases += [self.remap(c, mp) for c in self.specials()]
            cases += [self.remap(c, mp) for c in orders2]
        cases += [self.remap(c, self.DPID_MAPS[i % 3]) for i, c in enumerate(self.loss_points())]
        inter = list(self.interleaved_handshakes())
        rounds = list(self.rounds())
        cases += inter + rounds + list(self.conventions()) + list(self.error_sweep(False))
        cases += [self.remap(c, self.DPID_MAPS[i % 3]) for i, c in enumerate(rounds)]
        # the same with every xid above 256 (one extra connection in front that burns 260 xids)
        pre = self.high_xid_prelude()
        cases += [self.shift(c, 1, pre, "/xid>256") for c in list(self.specials()) + inter[::7] + rounds[::2]]
        return cases

    def random_case(self, rng, big=False):
        ncon = rng.choice([1, 2, 2, 3, 3, 4 if big else 3])
        dp = [rng.choice([5, 6]) for _ in range(ncon)]
        if rng.random() < 0.6: dp = [5] * ncon
        created, ops, stage = 0, [], {}
        L = rng.randint(4, 40 if big else 24)
        while len(ops) < L:
            r = rng.random()
            if created < ncon and (created == 0 or r < 0.12):
                ops.append({"op": "connect"}); stage[created] = 0; created += 1; continue
            c = rng.randrange(created) if rng.random() < 0.97 else rng.randrange(created + 2)
            r = rng.random()
            if r < 0.68:
                msgs = []
                for _ in range(rng.choice([1, 1, 1, 2, 3])):
                    st = stage.get(c, 0)
                    if rng.random() < 0.6 and st < 4:
                        m = dict(self.hs_msgs(dp[c] if c < ncon else 5, rng.choice(["barrier", "barrier", "error"]))[st]); stage[c] = st + 1
                        if isinstance(m.get("x"), str) and any(x["m"] == "features_reply" for x in msgs): break
                    else:
                        k = rng.choice(["port_status", "port_status", "echo_request", "packet_in", "error", "error_type", "error0", "echo_reply", "error_any", "hello", "stats_desc",
                                        "barrier_reply", "barrier_good", "features_same"])
                        j = rng.randint(0, 9)
                        if k == "hello": m = self.M("hello", 100 + j)
                        elif k == "stats_desc": m = self.M("stats_desc", 110 + j)
                        elif k == "barrier_reply": m = self.M("barrier_reply", rng.choice([BAD_XID, rng.randint(1, 30)]))
                        elif k == "barrier_good": m = self.M("barrier_reply", "good")
                        elif k == "error_any": m = self.M("error", rng.choice([0, "good", "freq", "good+1", "good-1", 0xffffffff]), ty=rng.randint(0, 5), code=rng.randint(0, 8))
                        elif k == "features_same": m = self.M("features_reply", 120 + j, d=dp[c] if c < ncon else 5)
                        else: m = self.async_msg(k, j)
                        if isinstance(m.get("x"), str) and any(x["m"] == "features_reply" for x in msgs): break
                    msgs.append(m)
                if msgs: ops.append({"op": "recv", "c": c, "msgs": msgs})
            elif r < 0.78: ops.append({"op": "sendto", "d": rng.choice([5, 6, 5, 6, 7]), "x": 900 + len(ops)})
            elif r < 0.88: ops.append({"op": "lose", "c": c, "via": rng.choice(["eof", "err", "exc"])})
            elif r < 0.93: ops.append({"op": "disc", "c": c})
            else: ops.append({"op": "sockfail", "c": c})
        for d in (5, 6): ops.append({"op": "sendto", "d": d, "x": 990 + d})
        return {"ops": ops, "tag": "random"}

    def generate(self, rng, tier):
        for c in self._generate(rng, tier):
            r = rng.random()                                         # half of the generated histories use edge datapath ids
            c = c if r < 0.5 else self.remap(c, self.DPID_MAPS[int((r - 0.5) * 6) % 3])
            if c.get("tag", "").startswith("random") and rng.random() < 0.3: c = self.merge_rounds(c, rng)
            if c.get("tag", "").startswith("random") and rng.random() < 0.15:
                c = self.with_listeners(c, self.LISTENERS[rng.randrange(len(self.LISTENERS))])
            if rng.random() < 0.25: c = self.with_beh(c, self.random_beh(rng))
            if rng.random() < 0.3: c = self.with_seg(c, self.random_seg(rng))
            if rng.random() < 0.2: c = self.with_re(c, self.random_re(rng))
            yield c

    def random_beh(self, rng):
        sp, beh = sorted(self.BEH_SPELLINGS), {}
        for _ in range(rng.choice([1, 1, 2, 3, 5])):
            k = rng.choice(self.LIFECYCLE + self.LIFECYCLE[:2] + EVENTS)
            beh.setdefault(rng.choice(["nexus", "nexus", "con"]), {})[k] = rng.choice(sp)
        return beh

    def _generate(self, rng, tier):
        if tier == "thorough":
            for c in self.error_sweep(True): yield c
            for c in self.interleavings(3, False, ["port_status", "echo_request", "packet_in", "error", "error_type"]): yield c
            for c in self.interleavings(2, True, ASYNC): yield c
            for c in self.orders(3, [(5, 5, 5), (5, 5, 6), (5, 6, 5), (6, 5, 5)], [("eof", "err", "disc"), ("senderr", "eof", "sockfail")]): yield c
        else:
            for c in self.interleavings(3, False, ASYNC, sample=0.04, rng=rng): yield c
            for c in self.interleavings(2, True, ASYNC, sample=0.01, rng=rng): yield c
            pats = [(5, 5, 5), (5, 5, 6), (5, 6, 5), (6, 5, 5)]
            for i, c in enumerate(self.orders(3, [pats[rng.randrange(4)]], [("eof", "err", "disc")])):
                if rng.random() < 0.08: yield c
        for _ in range(400 if tier == "quick" else 8000):
            yield self.random_case(rng, big=(tier == "thorough"))

    def search_cases(self, rng, tier):
        for c in self.specials(): yield c
        for mp in self.DPID_MAPS:
            for c in self.specials(): yield self.remap(c, mp)
        for c in self.loss_points(): yield c
        for i, c in enumerate(self.halting_cases()):
            if i % 5 == 0: yield c
        for i, c in enumerate(self.segment_cases()):
            if i % 3 == 0: yield c
        for i, c in enumerate(self.reentrant_cases()):
            if i % 3 == 0: yield c
        while True:
            c = self.random_case(rng, big=True)
            if rng.random() < 0.3: c = self.with_beh(c, self.random_beh(rng))
            if rng.random() < 0.3: c = self.with_seg(c, self.random_seg(rng))
            if rng.random() < 0.2: c = self.with_re(c, self.random_re(rng))
            yield self.remap(c, self.DPID_MAPS[rng.randrange(3)]) if rng.random() < 0.5 else c

    # ------------------------------------------------------------------ the property itself, on the implementation's observables
    HSC_KEY = "down:before-up:handshake-complete-listener-drops"

    def oracle(self, case, obs):
        f = self._oracle(case, obs)
        # manual use only, while fixes/C09-7_handshake_complete_listener_drops.diff is not committed in the tree under test: look past that one finding
        return f

    def _oracle(self, case, obs):
        if obs.get("dead_task"): return "task:died " + obs["dead_task"]
        ops = case["ops"][:len(obs["steps"])]
        log = []                                                     # (op index, entry)
        for k, st in enumerate(obs["steps"]):
            for e in st: log.append((k, e))
        ncon = max([len(s) for s in obs["states"]] + [0])
        # ---- per connection scan
        up_at, down_at, feat_in, last_in, barrier_sent = {}, {}, {}, {}, {}
        ps_in, ps_ev = {i: [] for i in range(ncon)}, {i: {"nexus": [], "con": []} for i in range(ncon)}
        ps_window_start = {}
        failed_connect = set()
        exists = lambda j, c: c < len(obs["states"][j])              # the connection had been accepted when operation j ran
        # what the last nexus-level listener did with an event (log entry "beh", written when it fires): ConnectionUp halted for these connections;
        # per connection, the nexus-level PortStatus deliveries in order with whether each was halted
        up_halted, ps_nexus = set(), {i: [] for i in range(ncon)}
        # ARRIVAL is what the switch wrote (obs["resolved"]: the messages of the history, per connection, in order), however the bytes were cut
        # into reads; the messages the connection handled (log entry "in", written when one is unpacked) must be those, in that order, each once
        type_of = {v: t for t, v in KIND_OF_TYPE.items()}
        stream, handled = {i: [] for i in range(ncon)}, {i: 0 for i in range(ncon)}
        rp = 0
        for k, o in enumerate(ops):                                  # (a message for a connection that does not exist yet never arrives anywhere)
            n = self.nsteps(o)
            for r in obs["resolved"][rp:rp + n]:
                if r["op"] == "msg" and k > 0 and r["c"] < len(obs["states"][k - 1]): stream[r["c"]].append((type_of[r["m"]], r["x"]))
            rp += n
        owed_up = {}                                                 # connection -> log position of the reply that completes its handshake
        hdisc, hact_at = set(), {i: [] for i in range(ncon)}         # connections a re-entrant listener disconnected / closed; positions of listener actions
        disc_by, broken_by, d_, b_ = [], [], set(), set()
        for j, o in enumerate(ops):
            if o["op"] == "disc" and exists(j, o["c"]): d_ = d_ | {o["c"]}
            if o["op"] == "sockfail" and exists(j, o["c"]): b_ = b_ | {o["c"]}
            disc_by.append(d_); broken_by.append(b_)
        for pos, (k, e) in enumerate(log):
            explicit_disc, broken = disc_by[k], broken_by[k]
            tag = e[0]
            if tag == "in":
                i, ty, x, extra = e[1], e[2], e[3], e[4]
                nxt = stream[i][handled[i]] if handled[i] < len(stream[i]) else None
                if nxt != (ty, x):
                    return "arrival:not-as-arrived connection %d handled a %s (xid %s) as its message #%d; the switch's message #%d is %s" % (
                        i, KIND_OF_TYPE.get(ty, ty), x, handled[i] + 1, handled[i] + 1, "none: all its messages were handled already" if nxt is None else "a %s (xid %s)" % (KIND_OF_TYPE.get(nxt[0]), nxt[1]))
                handled[i] += 1
                if i in owed_up:
                    return "up:missing connection %d got the answer to its barrier request after its features reply but was not announced" % i
                if ("nexus", i) not in up_at and i in feat_in and barrier_sent.get(i) is not None and x == barrier_sent[i] and \
                   (ty == T_BARRIER_REP or (ty == T_ERROR and extra == [1, 1])):
                    owed_up[i] = pos
                last_in[i] = (pos, ty, x, extra)
                if ty == T_FEAT_REP and ("nexus", i) not in up_at:
                    feat_in[i] = pos; barrier_sent[i] = None; ps_window_start[i] = len(ps_in[i])
                if ty == T_PORT_STATUS: ps_in[i].append(x)
                if ty == T_BARRIER_REP and i in feat_in and ("nexus", i) not in up_at and barrier_sent.get(i) is not None and x != barrier_sent[i]:
                    failed_connect.add(i)
            elif tag == "sent":
                # (barrier requests with xids 5000..7999 are written by this harness's own re-entrant listeners, not by the handshake)
                if e[2] == T_BARRIER_REQ and e[1] in feat_in and ("nexus", e[1]) not in up_at and not 5000 <= e[3] < 8000: barrier_sent[e[1]] = e[3]
            elif tag in ("nexus", "con"):
                name, i, arg = e[1], e[2], e[3]
                if name == "ConnectionUp":
                    if (tag, i) in up_at: return "up:twice ConnectionUp raised twice on %s for connection %d" % (tag, i)
                    if ("nexus", i) in down_at or ("con", i) in down_at:
                        return "up:after-down ConnectionUp raised on %s for connection %d after its ConnectionDown" % (tag, i)
                    if tag == "con" and ("nexus", i) not in up_at: return "up:nexus-con-mismatch connection %d announced on the connection only" % i
                    up_at[(tag, i)] = pos
                    if tag == "nexus": owed_up.pop(i, None)
                    if i not in feat_in: return "up:without-features connection %d announced before any features reply" % i
                    li = last_in.get(i)
                    ok = li is not None and li[0] > feat_in[i] and barrier_sent.get(i) is not None and li[2] == barrier_sent[i] and \
                         (li[1] == T_BARRIER_REP or (li[1] == T_ERROR and li[3] == [1, 1]))
                    if not ok: return "up:without-barrier connection %d announced without the barrier reply / barrier-unsupported error for its barrier xid" % i
                    if tag == "nexus": ps_window_start[i] = ps_window_start.get(i, 0); up_ps_count = len(ps_in[i])
                elif name == "ConnectionDown":
                    if (tag, i) in down_at: return "down:twice ConnectionDown raised twice on %s for connection %d" % (tag, i)
                    down_at[(tag, i)] = pos
                    # "announced" = ConnectionUp raised on the nexus (the connection-level raise is skipped when a nexus-level
                    # ConnectionUp handler drops the connection)
                    if ("nexus", i) not in up_at: return "down:without-up ConnectionDown on %s for connection %d which was never announced" % (tag, i)
                elif name == "PortStatus":
                    if ("nexus", i) not in up_at: return "early_ps:before-up PortStatus raised for connection %d before its ConnectionUp" % i
                    ps_ev[i][tag].append(arg)
                    if tag == "nexus": ps_nexus[i].append([arg, False])
            elif tag == "beh":
                level, name, i, arg, sp = e[1:]
                if level == "nexus" and self.BEH_SPELLINGS[sp] in self.HALTING:
                    if name == "ConnectionUp": up_halted.add(i)
                    if name == "PortStatus" and ps_nexus.get(i) and ps_nexus[i][-1][0] == arg: ps_nexus[i][-1][1] = True
            elif tag == "hact":
                lv_, name_, i, act_ = e[1:]
                if act_ in ("disc", "close"): hdisc.add(i)
                if act_ in ("disc", "close") or i in broken: owed_up.pop(i, None)     # dropped before it could be announced
                if i in hact_at: hact_at[i].append(pos)
            elif tag == "hsendto":
                which, i, d, x, ret, exp, exp_ok = e[1:]
                if ret != (exp is not None):
                    return "sendto:handler sendToDPID(%s) inside a %s listener returned %s; most recently registered live connection: %s" % (d, {"re": "re-entrant"}.get(which, "Connection" + which.capitalize()), ret, exp)
                wrote = pos > 0 and log[pos - 1][1] == ["sent", exp, T_BARRIER_REQ, x]
                if wrote != bool(exp_ok):
                    return "sendto:handler sendToDPID(%s) inside a %s listener %s connection %s" % (d, {"re": "re-entrant"}.get(which, "Connection" + which.capitalize()), "did not reach" if exp_ok else "wrote to", exp)
            elif tag == "closed":
                i = e[1]
                o = ops[k]
                cause = i in self.lost_in(o) or i in explicit_disc or i in broken or i in failed_connect or i in hdisc or \
                        (case.get("listeners") or {}).get("up") == "disc"
                if not cause: return "close:spurious connection %d dropped by the controller although nothing in the history lost it" % i
        if owed_up:
            return "up:missing connection %d got the answer to its barrier request after its features reply but was not announced" % sorted(owed_up)[0]
        # every message that arrived on a connection which is still live (not disconnected, still selected) after the operation has been handled
        arrived, seen = {i: 0 for i in range(ncon)}, {i: 0 for i in range(ncon)}
        for k, o in enumerate(ops):
            items = [(o["c"], len(o["msgs"]))] if o["op"] == "recv" else \
                    [(it["c"], len(it.get("msgs", []))) for it in o.get("r", []) if it != "new"] if o["op"] == "round" else []
            for c, n in items:
                if k > 0 and c < len(obs["states"][k - 1]): arrived[c] += n
            for e in obs["steps"][k]:
                if e[0] == "in": seen[e[1]] += 1
            for i, st in enumerate(obs["states"][k]):
                if not st["disc"] and not st["closed"] and seen[i] != arrived[i]:
                    return "arrival:unhandled connection %d is live and %d of its messages have arrived, but %d were handled" % (i, arrived[i], seen[i])
        # an EOF / error condition the task was shown must close that connection in that very round
        for k, o in enumerate(ops):
            for i in self.lost_in(o):
                was_open = k > 0 and i < len(obs["states"][k - 1]) and not obs["states"][k - 1][i]["closed"]
                if was_open and not obs["states"][k][i]["closed"]:
                    return "close:missing connection %d was shown to the task as lost (EOF / error) but the task still selects on it" % i
        final = obs["states"][-1] if obs["states"] else []
        for i in range(len(final)):
            announced = ("nexus", i) in up_at
            skipped = announced and ("con", i) not in up_at          # legitimate only if the connection was dropped during the nexus-level raise
            k_up = log[up_at[("nexus", i)]][0] if announced else None                        # (by a re-entrant listener: it disconnects, or its send fails),
            act = (case.get("listeners") or {}).get("up")                                     # or if a nexus-level listener halted the announcement
            dropped = announced and act is not None and (act == "disc" or i in broken_by[k_up]) and obs["states"][k_up][i]["disc"]
            if announced and not dropped and hact_at[i] and obs["states"][k_up][i]["disc"]:
                # the same for the listeners of case["re"]: one of them acted on this connection during the announcing operation, before anything
                # that follows the connection-level ConnectionUp was raised
                p0 = up_at[("nexus", i)]
                after = [p for p in range(p0 + 1, len(log)) if log[p][0] == k_up and log[p][1][0] in ("nexus", "con") and log[p][1][2] == i and
                         log[p][1][1] in ("FeaturesReceived", "PortStatus")]
                lim = after[0] if after else len(log)
                dropped = any(log[p][0] == k_up and p < lim for p in hact_at[i])
            if skipped and not dropped and i not in up_halted:
                return "up:nexus-con-mismatch connection %d announced on the nexus but not on the connection" % i
            # ConnectionDown is owed to the listeners on BOTH levels of an announced connection that is lost — whatever a listener on the
            # nexus made of it (Connection.disconnect does not look at the nexus-level result)
            lost = final[i]["closed"] or (disc_by and i in disc_by[-1]) or i in hdisc
            if announced and lost and (("nexus", i) not in down_at or ("con", i) not in down_at):
                return "down:missing connection %d was announced and is lost but no ConnectionDown was raised%s" % (
                    i, "" if ("nexus", i) not in down_at and ("con", i) not in down_at else " on the %s" % ("nexus" if ("nexus", i) not in down_at else "connection"))
            if announced:
                # a connection dropped during the announcement gets nothing more (C09-6; on a tree without it: iff the announcement did stop there)
                quiet = dropped and (self.variant["stop"] or (skipped and i not in up_halted))
                want = [] if quiet else ps_in[i][ps_window_start.get(i, 0):]
                if case.get("re") and (i in hdisc or (broken_by and i in broken_by[-1])):
                    # a listener dropped the connection (or its send failed) somewhere along the way: what is still delivered to a connection that
                    # is going down is left open — but nothing twice, nothing out of order, nothing that did not arrive
                    for lvl in ("nexus", "con"):
                        if not self.sublist(ps_ev[i][lvl], ps_in[i][ps_window_start.get(i, 0):]):
                            return "early_ps:lost-or-reordered connection %d: port-status raised on %s %s, received since the features reply %s" % (
                                i, lvl, ps_ev[i][lvl], ps_in[i][ps_window_start.get(i, 0):])
                    continue
                if "PortStatus" in (case.get("mute") or []):          # nobody listens on the nexus (so nothing is recorded or halted there)
                    if ps_ev[i]["nexus"]: return "early_ps:raised-where-nobody-listens PortStatus on nexus for connection %d" % i
                    if ps_ev[i]["con"] != want:
                        return "early_ps:lost-or-reordered connection %d: port-status raised on con %s, received since the features reply %s" % (i, ps_ev[i]["con"], want)
                    continue
                if ps_ev[i]["nexus"] != want:
                    return "early_ps:lost-or-reordered connection %d: port-status raised on nexus %s, received since the features reply %s" % (i, ps_ev[i]["nexus"], want)
                # on the connection: every delivery no nexus-level listener halted, in order; a halted one may be left out (it is, today)
                got, need = ps_ev[i]["con"], [x for x, h in ps_nexus[i] if not h]
                if got != need:
                    p = 0
                    for x, h in ps_nexus[i]:
                        if p < len(got) and got[p] == x: p += 1
                        elif not h: p = -1; break
                    if p != len(got):
                        return "early_ps:lost-or-reordered connection %d: port-status raised on con %s, received since the features reply %s (halted on the nexus: %s)" % (
                            i, got, want, [x for x, h in ps_nexus[i] if h])
        # ---- registry after every operation
        up_op = {}
        for (tag, i), pos in up_at.items():
            if tag == "nexus": up_op[i] = log[pos][0]
        regseq = {}                                                  # dpid -> list of connection indices in registration order
        li = 0
        prev_reg = {}
        for k in range(len(obs["steps"])):
            while li < len(log) and log[li][0] <= k:
                e = log[li][1]
                if e[0] == "reg": regseq.setdefault(e[1], []).append(e[2])
                li += 1
            st, reg = obs["states"][k], {}
            for key, v in obs["regs"][k]:
                if key is None: return "registry:none-key a connection is registered under dpid None"
                reg[key] = v
            live = {}
            for i, c in enumerate(st):
                if i in up_op and up_op[i] <= k and not c["disc"] and c["dpid"] is not None:
                    live.setdefault(c["dpid"], []).append(i)
            for d, i in reg.items():
                if i not in live.get(d, []):
                    if 0 <= i < len(st) and st[i]["dpid"] != d: return "registry:dpid-changed-stale-entry dpid %s still maps to connection %d whose dpid is now %s" % (d, i, st[i]["dpid"])
                    return "registry:dead-registered dpid %s maps to connection %d which is not a live, announced connection" % (d, i)
            for d, L in live.items():
                seq = [i for i in regseq.get(d, [])]
                latest = seq[-1] if seq else None
                if d not in reg:
                    if latest in L: return "registry:stale-close-unregisters-live dpid %s has live connection %d (the most recently registered) but is not reachable" % (d, latest)
                    return "registry:older-live-unreachable dpid %s has live connection(s) %s but is not reachable (a newer connection was lost first)" % (d, L)
                rank = {i: max(j for j, v in enumerate(seq) if v == i) for i in L if i in seq}
                if reg[d] in rank and any(rank[j] > rank[reg[d]] for j in rank):
                    return "registry:not-most-recent dpid %s maps to connection %d although a live connection registered later" % (d, reg[d])
            o = ops[k]
            if o["op"] == "sendto":
                tgt = prev_reg.get(o["d"])
                rets = [e for e in obs["steps"][k] if e[0] == "ret"]
                sent = [e for e in obs["steps"][k] if e[0] == "sent"]
                if rets != [["ret", tgt is not None]]: return "sendto:inconsistent-with-registry sendToDPID(%s) returned %s, registry had %s" % (o["d"], rets, tgt)
                okc = k > 0 and tgt is not None and tgt not in broken_by[k] and not obs["states"][k - 1][tgt]["disc"]
                want = [["sent", tgt, T_BARRIER_REQ, o["x"]]] if okc else []
                if sent != want: return "sendto:inconsistent-with-registry sendToDPID(%s) wrote %s, expected %s" % (o["d"], sent, want)
            prev_reg = reg
        return None

    @staticmethod
    def sublist(got, want):
        """got is want with some elements left out (order kept, nothing more often than it is in want)"""
        p = 0
        for x in got:
            while p < len(want) and want[p] != x: p += 1
            if p == len(want): return False
            p += 1
        return True

    @staticmethod
    def lost_in(o):
        """connections for which operation `o` shows the task an EOF or an error condition"""
        if o["op"] == "lose": return [o["c"]]
        if o["op"] == "round": return list(o.get("e", [])) + [it["c"] for it in o.get("r", []) if it != "new" and not it.get("msgs")]
        return []

    def finding_key(self, case, obs, failure):
        key = failure.split(" ")[0]
        # C09-7: a ConnectionHandshakeComplete listener drops the connection -> ConnectionDown first, then ConnectionUp for the dead connection
        if key in ("down:without-up", "up:after-down") and any(ev == "ConnectionHandshakeComplete" for _, ev, _ in case.get("re") or []) and \
           any(e[0] == "hact" and e[2] == "ConnectionHandshakeComplete" for st in obs.get("steps", []) for e in st):
            return self.HSC_KEY
        return key

    def nontrivial(self, case, obs):
        return any(e[0] == "in" for st in obs.get("steps", []) for e in st)

    def shrink_candidates(self, case):
        ops = case["ops"]
        for key in ("listeners", "mute", "halt", "re"):
            if case.get(key):
                c = dict(case); c.pop(key); yield c
        for j in range(len(case.get("re") or []) if len(case.get("re") or []) > 1 else 0):
            c = dict(case); c["re"] = case["re"][:j] + case["re"][j + 1:]; yield c
        for i, o in enumerate(ops):
            if o.get("seg"):
                o2 = dict(o); o2.pop("seg"); c = dict(case); c["ops"] = ops[:i] + [o2] + ops[i + 1:]; yield c
                if isinstance(o["seg"], list) and len(o["seg"]) > 1:
                    for j in range(len(o["seg"])):
                        o2 = dict(o); o2["seg"] = o["seg"][:j] + o["seg"][j + 1:]; c = dict(case); c["ops"] = ops[:i] + [o2] + ops[i + 1:]; yield c
        for lv, tab in sorted((case.get("beh") or {}).items()):
            for k in sorted(tab):
                b = {l: {n: x for n, x in t.items() if (l, n) != (lv, k)} for l, t in case["beh"].items()}
                c = dict(case); c["beh"] = {l: t for l, t in b.items() if t}; yield c
        for i in range(len(ops)):
            c = dict(case); c["ops"] = ops[:i] + ops[i + 1:]; yield c
        for i, o in enumerate(ops):
            if o["op"] == "recv" and len(o["msgs"]) > 1:
                for j in range(len(o["msgs"])):
                    o2 = dict(o); o2["msgs"] = o["msgs"][:j] + o["msgs"][j + 1:]; o2.pop("seg", None)
                    c = dict(case); c["ops"] = ops[:i] + [o2] + ops[i + 1:]; yield c

CHECK = C09
