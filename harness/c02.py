"""C02 — message framing is independent of stream segmentation (DESIGN §5 C02)."""
import common, poxenv, ofgen
from common import Check

class ScriptSock:
    def __init__(self): self.chunks = []; self.sent = b""
    def recv(self, n, flags=0):
        assert self.chunks, "recv with nothing scripted"
        c = self.chunks.pop(0)
        assert len(c) <= n
        return c
    def send(self, d): self.sent += d; return len(d)
    def shutdown(self, *a): pass
    def close(self): pass
    def fileno(self): return -1
    def getpeername(self): return ("peer", 6633)

CAP = {"ctl": 2048, "sw": 8192}          # Connection.read recv(2048); RecocoIOLoop._BUF_SIZE = 8192

def segment(stream, cuts, cap=2048):
    cuts = sorted(set(c for c in cuts if 0 < c < len(stream)))
    out, prev = [], 0
    for c in cuts + [len(stream)]:
        piece = stream[prev:c]; prev = c
        while len(piece) > cap:                  # a read never returns more than the size asked for
            out.append(piece[:cap]); piece = piece[cap:]
        if piece: out.append(piece)
    return out

class C02(Check):
    id = "C02"
    prop_module = "PoxModel.Properties.C02"
    lean_targets = ["drv_c02"]
    driver = "drv_c02"
    theorems = ["Pox.C02.ctl_framing", "Pox.C02.ctl_prefix", "Pox.C02.sw_framing", "Pox.C02.sw_prefix", "Pox.C02.slice_framing", "Pox.C02.ctl_feed_no_disconnect"]
    anchors = [("pox/openflow/of_01.py", "Connection.read"), ("pox/datapaths/switch.py", "OFConnection.read"),
               ("pox/lib/ioworker/__init__.py", "IOWorker._do_recv"), ("pox/lib/ioworker/__init__.py", "IOWorker._push_receive_data"),
               ("pox/lib/ioworker/__init__.py", "IOWorker.peek"), ("pox/lib/ioworker/__init__.py", "IOWorker.consume_receive_buf")]
    trusted_base = ["model Model/Framing.lean hand-written from of_01.Connection.read and OFConnection.read; tied by this correspondence run",
                    "decoder abstracted as U (consumes exactly a well-formed message: that is C01); the driver instantiates U with the length-driven slice decoder (theorem slice_framing)"]
    assumptions = ["message handlers do not disconnect the connection in the middle of a read (then Connection.read stops dispatching: that path is C09's)", "chunks are never empty (an empty recv is end-of-stream in the real code)", "recv never returns more than the 2048 bytes asked for"]
    design_ref = "DESIGN.md §5 C02"
    technique = "Lean 4 proof (induction over the chunk list with a message-boundary invariant) + differential correspondence of the model driver against Connection.read / OFConnection.read"
    level_text = ("Theorems ctl_framing/ctl_prefix/sw_framing/sw_prefix: for every decoder that consumes exactly a well-formed message, every message list and "
                  "every segmentation (unbounded), both read loops deliver exactly the messages in order, once each, holding an incomplete tail. The model is hand-written; "
                  "each run re-checks it against the real read loops on exhaustive 1-cuts/2-cuts and random segmentations of streams of all 22 message types.")
    level_note = ("Trusted: Lean kernel, axioms propext/Classical.choice/Quot.sound, the hand-written model Model/Framing.lean and the harness (scripted socket, slice recorder). "
                  "Decoders are abstracted (their own correctness is C01). Python-level atomicity/GIL not involved (single-threaded).")
    rule = ("case = (side, 1..30 valid messages of the 22 types from the library's own classes, cut positions); corpus = every 1-cut of two fixed streams, "
            "2-cuts near header boundaries, 1-byte dribble, cuts at 2047/2048/2049, bursts of 65..700 messages in one read; non-trivial = at least one cut falls strictly inside a message")

    def setup(self):
        poxenv.boot()
        import pox.openflow.of_01 as of_01, pox.openflow.libopenflow_01 as of
        from pox.datapaths.switch import OFConnection
        from pox.lib.ioworker import IOWorker
        import pox.lib.ioworker as iow
        self.of_01, self.of, self.OFConnection, self.IOWorker, self.iow = of_01, of, OFConnection, IOWorker, iow

    # -- generators
    def _stream(self, rng, n, small=True):
        msgs = []
        while len(msgs) < n:
            spec = ofgen.message(rng, small=small)
            try:
                b = ofgen.build(spec).pack()
            except Exception:
                continue                       # codec defects are C01's business
            msgs.append(b.hex())
        return msgs

    def corpus(self):
        import random
        rng = random.Random(2)
        cases = []
        for side in ("ctl", "sw"):
            msgs = self._stream(rng, 4)
            L = sum(len(m) // 2 for m in msgs)
            for c in range(1, L):                                   # every 1-cut
                cases.append({"side": side, "msgs": msgs, "cuts": [c]})
            cases.append({"side": side, "msgs": msgs, "cuts": list(range(1, L))})   # 1-byte dribble
            cases.append({"side": side, "msgs": msgs, "cuts": []})
            msgs = self._stream(rng, 3)
            L = sum(len(m) // 2 for m in msgs)
            bounds = []; p = 0
            for m in msgs:
                bounds += [p + d for d in (0, 1, 2, 3, 4, 7, 8, 9)]; p += len(m) // 2
            bounds = sorted(set(b for b in bounds if 0 < b < L))
            for i, a in enumerate(bounds):                          # all 2-cuts around header boundaries
                for b in bounds[i + 1:]:
                    cases.append({"side": side, "msgs": msgs, "cuts": [a, b]})
            big = self._stream(rng, 12, small=False)
            for c in (2047, 2048, 2049, 4096):
                cases.append({"side": side, "msgs": big, "cuts": [c]})
            # a message close to the 64 KiB limit followed by small ones, read at the full read size and at odd sizes
            huge = [self.of.ofp_packet_in(xid=5, in_port=1, data=bytes((i * 11) & 0xff for i in range(64000))).pack().hex(),
                    self.of.ofp_echo_request(xid=6, body=b"abc").pack().hex(), self.of.ofp_barrier_reply(xid=7).pack().hex(),
                    self.of.ofp_echo_request(xid=8, body=bytes(65535 - 8)).pack().hex(), self.of.ofp_hello(xid=9).pack().hex()]
            for cuts in ([], [500], [1000], [1536], [63000], [64017], [64018, 64019]):
                cases.append({"side": side, "msgs": huge, "cuts": cuts})
            # reads that fill the read buffer exactly (2048 / 8192) and then silence
            fill = [self.of.ofp_echo_request(xid=i, body=bytes([i & 0xff] * 120)).pack().hex() for i in range(128)]   # 128 x 128 = 16384 bytes
            for cuts in ([], [8192], [2048, 4096], [8191], [8193]):
                cases.append({"side": side, "msgs": fill, "cuts": cuts})
            # two connections of the same kind served side by side, each with its own stream cut inside headers and bodies
            for k in range(6):
                a, b = self._stream(rng, 3), self._stream(rng, 4)
                La, Lb = sum(len(m) // 2 for m in a), sum(len(m) // 2 for m in b)
                cases.append({"side": side, "msgs": a, "cuts": sorted(set([3, 9, La // 2, La - 1]) & set(range(1, La))),
                              "other": {"msgs": b, "cuts": sorted(set([1, 8, 11, Lb // 3, Lb - 2]) & set(range(1, Lb)))}})
            # the handler table is switched by the k-th message: whole stream in one read, one message per read, cuts inside the
            # switching message and just behind it
            for k in range(6):
                a = self._stream(rng, 5)
                La = sum(len(m) // 2 for m in a)
                e = [sum(len(m) // 2 for m in a[:j + 1]) for j in range(len(a))]
                for sw in (0, 1, 3, 4):
                    for cuts in ([], e[:-1], [e[sw] - 1], [c for c in (e[sw] + 1, e[sw] + 8) if c < La], [e[0] // 2, La - 1]):
                        cases.append({"side": side, "msgs": a, "cuts": sorted(set(c for c in cuts if 0 < c < La)), "swap": sw})
            # many complete messages inside ONE read (a burst): 70, 130, 300 and 700 short messages without any cut,
            # and the same bursts followed by a straggler
            tiny = [self.of.ofp_echo_request(xid=i, body=bytes([i & 0xff] * (i % 3))).pack().hex() for i in range(700)]
            for n in (65, 70, 130, 300, 700):
                cases.append({"side": side, "msgs": tiny[:n], "cuts": []})
                L = sum(len(m) // 2 for m in tiny[:n])
                cases.append({"side": side, "msgs": tiny[:n], "cuts": [L - 3]})
        return cases

    def generate(self, rng, tier):
        n = 150 if tier == "quick" else 3000
        for _ in range(n):
            msgs = self._stream(rng, rng.choice([1, 2, 3, 5, rng.randint(1, 30), rng.randint(60, 200)]), small=rng.random() < 0.7)
            L = sum(len(m) // 2 for m in msgs)
            k = rng.choice([1, 2, 3, rng.randint(0, 12), rng.randint(0, 40)])
            cuts = sorted(rng.randint(1, max(1, L - 1)) for _ in range(k))
            if rng.random() < 0.1: cuts = list(range(1, min(L, 400)))
            case = {"side": rng.choice(["ctl", "sw"]), "msgs": msgs, "cuts": cuts}
            if rng.random() < 0.25:
                m2 = self._stream(rng, rng.choice([1, 2, 5, rng.randint(1, 20)])); L2 = sum(len(m) // 2 for m in m2)
                case["other"] = {"msgs": m2, "cuts": sorted(rng.randint(1, max(1, L2 - 1)) for _ in range(rng.randint(0, 8)))}
            if rng.random() < 0.3: case["swap"] = rng.randint(0, len(msgs) - 1)
            yield case
        if tier == "thorough":                                      # every 2-cut of short streams
            for _ in range(6):
                msgs = self._stream(rng, 3)
                L = sum(len(m) // 2 for m in msgs)
                if L > 90: continue
                for a in range(1, L):
                    for b in range(a + 1, L):
                        yield {"side": rng.choice(["ctl", "sw"]), "msgs": msgs, "cuts": [a, b]}

    # -- implementation
    def impl(self, case):
        stream = b"".join(bytes.fromhex(m) for m in case["msgs"])
        chunks = segment(stream, case["cuts"], CAP[case["side"]])
        delivered, counts, last, tables = [], [], [None], []
        def wrap(u):
            if u is None: return None
            def w(raw, offset=0):
                r = u(raw, offset)
                last[0] = bytes(raw[offset:r[0]])
                return r
            return w
        status = "alive"
        # a companion connection of the same kind, served in the same process (and, switch side, by the same loop), fed its
        # own stream chunk by chunk in between: the two must not share any state
        oth = case.get("other")
        ochunks = segment(b"".join(bytes.fromhex(m) for m in oth["msgs"]), oth["cuts"], CAP[case["side"]]) if oth else []
        odelivered, ostatus = [], "alive"
        if case["side"] == "ctl":
            sock = ScriptSock()
            con = self.of_01.Connection(sock)
            con.unpackers = [wrap(u) for u in con.unpackers]
            # "swap": the handler of the k-th message REBINDS the connection's handler table (as the end of the handshake does,
            # of_01._finish_connecting: con.handlers = ...) — every later message, in the same read too, belongs to the new table
            swap = case.get("swap")
            def h_new(c, m): delivered.append(last[0].hex()); tables.append(1)
            def h_old(c, m):
                delivered.append(last[0].hex()); tables.append(0)
                if swap is not None and len(delivered) == swap + 1: c.handlers = [h_new] * 256
            con.handlers = [h_old] * 256
            if oth:
                osock = ScriptSock(); ocon = self.of_01.Connection(osock)
                ocon.handlers = [(lambda c, m: odelivered.append(bytes(m.pack()).hex()))] * 256
            for i, ch in enumerate(chunks):
                sock.chunks.append(ch)
                try:
                    r = con.read()
                except Exception as e:
                    status = "dead:" + type(e).__name__; break
                if r is False: status = "closed"; break
                counts.append(len(delivered))
                if oth and i < len(ochunks) and ostatus == "alive":
                    osock.chunks.append(ochunks[i])
                    try:
                        if ocon.read() is False: ostatus = "closed"
                    except Exception as e:
                        ostatus = "dead:" + type(e).__name__
            if oth and ostatus == "alive":
                for ch in ochunks[len(chunks):]:
                    osock.chunks.append(ch)
                    try:
                        if ocon.read() is False: ostatus = "closed"; break
                    except Exception as e:
                        ostatus = "dead:" + type(e).__name__; break
            buf = bytes(con.buf).hex()
        else:
            # the real RecocoIOLoop generator serves the worker: every chunk is one socket read in IOWorker._do_recv
            loop = self.iow.RecocoIOLoop()
            sock = ScriptSock()
            w = loop.new_worker(sock)
            ofc = self.OFConnection(w)
            ofc.unpackers = [wrap(u) for u in ofc.unpackers]
            swap = case.get("swap")
            def h_new(c, m): delivered.append(last[0].hex()); tables.append(1)
            def h_old(c, m):
                delivered.append(last[0].hex()); tables.append(0)
                if swap is not None and len(delivered) == swap + 1: c.set_message_handler(h_new)
            ofc.set_message_handler(h_old)
            if oth:
                osock = ScriptSock(); ow = loop.new_worker(osock); oofc = self.OFConnection(ow)
                oofc.set_message_handler(lambda c, m: odelivered.append(bytes(m.pack()).hex()))
            g = loop.run(); next(g)
            def ofeed(ch):
                osock.chunks.append(ch)
                try: g.send(([ow], [], []))
                except StopIteration: return "dead:loop"
                return "closed" if (ow.closed or ow._shutdown_send) else "alive"
            for i, ch in enumerate(chunks):
                sock.chunks.append(ch)
                try:
                    g.send(([w], [], []))
                except StopIteration:
                    status = "dead:loop"; break
                if w.closed or w._shutdown_send: status = "closed"; break
                counts.append(len(delivered))
                if oth and i < len(ochunks) and ostatus == "alive": ostatus = ofeed(ochunks[i])
            if oth and status != "dead:loop":
                for ch in ochunks[len(chunks):]:
                    if ostatus != "alive": break
                    ostatus = ofeed(ch)
            buf = bytes(w.receive_buf).hex()
        return {"delivered": delivered, "counts": counts, "buf": buf, "status": status, "chunks": [c.hex() for c in chunks],
                "other_delivered": odelivered, "other_status": ostatus, "tables": tables}

    def model_request(self, case):
        stream = b"".join(bytes.fromhex(m) for m in case["msgs"])
        return {"side": case["side"], "chunks": [c.hex() for c in segment(stream, case["cuts"], CAP[case["side"]])]}

    def impl_view(self, case, obs):
        return {k: obs[k] for k in ("delivered", "counts", "buf", "status")}

    def model_obs(self, case, resp):
        return {k: resp.get(k) for k in ("delivered", "counts", "buf", "status")} if "error" not in resp else resp

    # -- the property itself, on the implementation's observables
    def oracle(self, case, obs):
        msgs = case["msgs"]
        if obs["status"] != "alive": return "connection %s on a well-formed stream" % obs["status"]
        if case.get("other"):
            if obs["other_status"] != "alive": return "companion connection %s on a well-formed stream" % obs["other_status"]
            if obs["other_delivered"] != case["other"]["msgs"]:
                return "companion connection delivered %d messages, sent %d (state shared between connections?)" % (len(obs["other_delivered"]), len(case["other"]["msgs"]))
        if obs["delivered"] != msgs:
            return "delivered %d messages, sent %d (lost/duplicated/merged/reordered)" % (len(obs["delivered"]), len(msgs))
        if case.get("swap") is not None:
            want_t = [0 if i <= case["swap"] else 1 for i in range(len(msgs))]
            if obs["tables"] != want_t:
                bad = [i for i, (a, b) in enumerate(zip(obs["tables"], want_t)) if a != b]
                return "message %d after a handler switch was given to the old handler table" % (bad[0] - case["swap"])
        ends, p = [], 0
        for m in msgs:
            p += len(m) // 2; ends.append(p)
        got = 0
        for ch, cnt in zip(obs["chunks"], obs["counts"]):
            got += len(ch) // 2
            want = sum(1 for e in ends if e <= got)
            if cnt != want: return "after %d bytes %d messages delivered, %d complete" % (got, cnt, want)
        if obs["buf"] != "": return "residual bytes in buffer after the whole stream"
        return None

    def finding_key(self, case, obs, failure):
        return "%s:%s" % (case["side"], failure.split(",")[0][:40])

    def nontrivial(self, case, obs):
        p, inner = 0, set()
        for m in case["msgs"]:
            inner.update(range(p + 1, p + len(m) // 2)); p += len(m) // 2
        return any(c in inner for c in case["cuts"])

    def shrink_candidates(self, case):
        for i in range(len(case["msgs"])):
            if len(case["msgs"]) > 1:
                c = dict(case); c["msgs"] = case["msgs"][:i] + case["msgs"][i + 1:]; yield c
        for i in range(len(case["cuts"])):
            c = dict(case); c["cuts"] = case["cuts"][:i] + case["cuts"][i + 1:]; yield c

CHECK = C02
