"""C02 — message framing is independent of stream segmentation (DESIGN §5 C02)."""
import errno, os, socket
import common, poxenv, ofgen
from common import Check

class ScriptSock:
    def __init__(self): self.chunks = []; self.sent = b""
    def recv(self, n, flags=0):
        if not self.chunks:                   # a non-blocking socket with nothing queued: EAGAIN, however often it is asked
            raise BlockingIOError(errno.EAGAIN, os.strerror(errno.EAGAIN))
        c = self.chunks.pop(0)
        assert len(c) <= n
        return c
    def send(self, d): self.sent += d; return len(d)
    def shutdown(self, *a): pass
    def close(self): pass
    def fileno(self): return -1
    def getpeername(self): return ("peer", 6633)

class _BadStr(Exception):
    def __str__(self): raise RuntimeError("str() of this exception fails")

# spellings of "the message handler raised" (all of them Exception subclasses: both read loops promise to survive those)
EXC = {
    "ValueError": lambda: ValueError("application bug"),
    "RuntimeError": lambda: RuntimeError("No handler for ofp_type %s(%d)"),
    "KeyError": lambda: KeyError(0),
    "IndexError": lambda: IndexError("list index out of range"),
    "AssertionError": lambda: AssertionError(),
    "AttributeError": lambda: AttributeError("'NoneType' object has no attribute 'xid'"),
    "OSError": lambda: OSError(errno.EAGAIN, "Resource temporarily unavailable"),
    "ConnectionResetError": lambda: ConnectionResetError(errno.ECONNRESET, "Connection reset by peer"),
    "StopIteration": lambda: StopIteration(),
    "UnicodeDecodeError": lambda: UnicodeDecodeError("utf-8", b"\xff", 0, 1, "invalid start byte"),
    "Empty": lambda: Exception(),
    "BadStr": lambda: _BadStr("{} %s \u00e9\n2nd line"),
}
# spellings of "the stream ended with an error" (what recv() raises from then on)
END_ERR = {
    "ECONNRESET": lambda: OSError(errno.ECONNRESET, os.strerror(errno.ECONNRESET)),
    "ETIMEDOUT": lambda: OSError(errno.ETIMEDOUT, os.strerror(errno.ETIMEDOUT)),
    "ECONNABORTED": lambda: OSError(errno.ECONNABORTED, os.strerror(errno.ECONNABORTED)),
    "EPIPE": lambda: OSError(errno.EPIPE, os.strerror(errno.EPIPE)),
    "EHOSTUNREACH": lambda: OSError(errno.EHOSTUNREACH, os.strerror(errno.EHOSTUNREACH)),
    "EBADF": lambda: OSError(errno.EBADF, os.strerror(errno.EBADF)),
    "timeout": lambda: socket.timeout("timed out"),
}

class StreamSock:
    """A non-blocking stream socket as the code under test sees it, driven by a script of events:
         ["data", bytes]  bytes that one recv() hands out (the rest stays queued when fewer are asked for)
         ["gap"]          nothing more has arrived yet: recv() raises EAGAIN until the I/O loop has gone back to select
         ["eof"]          the peer has shut down: recv() returns b'' from now on
         ["err", name]    recv() raises END_ERR[name] from now on
       An exhausted script is a gap that never ends.  The contract holds for ANY number of recv() calls per read():
       what comes after the queued data (EAGAIN, end of stream, error) is what the NEXT call gets."""
    def __init__(self, script):
        self.script = [list(e) for e in script]; self.sent = b""; self.handed = bytearray(); self.end_seen = False
    def readable(self):                       # select is level-triggered: queued data, EOF and errors all report readable
        return bool(self.script) and self.script[0][0] != "gap"
    def pass_time(self):                      # the I/O loop went back to select and the next bytes arrived
        if self.script and self.script[0][0] == "gap":
            self.script.pop(0); return True
        return False
    def recv(self, n, flags=0):
        if not self.script or self.script[0][0] == "gap":
            raise BlockingIOError(errno.EAGAIN, os.strerror(errno.EAGAIN))
        ev = self.script[0]
        if ev[0] == "eof": self.end_seen = True; return b""
        if ev[0] == "err": self.end_seen = True; raise END_ERR[ev[1]]()
        out = ev[1][:n]
        if not (flags & getattr(socket, "MSG_PEEK", 2)):
            if len(ev[1]) > n: ev[1] = ev[1][n:]
            else: self.script.pop(0)
            self.handed += out
        return out
    def send(self, d, flags=0): self.sent += d; return len(d)
    def shutdown(self, *a): pass
    def close(self): pass
    def fileno(self): return -1
    def getpeername(self): return ("peer", 6633)
    def setblocking(self, *a): pass

def script_of(spec, cap):
    """(script, stream) of one connection: spec["cuts"] and io["gaps"] cut the stream into recv() results; a gap (a trip
    through select) follows a chunk iff io["gaps"] is "all" or names the position; io["end"] queues the end of the stream
    right behind the last bytes (or behind a last gap when io["end_gap"])"""
    io = spec.get("io") or {}
    stream = b"".join(bytes.fromhex(m) for m in spec["msgs"])
    if io.get("trunc"): stream = stream[:max(0, len(stream) - io["trunc"])]
    gaps = io.get("gaps", "all")
    chunks = segment(stream, list(spec["cuts"]) + (list(gaps) if gaps != "all" else []), cap)
    script, pos = [], 0
    for ch in chunks:
        script.append(["data", ch]); pos += len(ch)
        if pos < len(stream) and (gaps == "all" or pos in gaps): script.append(["gap"])
    if io.get("end"):
        if io.get("end_gap"): script.append(["gap"])
        script.append(["eof"] if io["end"] == "eof" else ["err", io["end"]])
    return script, stream

_TABLES = _NX = None                     # unpacker tables per configuration (filled once per process by C02._configs)
CFGS = ("default", "nicira")
CAP = {"ctl": 2048, "sw": 8192}          # Connection.read recv(2048); RecocoIOLoop._BUF_SIZE = 8192

def segment(stream, cuts, cap=2048):
    cuts = sorted(set(c for c in cuts if 0 < c < len(stream)))
    out, prev = [], 0
    for c in cuts + [len(stream)]:
        piece = stream[prev:c]; prev = c
        while len(piece) > cap:                  # a read never returns more than the size asked for
            out.append(piece[:cap]); piece = piece[cap:]
        if piece: out.append(piece)
    return out

class C02(Check):
    id = "C02"
    prop_module = "PoxModel.Properties.C02"
    lean_targets = ["drv_c02"]
    driver = "drv_c02"
    theorems = ["Pox.C02.ctl_framing", "Pox.C02.ctl_prefix", "Pox.C02.sw_framing", "Pox.C02.sw_prefix", "Pox.C02.ctl_segmentation_independent", "Pox.C02.sw_segmentation_independent", "Pox.C02.slice_framing", "Pox.C02.ctl_feed_no_disconnect",
                "Pox.C02.ctl_handler_outcome", "Pox.C02.sw_handler_outcome", "Pox.C02.ctl_framing_handlers", "Pox.C02.sw_framing_handlers",
                "Pox.C02.ctl_eof", "Pox.C02.sw_eof", "Pox.C02.ctl_framing_nicira", "Pox.C02.ctl_prefix_nicira", "Pox.C02.ctl_segmentation_independent_nicira", "Pox.C02.nx_eager_lookahead_breaks"]
    anchors = [("pox/openflow/of_01.py", "Connection.read"), ("pox/datapaths/switch.py", "OFConnection.read"),
               ("pox/lib/ioworker/__init__.py", "IOWorker._do_recv"), ("pox/lib/ioworker/__init__.py", "IOWorker._push_receive_data"),
               ("pox/lib/ioworker/__init__.py", "IOWorker.peek"), ("pox/lib/ioworker/__init__.py", "IOWorker.consume_receive_buf")]
    trusted_base = ["model Model/Framing.lean + Model/FramingIO.lean (handler outcome, end of stream, replaced table entry nxVendor from nicira._unpack_nx_vendor) hand-written from of_01.Connection.read, OFConnection.read and IOWorker._do_recv; tied by this correspondence run",
                    "decoder abstracted as U (consumes exactly a well-formed message: that is C01); the driver instantiates U with the length-driven slice decoder (theorem slice_framing)"]
    assumptions = ["message handlers do not disconnect the connection in the middle of a read (then Connection.read stops dispatching: that path is C09's)", "a chunk is what recv() handed out during one read(); an empty recv is the end of the stream (connEnd), as is a recv that raises once select reported the socket readable",
                   "recv never returns more than the bytes asked for", "message handlers raise Exception subclasses only (a BaseException such as KeyboardInterrupt is not survived by the switch-side loop)"]
    design_ref = "DESIGN.md §5 C02"
    technique = "Lean 4 proof (induction over the chunk list with a message-boundary invariant) + differential correspondence of the model driver against Connection.read / OFConnection.read"
    level_text = ("Theorems ctl_framing/ctl_prefix/sw_framing/sw_prefix: for every decoder that consumes exactly a well-formed message, every message list and "
                  "every segmentation (unbounded), both read loops deliver exactly the messages in order, once each, holding an incomplete tail. The model is hand-written; "
                  "each run re-checks it against the real read loops on exhaustive 1-cuts/2-cuts and random segmentations of streams of all 22 message types. "
                  "ctl_handler_outcome/sw_handler_outcome/*_framing_handlers: the same for every outcome (returned/raised) of every message handler; ctl_eof/sw_eof: when the stream "
                  "ends, exactly the complete messages among the bytes read so far have been delivered. ctl_framing_nicira/ctl_prefix_nicira: the same with the OFPT_VENDOR entry "
                  "of the controller's table replaced by the Nicira one (model nxVendor: vendor id first, subtype only for a Nicira message); nx_eager_lookahead_breaks: the entry "
                  "that reads both at once makes framing depend on the segmentation.")
    level_note = ("Trusted: Lean kernel, axioms propext/Classical.choice/Quot.sound, the hand-written model Model/Framing.lean and the harness (scripted socket, slice recorder). "
                  "Decoders are abstracted (their own correctness is C01). Python-level atomicity/GIL not involved (single-threaded).")
    rule = ("case = (side, 1..30 valid messages of the 22 types from the library's own classes, cut positions); corpus = every 1-cut of two fixed streams, "
            "2-cuts near header boundaries, 1-byte dribble, cuts at 2047/2048/2049, bursts of 65..700 messages in one read; "
            "the handler of every single message / of several messages raising (12 spellings), a real SoftwareSwitch as the switch-side consumer; "
            "stream sockets that end (EOF and 7 error spellings) right behind the last bytes or a select round later, at every byte position of a short stream, "
            "with 1..120 recv() results queued at once, next to a companion connection that goes on; "
            "case parameter cfg = the configuration that decides the decode path (default / openflow.nicira launched: the tables of unpackers are taken from fresh "
            "connections of either side before and after the launch; NXSoftwareSwitch as a switch-side consumer); every message type at its minimal legal length "
            "(8-byte header-only messages, 12..16-byte vendor messages of other vendors and of Nicira, empty lists, the Nicira extension's own messages) first, in the "
            "middle and last in a stream, the read ending 0..3 bytes behind it / one byte short of it / with nothing behind it; non-trivial = at least one cut falls strictly inside a message")

    def setup(self):
        poxenv.boot()
        import pox.openflow.of_01 as of_01, pox.openflow.libopenflow_01 as of
        from pox.datapaths.switch import OFConnection, SoftwareSwitch
        self.SoftwareSwitch = SoftwareSwitch
        from pox.lib.ioworker import IOWorker
        import pox.lib.ioworker as iow
        self.of_01, self.of, self.OFConnection, self.IOWorker, self.iow = of_01, of, OFConnection, IOWorker, iow
        self._configs()

    # -- supported non-default configurations that change the decode path: a component may replace entries of the table of
    #    unpackers a connection uses (openflow.nicira does, for OFPT_VENDOR, on the controller side) or register message
    #    classes the switch-side table is built from.  The tables are taken from FRESH connection objects of either side
    #    before and after the component is launched (never from the component's private names); a case names its
    #    configuration in case["cfg"], every connection of the case gets that configuration's table.
    def _configs(self):
        global _TABLES, _NX
        if _TABLES is None:
            def snap():
                c = self.of_01.Connection(ScriptSock())
                w = self.iow.RecocoIOLoop().new_worker(ScriptSock())
                return {"ctl": list(c.unpackers), "sw": list(self.OFConnection(w).unpackers)}
            t = {"default": snap()}
            import pox.openflow.nicira as nx, pox.core, contextlib, io
            if not pox.core.core.hasComponent("NX"):
                with contextlib.redirect_stdout(io.StringIO()): nx.launch()
            t["nicira"] = snap()
            _TABLES, _NX = t, nx
        self.tables, self.nx = _TABLES, _NX
        from pox.datapaths.nx_switch import NXSoftwareSwitch
        self.NXSoftwareSwitch = NXSoftwareSwitch

    def _table(self, case, side):
        return self.tables[case.get("cfg") or "default"][side]

    # -- generators
    def _stream(self, rng, n, small=True):
        msgs = []
        while len(msgs) < n:
            spec = ofgen.message(rng, small=small)
            if spec["cls"] == "ofp_vendor_generic" and spec["kw"]["vendor"] == self.nx.NX_VENDOR_ID: continue   # random bytes under the Nicira id are not a Nicira message
            try:
                b = ofgen.build(spec).pack()
            except Exception:
                continue                       # codec defects are C01's business
            msgs.append(b.hex())
        return msgs

    def corpus(self):
        import random
        rng = random.Random(2)
        cases = []
        for side in ("ctl", "sw"):
            msgs = self._stream(rng, 4)
            L = sum(len(m) // 2 for m in msgs)
            for c in range(1, L):                                   # every 1-cut
                cases.append({"side": side, "msgs": msgs, "cuts": [c]})
            cases.append({"side": side, "msgs": msgs, "cuts": list(range(1, L))})   # 1-byte dribble
            cases.append({"side": side, "msgs": msgs, "cuts": []})
            msgs = self._stream(rng, 3)
            L = sum(len(m) // 2 for m in msgs)
            bounds = []; p = 0
            for m in msgs:
                bounds += [p + d for d in (0, 1, 2, 3, 4, 7, 8, 9)]; p += len(m) // 2
            bounds = sorted(set(b for b in bounds if 0 < b < L))
            for i, a in enumerate(bounds):                          # all 2-cuts around header boundaries
                for b in bounds[i + 1:]:
                    cases.append({"side": side, "msgs": msgs, "cuts": [a, b]})
            big = self._stream(rng, 12, small=False)
            for c in (2047, 2048, 2049, 4096):
                cases.append({"side": side, "msgs": big, "cuts": [c]})
            # a message close to the 64 KiB limit followed by small ones, read at the full read size and at odd sizes
            huge = [self.of.ofp_packet_in(xid=5, in_port=1, data=bytes((i * 11) & 0xff for i in range(64000))).pack().hex(),
                    self.of.ofp_echo_request(xid=6, body=b"abc").pack().hex(), self.of.ofp_barrier_reply(xid=7).pack().hex(),
                    self.of.ofp_echo_request(xid=8, body=bytes(65535 - 8)).pack().hex(), self.of.ofp_hello(xid=9).pack().hex()]
            for cuts in ([], [500], [1000], [1536], [63000], [64017], [64018, 64019]):
                cases.append({"side": side, "msgs": huge, "cuts": cuts})
            # reads that fill the read buffer exactly (2048 / 8192) and then silence
            fill = [self.of.ofp_echo_request(xid=i, body=bytes([i & 0xff] * 120)).pack().hex() for i in range(128)]   # 128 x 128 = 16384 bytes
            for cuts in ([], [8192], [2048, 4096], [8191], [8193]):
                cases.append({"side": side, "msgs": fill, "cuts": cuts})
            # two connections of the same kind served side by side, each with its own stream cut inside headers and bodies
            for k in range(6):
                a, b = self._stream(rng, 3), self._stream(rng, 4)
                La, Lb = sum(len(m) // 2 for m in a), sum(len(m) // 2 for m in b)
                cases.append({"side": side, "msgs": a, "cuts": sorted(set([3, 9, La // 2, La - 1]) & set(range(1, La))),
                              "other": {"msgs": b, "cuts": sorted(set([1, 8, 11, Lb // 3, Lb - 2]) & set(range(1, Lb)))}})
            # the handler table is switched by the k-th message: whole stream in one read, one message per read, cuts inside the
            # switching message and just behind it
            for k in range(6):
                a = self._stream(rng, 5)
                La = sum(len(m) // 2 for m in a)
                e = [sum(len(m) // 2 for m in a[:j + 1]) for j in range(len(a))]
                for sw in (0, 1, 3, 4):
                    for cuts in ([], e[:-1], [e[sw] - 1], [c for c in (e[sw] + 1, e[sw] + 8) if c < La], [e[0] // 2, La - 1]):
                        cases.append({"side": side, "msgs": a, "cuts": sorted(set(c for c in cuts if 0 < c < La)), "swap": sw})
            # many complete messages inside ONE read (a burst): 70, 130, 300 and 700 short messages without any cut,
            # and the same bursts followed by a straggler
            tiny = [self.of.ofp_echo_request(xid=i, body=bytes([i & 0xff] * (i % 3))).pack().hex() for i in range(700)]
            for n in (65, 70, 130, 300, 700):
                cases.append({"side": side, "msgs": tiny[:n], "cuts": []})
                L = sum(len(m) // 2 for m in tiny[:n])
                cases.append({"side": side, "msgs": tiny[:n], "cuts": [L - 3]})
        cases = cases + self._corpus_handlers() + self._corpus_stream_end()
        # every 4th case of the families above once more under the non-default configuration
        cases += [dict(c, cfg="nicira") for c in cases[::4]]
        return cases + self._corpus_minimal()

    # -- every message type at its MINIMAL legal length (header-only messages, a 12-byte vendor message, empty lists, ...),
    #    the vendor messages around the sizes of the vendor header (12) and of the Nicira header (16), and the Nicira
    #    extension's own messages: a decoder that looks one field too far reads into the neighbour or past the buffer
    def _minimal(self):
        import struct
        of, nx = self.of, self.nx
        NXV = nx.NX_VENDOR_ID
        ms = [of.ofp_hello(), of.ofp_error(type=of.OFPET_BAD_REQUEST, code=of.OFPBRC_BAD_VENDOR), of.ofp_echo_request(), of.ofp_echo_reply(),
              of.ofp_vendor_generic(vendor=0x005c16c7), of.ofp_vendor_generic(vendor=0), of.ofp_vendor_generic(vendor=0xffffffff),
              of.ofp_vendor_generic(vendor=NXV + 1), of.ofp_vendor_generic(vendor=NXV << 16), of.ofp_vendor_generic(vendor=0x20230000),
              of.ofp_vendor_generic(vendor=0x00002321, data=b"\x00"), of.ofp_vendor_generic(vendor=0x0000ace0, data=b"\x00\x00"),
              of.ofp_vendor_generic(vendor=0x00000ace, data=b"\x00\x00\x00"), of.ofp_vendor_generic(vendor=0x005c16c7, data=struct.pack("!L", nx.NXT_ROLE_REPLY)),
              of.ofp_features_request(), of.ofp_features_reply(), of.ofp_get_config_request(), of.ofp_get_config_reply(), of.ofp_set_config(),
              of.ofp_packet_in(), of.ofp_flow_removed(), of.ofp_port_status(), of.ofp_packet_out(), of.ofp_flow_mod(), of.ofp_port_mod(),
              of.ofp_stats_request(type=of.OFPST_DESC), of.ofp_stats_request(type=of.OFPST_TABLE), of.ofp_stats_request(body=of.ofp_flow_stats_request()),
              of.ofp_stats_request(body=of.ofp_aggregate_stats_request()), of.ofp_stats_request(body=of.ofp_port_stats_request()),
              of.ofp_stats_request(body=of.ofp_queue_stats_request()), of.ofp_stats_request(type=of.OFPST_VENDOR, body=struct.pack("!L", 0x005c16c7)),
              of.ofp_stats_reply(type=of.OFPST_FLOW, body=[]), of.ofp_stats_reply(type=of.OFPST_TABLE, body=[]), of.ofp_stats_reply(type=of.OFPST_PORT, body=[]),
              of.ofp_stats_reply(type=of.OFPST_QUEUE, body=[]), of.ofp_stats_reply(body=of.ofp_aggregate_stats()), of.ofp_stats_reply(body=of.ofp_desc_stats()),
              of.ofp_stats_reply(type=of.OFPST_VENDOR, body=struct.pack("!L", NXV)),
              of.ofp_barrier_request(), of.ofp_barrier_reply(), of.ofp_queue_get_config_request(), of.ofp_queue_get_config_reply(),
              # the Nicira extension's messages (each at its minimal length) and a bare Nicira header of a subtype nobody knows
              nx.nx_role_reply(), nx.nx_role_request(), nx.nx_packet_in_format(), nx.nx_flow_mod_table_id(), nx.nx_flow_mod(), nx.nx_async_config(),
              nx.nxt_packet_in(buffer_id=5), nx.nxt_packet_in(buffer_id=0xffffffff, data=b"\x01\x02\x03"),
              of.ofp_vendor_generic(vendor=NXV, data=struct.pack("!L", 0x7f)), of.ofp_vendor_generic(vendor=NXV, data=struct.pack("!LB", nx.NXT_SET_FLOW_FORMAT if hasattr(nx, "NXT_SET_FLOW_FORMAT") else 12, 2))]
        out = []
        for i, m in enumerate(ms):
            m.xid = 0x1000 + i
            out.append(m.pack().hex())
        return out

    def _corpus_minimal(self):
        of = self.of
        cases, mins = [], self._minimal()
        pre = [of.ofp_echo_request(xid=101, body=b"ab").pack().hex()]
        posts = ([of.ofp_barrier_reply(xid=102).pack().hex(), of.ofp_echo_reply(xid=103, body=b"tail!").pack().hex()],
                 [of.ofp_hello(xid=104).pack().hex()])
        P = len(pre[0]) // 2
        def add(side, cfg, msgs, cuts, **kw):
            L = sum(len(m) // 2 for m in msgs)
            c = {"side": side, "msgs": msgs, "cuts": sorted(set(x for x in cuts if 0 < x < L)), "cfg": cfg}; c.update(kw)
            cases.append(c)
        for side in ("ctl", "sw"):
            for cfg in CFGS:
                for k, m in enumerate(mins):
                    n = len(m) // 2; post = posts[k % 2]
                    # first in the stream / in the middle: the read ends 0..3 bytes behind it, one byte short of it, it is alone in a read
                    for d in (0, 1, 2, 3): add(side, cfg, [m] + post, [n + d])
                    add(side, cfg, [m] + post, [])
                    add(side, cfg, [m] + post, [n - 1])
                    for d in (0, 1, 2, 3): add(side, cfg, pre + [m] + post, [P + n + d])
                    add(side, cfg, pre + [m] + post, [P, P + n])
                    add(side, cfg, pre + [m] + post, [P + 3, P + n + 3])
                    add(side, cfg, pre + [m] + post, range(1, P + n + 16))
                    # last in the stream: nothing follows it in the buffer whatever the cuts
                    add(side, cfg, pre + [m], [])
                    add(side, cfg, pre + [m], [P])
                    add(side, cfg, pre + [m], [P + 3])
                    add(side, cfg, [m], [])
                    add(side, cfg, pre + [m], [], io={"gaps": [], "end": "eof"})
                # all of them in one stream, from three starting points
                for r in (0, len(mins) // 3, 2 * len(mins) // 3):
                    msgs = mins[r:] + mins[:r]; e = self._ends(msgs); L = e[-1]
                    for d in (0, 1, 2, 3, 4, 7, 8):
                        add(side, cfg, msgs, [x + d for x in e])
                    add(side, cfg, msgs, [x - 1 for x in e]); add(side, cfg, msgs, [])
                    add(side, cfg, msgs, range(37, L, 37)); add(side, cfg, msgs, range(1, L))
                    add(side, cfg, msgs, e, io={"gaps": []}); add(side, cfg, msgs, [x + 2 for x in e], io={"gaps": [], "end": "eof"})
                    add(side, cfg, msgs, e, io={"gaps": "all", "end": "ECONNRESET", "end_gap": True, "trunc": 3})
                    add(side, cfg, msgs, e, **{"raise": list(range(0, len(msgs), 3)), "exc": "KeyError"})
                    add(side, cfg, msgs, [x + 3 for x in e], swap=4, other={"msgs": self._fixed_stream(), "cuts": [3, 9, 20, 41]})
                    if side == "sw":
                        for consumer in ("switch", "nxswitch"):
                            add(side, cfg, msgs, e, consumer=consumer); add(side, cfg, msgs, [x + 1 for x in e], consumer=consumer)
                            add(side, cfg, msgs, [], consumer=consumer)
        return cases

    @staticmethod
    def _ends(msgs):
        e, p = [], 0
        for m in msgs:
            p += len(m) // 2; e.append(p)
        return e

    def _fixed_stream(self):
        of = self.of
        return [m.pack().hex() for m in (
            of.ofp_hello(xid=1), of.ofp_barrier_reply(xid=2), of.ofp_echo_request(xid=3, body=b"0123456789abcdef"),
            of.ofp_barrier_request(xid=4), of.ofp_features_request(xid=5), of.ofp_error(xid=6, type=of.OFPET_HELLO_FAILED, code=0, data=b"no thanks"),
            of.ofp_echo_reply(xid=7, body=b"tail"), of.ofp_set_config(xid=8, miss_send_len=128), of.ofp_barrier_request(xid=9))]

    def _corpus_handlers(self):
        """the handler of a message RAISES (every position, every spelling, several at once, the real SoftwareSwitch behind
        the switch-side connection): the messages that follow are still delivered, once each, under every segmentation"""
        import random
        rng = random.Random(61)
        cases, names = [], sorted(EXC)
        for side in ("ctl", "sw"):
            for si, msgs in enumerate((self._fixed_stream(), self._stream(rng, 6), self._stream(rng, 5, small=False))):
                e = self._ends(msgs); L = e[-1]
                for i in range(len(msgs)):
                    nxt = e[i]
                    segs = ([], e[:-1], [nxt - 1], [nxt + 1], [nxt + 3, nxt + 9], [e[i - 1] + 2 if i else 2, nxt], list(range(7, L, 7)))
                    if si == 0: segs += (list(range(1, L)), [20])
                    for j, cuts in enumerate(segs):
                        cases.append({"side": side, "msgs": msgs, "cuts": sorted(set(c for c in cuts if 0 < c < L)), "raise": [i],
                                      "exc": names[(i + j + si) % len(names)]})
                for rs in (list(range(len(msgs))), [0, 2, 4], [1, 2], [len(msgs) - 2, len(msgs) - 1]):
                    for cuts in ([], e[:-1], [e[1] + 2], list(range(5, L, 5))):
                        cases.append({"side": side, "msgs": msgs, "cuts": cuts, "raise": rs, "exc": names[(len(rs) + len(cuts)) % len(names)]})
            msgs = self._fixed_stream(); e = self._ends(msgs)
            for n, name in enumerate(names):                                   # every spelling: one read, one message per read, mid-header
                for cuts in ([], e[:-1], [x + 3 for x in e[:-1]]):
                    cases.append({"side": side, "msgs": msgs, "cuts": cuts, "raise": [n % 7, 7], "exc": name})
            for k in range(6):                                                 # the handler that rebinds the table also raises; a companion's handler raises
                a, b = self._stream(rng, 5), self._stream(rng, 4)
                ea, La, Lb = self._ends(a), self._ends(a)[-1], self._ends(b)[-1]
                for cuts in ([], ea[:-1], [ea[k % 4] + 1]):
                    cases.append({"side": side, "msgs": a, "cuts": cuts, "swap": k % 4, "raise": [k % 4], "exc": names[k]})
                    cases.append({"side": side, "msgs": a, "cuts": cuts, "swap": k % 4, "raise": [k % 4 + 1], "exc": names[k + 6]})
                cases.append({"side": side, "msgs": a, "cuts": sorted(set([3, 9, La // 2, La - 1]) & set(range(1, La))), "raise": [k % 5],
                              "other": {"msgs": b, "cuts": sorted(set([1, 8, 11, Lb // 3]) & set(range(1, Lb))), "raise": [0, 2], "io": {"gaps": "all"}},
                              "io": {"gaps": "all"}})
        for k in range(24):                                                    # a real SoftwareSwitch as the consumer, messages of all 22 types
            msgs = self._stream(rng, 8) if k % 3 else self._fixed_stream()
            e = self._ends(msgs); L = e[-1]
            for cuts in ([], e[:-1], [x + 3 for x in e[:-1]], list(range(11, L, 11))):
                cases.append({"side": "sw", "msgs": msgs, "cuts": cuts, "consumer": "switch"})
        return cases

    def _corpus_stream_end(self):
        """stream sockets that END: the peer's FIN / a reset is queued right behind the last bytes, or arrives a select round
        later; the peer hangs up at every byte position of a short stream; several recv() results queued without a trip
        through select in between (the code may take them in one read() or in many)"""
        import random
        rng = random.Random(62)
        cases, errs = [], sorted(END_ERR)
        for side in ("ctl", "sw"):
            cap = CAP[side]
            short = self._fixed_stream()[:5]; es = self._ends(short); Ls = es[-1]
            for trunc in range(0, Ls):                                         # loss at every prefix
                for gaps, cuts in (([], []), ("all", es[:-1]), ([es[1]], [es[0] + 3, es[2]])):
                    for end_gap in (False, True):
                        if end_gap and trunc % 4: continue
                        cases.append({"side": side, "msgs": short, "cuts": [c for c in cuts if c < Ls - trunc],
                                      "io": {"gaps": gaps if gaps == "all" else [g for g in gaps if g < Ls - trunc], "end": "eof" if trunc % 3 else errs[trunc % len(errs)],
                                             "end_gap": end_gap, "trunc": trunc}})
            full = self._fixed_stream(); ef = self._ends(full); Lf = ef[-1]
            for end in ["eof"] + errs:                                          # every spelling of the end
                for gaps, cuts in (([], []), ([], ef[:-1]), ("all", ef[:-1]), ([ef[3]], [x + 5 for x in ef[:-1]]), ([], list(range(1, Lf)))):
                    for end_gap in (False, True):
                        cases.append({"side": side, "msgs": full, "cuts": cuts, "io": {"gaps": gaps, "end": end, "end_gap": end_gap}})
            for k in range(5):                                                  # handlers raise AND the stream ends
                cases.append({"side": side, "msgs": full, "cuts": [ef[k] + 2, ef[k + 2]], "raise": [k, k + 1], "exc": sorted(EXC)[k],
                              "io": {"gaps": [], "end": "eof" if k % 2 else "ECONNRESET", "trunc": k}})
            # messages longer than one recv(), the end queued behind them
            big = [self.of.ofp_hello(xid=1).pack().hex(), self.of.ofp_packet_in(xid=2, in_port=1, data=bytes((i * 7) & 0xff for i in range(cap + 950))).pack().hex(),
                   self.of.ofp_barrier_reply(xid=3).pack().hex(), self.of.ofp_packet_in(xid=4, in_port=2, data=bytes(2 * cap)).pack().hex(),
                   self.of.ofp_echo_request(xid=5, body=b"last").pack().hex()]
            eb = self._ends(big); Lb = eb[-1]
            for end in (None, "eof", "ECONNRESET"):
                for gaps, cuts in (([], []), ("all", []), ([eb[1]], [1000]), ([], eb[:-1]), ([cap], [cap, 2 * cap])):
                    for trunc in (0, 5, 12 + cap):
                        cases.append({"side": side, "msgs": big, "cuts": cuts, "io": {"gaps": gaps, "end": end, "trunc": trunc}})
            # many recv() results queued at once (more than any plausible per-read bound), open and ended
            tiny = [self.of.ofp_echo_request(xid=i, body=bytes([i & 0xff] * (i % 5))).pack().hex() for i in range(120)]
            et = self._ends(tiny); Lt = et[-1]
            for n in (3, 15, 16, 17, 33, 64, 120):
                for end in (None, "eof", "ETIMEDOUT"):
                    cases.append({"side": side, "msgs": tiny[:n], "cuts": et[:n - 1], "io": {"gaps": [], "end": end}})
                    cases.append({"side": side, "msgs": tiny[:n], "cuts": [x + 4 for x in et[:n - 1]], "io": {"gaps": [et[n // 2]], "end": end, "trunc": 2}})
            # two connections in the same select rounds: one ends, the other goes on and must get everything
            for k in range(8):
                a, b = self._stream(rng, 4), self._stream(rng, 5)
                ea, ebb = self._ends(a), self._ends(b)
                cases.append({"side": side, "msgs": a, "cuts": ea[:-1] if k % 2 else [ea[0] + 3], "io": {"gaps": [] if k % 4 < 2 else "all", "end": "eof" if k < 4 else "ECONNRESET", "trunc": k % 3},
                              "other": {"msgs": b, "cuts": [ebb[1], ebb[2] + 2], "io": {"gaps": "all" if k % 2 else [ebb[1]]}}})
                cases.append({"side": side, "msgs": b, "cuts": [ebb[1], ebb[2] + 2], "io": {"gaps": "all" if k % 2 else []},
                              "other": {"msgs": a, "cuts": ea[:-1] if k % 2 else [ea[0] + 3], "io": {"gaps": [], "end": "eof" if k < 4 else "EPIPE", "trunc": k % 3}}})
        return cases

    def generate(self, rng, tier):
        for i, case in enumerate(self._generate(rng, tier)):
            if i % 3 == 2 and "cfg" not in case: case["cfg"] = "nicira"     # (no draw from rng: the streams of a seed stay what they were)
            yield case

    def _generate(self, rng, tier):
        n = 150 if tier == "quick" else 3000
        for _ in range(n):
            msgs = self._stream(rng, rng.choice([1, 2, 3, 5, rng.randint(1, 30), rng.randint(60, 200)]), small=rng.random() < 0.7)
            L = sum(len(m) // 2 for m in msgs)
            k = rng.choice([1, 2, 3, rng.randint(0, 12), rng.randint(0, 40)])
            cuts = sorted(rng.randint(1, max(1, L - 1)) for _ in range(k))
            if rng.random() < 0.1: cuts = list(range(1, min(L, 400)))
            case = {"side": rng.choice(["ctl", "sw"]), "msgs": msgs, "cuts": cuts}
            if rng.random() < 0.25:
                m2 = self._stream(rng, rng.choice([1, 2, 5, rng.randint(1, 20)])); L2 = sum(len(m) // 2 for m in m2)
                case["other"] = {"msgs": m2, "cuts": sorted(rng.randint(1, max(1, L2 - 1)) for _ in range(rng.randint(0, 8)))}
            if rng.random() < 0.3: case["swap"] = rng.randint(0, len(msgs) - 1)
            yield case
        names, errs = sorted(EXC), sorted(END_ERR)
        for _ in range(150 if tier == "quick" else 3000):          # handlers that raise / stream sockets that end
            side = rng.choice(["ctl", "sw"])
            msgs = self._stream(rng, rng.choice([1, 2, 3, 5, 8, rng.randint(1, 30)]), small=rng.random() < 0.8)
            L = sum(len(m) // 2 for m in msgs)
            cuts = sorted(set(rng.randint(1, max(1, L - 1)) for _ in range(rng.choice([0, 1, 2, 3, rng.randint(0, 12), len(msgs)]))))
            if rng.random() < 0.3: cuts = self._ends(msgs)[:-1]
            case = {"side": side, "msgs": msgs, "cuts": cuts}
            def io(L, cuts):
                d = {"gaps": rng.choice(["all", [], sorted(c for c in cuts if rng.random() < 0.5)])}
                if rng.random() < 0.7:
                    d["end"] = rng.choice(["eof", "eof", rng.choice(errs)]); d["end_gap"] = rng.random() < 0.3
                if rng.random() < 0.4: d["trunc"] = rng.randint(0, min(L - 1, 40))
                return d
            kind = rng.random()
            if kind < 0.6: case["io"] = io(L, cuts)
            if kind > 0.4 or rng.random() < 0.3:
                case["raise"] = sorted(set(rng.randint(0, len(msgs) - 1) for _ in range(rng.choice([1, 1, 2, len(msgs)])))); case["exc"] = rng.choice(names)
            if side == "sw" and rng.random() < 0.15: case["consumer"] = "switch"
            if rng.random() < 0.2: case["swap"] = rng.randint(0, len(msgs) - 1)
            if rng.random() < 0.2:
                m2 = self._stream(rng, rng.choice([1, 2, 5, rng.randint(1, 12)])); L2 = sum(len(m) // 2 for m in m2)
                c2 = sorted(set(rng.randint(1, max(1, L2 - 1)) for _ in range(rng.randint(0, 6))))
                case.setdefault("io", {"gaps": "all"})
                case["other"] = {"msgs": m2, "cuts": c2, "io": io(L2, c2)}
                if rng.random() < 0.4: case["other"]["raise"] = [rng.randint(0, len(m2) - 1)]
            yield case
        mins = self._minimal()
        for _ in range(200 if tier == "quick" else 4000):          # minimal-length messages among ordinary ones, reads ending just behind them
            side = rng.choice(["ctl", "sw"])
            k = rng.choice([1, 2, 3, 5, rng.randint(1, 12)])
            msgs = [rng.choice(mins) if rng.random() < 0.6 else self._stream(rng, 1)[0] for _ in range(k)]
            e = self._ends(msgs); L = e[-1]
            cuts = set()
            for x in e:
                r = rng.random()
                if r < 0.5: cuts.add(x + rng.choice([0, 0, 1, 2, 3]))
                elif r < 0.6: cuts.add(x - rng.choice([1, 2, 4, 5]))
            if rng.random() < 0.15: cuts |= set(rng.randint(1, max(1, L - 1)) for _ in range(rng.randint(1, 6)))
            if rng.random() < 0.05: cuts = set(range(1, min(L, 600)))
            cuts = sorted(c for c in cuts if 0 < c < L)
            case = {"side": side, "msgs": msgs, "cuts": cuts, "cfg": rng.choice(CFGS)}
            r = rng.random()
            if r < 0.25:
                case["io"] = {"gaps": rng.choice(["all", [], sorted(c for c in cuts if rng.random() < 0.5)])}
                if rng.random() < 0.5: case["io"]["end"] = rng.choice(["eof", rng.choice(errs)]); case["io"]["end_gap"] = rng.random() < 0.3
                if rng.random() < 0.3: case["io"]["trunc"] = rng.randint(0, min(L - 1, 20))
            if rng.random() < 0.2:
                case["raise"] = sorted(set(rng.randint(0, k - 1) for _ in range(rng.choice([1, 2, k])))); case["exc"] = rng.choice(names)
            if side == "sw" and rng.random() < 0.2: case["consumer"] = rng.choice(["switch", "nxswitch"])
            if rng.random() < 0.15: case["swap"] = rng.randint(0, k - 1)
            if rng.random() < 0.15:
                m2 = [rng.choice(mins) for _ in range(rng.randint(1, 4))]; e2 = self._ends(m2)
                if "io" in case: case["other"] = {"msgs": m2, "cuts": e2[:-1], "io": {"gaps": rng.choice(["all", []])}}
                else: case["other"] = {"msgs": m2, "cuts": [x + rng.randint(0, 3) for x in e2[:-1]]}
            yield case
        if tier == "thorough":                                      # every 2-cut of short streams
            for _ in range(6):
                msgs = self._stream(rng, 3)
                L = sum(len(m) // 2 for m in msgs)
                if L > 90: continue
                for a in range(1, L):
                    for b in range(a + 1, L):
                        yield {"side": rng.choice(["ctl", "sw"]), "msgs": msgs, "cuts": [a, b]}

    # -- implementation
    def impl(self, case):
        import contextlib, io
        with contextlib.redirect_stdout(io.StringIO()):     # the Nicira unpacker print()s for subtypes it has no class for
            return self._impl(case)

    def _impl(self, case):
        stream = b"".join(bytes.fromhex(m) for m in case["msgs"])
        chunks = segment(stream, case["cuts"], CAP[case["side"]])
        if case.get("io") is not None or (case.get("other") or {}).get("io") is not None:
            return self._impl_stream(case)
        delivered, counts, last, tables = [], [], [None], []
        rec = {"delivered": delivered, "raised": []}
        def wrap(u):
            if u is None: return None
            def w(raw, offset=0):
                r = u(raw, offset)
                last[0] = bytes(raw[offset:r[0]])
                return r
            return w
        status = "alive"
        # a companion connection of the same kind, served in the same process (and, switch side, by the same loop), fed its
        # own stream chunk by chunk in between: the two must not share any state
        oth = case.get("other")
        ochunks = segment(b"".join(bytes.fromhex(m) for m in oth["msgs"]), oth["cuts"], CAP[case["side"]]) if oth else []
        odelivered, ostatus = [], "alive"
        if case["side"] == "ctl":
            sock = ScriptSock()
            con = self.of_01.Connection(sock)
            con.unpackers = [wrap(u) for u in self._table(case, "ctl")]
            # "swap": the handler of the k-th message REBINDS the connection's handler table (as the end of the handshake does,
            # of_01._finish_connecting: con.handlers = ...) — every later message, in the same read too, belongs to the new table
            swap = case.get("swap")
            after = self._after(case, rec)
            def h_new(c, m): delivered.append(last[0].hex()); tables.append(1); after(c, m)
            def h_old(c, m):
                delivered.append(last[0].hex()); tables.append(0)
                if swap is not None and len(delivered) == swap + 1: c.handlers = [h_new] * 256
                after(c, m)
            con.handlers = [h_old] * 256
            if oth:
                osock = ScriptSock(); ocon = self.of_01.Connection(osock); ocon.unpackers = list(self._table(case, "ctl"))
                ocon.handlers = [(lambda c, m: odelivered.append(bytes(m.pack()).hex()))] * 256
            for i, ch in enumerate(chunks):
                sock.chunks.append(ch)
                try:
                    r = con.read()
                except Exception as e:
                    status = "dead:" + type(e).__name__; break
                if r is False: status = "closed"; break
                counts.append(len(delivered))
                if oth and i < len(ochunks) and ostatus == "alive":
                    osock.chunks.append(ochunks[i])
                    try:
                        if ocon.read() is False: ostatus = "closed"
                    except Exception as e:
                        ostatus = "dead:" + type(e).__name__
            if oth and ostatus == "alive":
                for ch in ochunks[len(chunks):]:
                    osock.chunks.append(ch)
                    try:
                        if ocon.read() is False: ostatus = "closed"; break
                    except Exception as e:
                        ostatus = "dead:" + type(e).__name__; break
            buf = bytes(con.buf).hex()
        else:
            # the real RecocoIOLoop generator serves the worker: every chunk is one socket read in IOWorker._do_recv
            loop = self.iow.RecocoIOLoop()
            sock = ScriptSock()
            w = loop.new_worker(sock)
            ofc = self.OFConnection(w)
            ofc.unpackers = [wrap(u) for u in self._table(case, "sw")]
            swap = case.get("swap")
            after = self._after(case, rec, self._consumer(case, ofc))
            def h_new(c, m): delivered.append(last[0].hex()); tables.append(1); after(c, m)
            def h_old(c, m):
                delivered.append(last[0].hex()); tables.append(0)
                if swap is not None and len(delivered) == swap + 1: c.set_message_handler(h_new)
                after(c, m)
            ofc.set_message_handler(h_old)
            if oth:
                osock = ScriptSock(); ow = loop.new_worker(osock); oofc = self.OFConnection(ow); oofc.unpackers = list(self._table(case, "sw"))
                oofc.set_message_handler(lambda c, m: odelivered.append(bytes(m.pack()).hex()))
            g = loop.run(); next(g)
            def ofeed(ch):
                osock.chunks.append(ch)
                try: g.send(([ow], [], []))
                except StopIteration: return "dead:loop"
                return "closed" if (ow.closed or ow._shutdown_send) else "alive"
            for i, ch in enumerate(chunks):
                sock.chunks.append(ch)
                try:
                    g.send(([w], [], []))
                except StopIteration:
                    status = "dead:loop"; break
                if w.closed or w._shutdown_send: status = "closed"; break
                counts.append(len(delivered))
                if oth and i < len(ochunks) and ostatus == "alive": ostatus = ofeed(ochunks[i])
            if oth and status != "dead:loop":
                for ch in ochunks[len(chunks):]:
                    if ostatus != "alive": break
                    ostatus = ofeed(ch)
            buf = bytes(w.receive_buf).hex()
        return {"delivered": delivered, "counts": counts, "buf": buf, "status": status, "chunks": [c.hex() for c in chunks],
                "other_delivered": odelivered, "other_status": ostatus, "tables": tables, "raised": rec["raised"]}

    # -- what a handler does after it has recorded its message: raise (case["raise"] = positions in delivery order,
    #    case["exc"] = the spelling), or hand the message to a real SoftwareSwitch (which raises for every type it has no
    #    _rx_ method for, and from inside some of its handlers)
    def _after(self, spec, rec, switch=None):
        rs = set(spec.get("raise") or ()); mk = EXC[spec.get("exc", "ValueError")]
        def after(c, m):
            i = len(rec["delivered"]) - 1
            if i in rs:
                rec["raised"].append(i); raise mk()
            if switch is not None:
                try: switch.rx_message(c, m)
                except Exception:
                    rec["raised"].append(i); raise
        return after

    def _consumer(self, spec, ofc):
        if spec.get("consumer") not in ("switch", "nxswitch"): return None
        if spec["consumer"] == "switch": sw = self.SoftwareSwitch(dpid=7, name="c02", ports=2)
        else: sw = self.NXSoftwareSwitch(dpid=7, name="c02", ports=0)     # (its constructor cannot add ports: it sends before it has a connection list)
        sw.set_connection(ofc)
        return sw

    # -- the same two read paths over a stream socket that can end: several connections served round by round the way
    #    OpenFlow_01_Task.run / RecocoIOLoop.run serve them (read while select reports readable; a connection whose read
    #    returned False / whose worker closed is dropped, the others go on)
    def _impl_stream(self, case):
        side, cap = case["side"], CAP[case["side"]]
        specs = [case] + ([case["other"]] if case.get("other") else [])
        loop = self.iow.RecocoIOLoop() if side == "sw" else None
        conns = []
        for spec in specs:
            script, _ = script_of(spec, cap)
            c = {"spec": spec, "sock": StreamSock(script), "delivered": [], "raised": [], "tables": [], "calls": [], "status": "alive",
                 "live": True, "last": [None], "budget": 2 * len(script) + 8}
            def wrap(u, c=c):
                if u is None: return None
                def w(raw, offset=0):
                    r = u(raw, offset)
                    c["last"][0] = bytes(raw[offset:r[0]])
                    return r
                return w
            swap = spec.get("swap")
            if side == "ctl":
                con = c["obj"] = self.of_01.Connection(c["sock"])
                con.unpackers = [wrap(u) for u in self._table(case, "ctl")]
                after = self._after(spec, c)
                rebind = lambda conn, h: setattr(conn, "handlers", [h] * 256)
            else:
                c["w"] = loop.new_worker(c["sock"])
                con = c["obj"] = self.OFConnection(c["w"])
                con.unpackers = [wrap(u) for u in self._table(case, "sw")]
                after = self._after(spec, c, self._consumer(spec, con))
                rebind = lambda conn, h: conn.set_message_handler(h)
            def h_new(conn, m, c=c, after=after):
                c["delivered"].append(c["last"][0].hex()); c["tables"].append(1); after(conn, m)
            def h_old(conn, m, c=c, after=after, swap=swap, rebind=rebind, h_new=h_new):
                c["delivered"].append(c["last"][0].hex()); c["tables"].append(0)
                if swap is not None and len(c["delivered"]) == swap + 1: rebind(conn, h_new)
                after(conn, m)
            rebind(con, h_old)
            conns.append(c)
        if side == "sw":
            g = loop.run(); next(g)
        for _ in range(sum(c["budget"] for c in conns)):
            ready = [c for c in conns if c["live"] and c["sock"].readable() and c["budget"] > 0]
            if not ready:
                if not any([c["sock"].pass_time() for c in conns if c["live"]]): break
                continue
            before = [len(c["sock"].handed) for c in ready]
            if side == "ctl":
                for c in ready:
                    c["budget"] -= 1
                    try:
                        r = c["obj"].read()
                    except Exception as e:
                        c["status"] = "dead:" + type(e).__name__; c["live"] = False; continue
                    if r is False: c["status"] = "closed"; c["live"] = False
            else:
                for c in ready: c["budget"] -= 1
                try:
                    g.send(([c["w"] for c in ready], [], []))
                except StopIteration:
                    for c in conns:
                        if c["live"]: c["status"] = "dead:loop"; c["live"] = False
                for c in ready:
                    if c["live"] and (c["w"].closed or c["w"]._shutdown_send): c["status"] = "closed"; c["live"] = False
            for c, b in zip(ready, before):
                got = bytes(c["sock"].handed[b:])
                if got: c["calls"].append([got.hex(), len(c["delivered"])])
            for c in conns:                                         # the others waited in select during this round
                if c["live"] and not any(c is r for r in ready): c["sock"].pass_time()
        m, o = conns[0], (conns[1] if len(conns) > 1 else None)
        buf = bytes(m["obj"].buf).hex() if side == "ctl" else bytes(m["w"].receive_buf).hex()
        obs = {"delivered": m["delivered"], "counts": [k for _, k in m["calls"]], "buf": buf, "status": m["status"],
               "chunks": [h for h, _ in m["calls"]], "tables": m["tables"], "raised": m["raised"], "end_seen": m["sock"].end_seen,
               "other_delivered": o["delivered"] if o else [], "other_status": o["status"] if o else "alive"}
        if o: obs.update({"other_chunks": [h for h, _ in o["calls"]], "other_counts": [k for _, k in o["calls"]]})
        return obs

    @staticmethod
    def _is_stream(case):
        return case.get("io") is not None or (case.get("other") or {}).get("io") is not None

    def _raising(self, case, obs=None):
        idx = set(case.get("raise") or ()) | set((obs or {}).get("raised") or ())
        return sorted(set(case["msgs"][i] for i in idx if 0 <= i < len(case["msgs"])))

    def model_request(self, case):
        if self._is_stream(case): return None          # the model is fed what recv() handed out per read(): model_request2
        stream = b"".join(bytes.fromhex(m) for m in case["msgs"])
        return {"side": case["side"], "chunks": [c.hex() for c in segment(stream, case["cuts"], CAP[case["side"]])],
                "raising": self._raising(case), "cfg": case.get("cfg") or "default"}

    def model_request2(self, case, obs):
        """stream-socket cases: one model chunk per read() of the implementation = the bytes recv() handed out during that
        read (however many recv() calls it made), then the end of the stream if the script has one"""
        if not self._is_stream(case): return None
        return {"side": case["side"], "chunks": obs["chunks"], "raising": self._raising(case, obs),
                "end": bool((case.get("io") or {}).get("end")), "cfg": case.get("cfg") or "default"}

    def _view_keys(self, case):
        # once the stream has ended the connection object is thrown away: its leftover buffer is nobody's business
        return ("delivered", "counts", "status") if (case.get("io") or {}).get("end") else ("delivered", "counts", "buf", "status")

    def impl_view(self, case, obs):
        return {k: obs[k] for k in self._view_keys(case)}

    def model_obs(self, case, resp):
        return {k: resp.get(k) for k in self._view_keys(case)} if "error" not in resp else resp

    # -- the property itself, on the implementation's observables
    def oracle(self, case, obs):
        if self._is_stream(case): return self._oracle_stream(case, obs)
        msgs = case["msgs"]
        if obs["status"] != "alive": return "connection %s on a well-formed stream" % obs["status"]
        if case.get("other"):
            if obs["other_status"] != "alive": return "companion connection %s on a well-formed stream" % obs["other_status"]
            if obs["other_delivered"] != case["other"]["msgs"]:
                return "companion connection delivered %d messages, sent %d (state shared between connections?)" % (len(obs["other_delivered"]), len(case["other"]["msgs"]))
        if obs["delivered"] != msgs:
            return "delivered %d messages, sent %d (lost/duplicated/merged/reordered)" % (len(obs["delivered"]), len(msgs))
        f = self._oracle_tables(case, obs)
        if f: return f
        ends, p = [], 0
        for m in msgs:
            p += len(m) // 2; ends.append(p)
        got = 0
        for ch, cnt in zip(obs["chunks"], obs["counts"]):
            got += len(ch) // 2
            want = sum(1 for e in ends if e <= got)
            if cnt != want: return "after %d bytes %d messages delivered, %d complete" % (got, cnt, want)
        if obs["buf"] != "": return "residual bytes in buffer after the whole stream"
        return None

    def _oracle_tables(self, case, obs):
        if case.get("swap") is None: return None
        want_t = [0 if i <= case["swap"] else 1 for i in range(len(obs["tables"]))]
        if obs["tables"] != want_t:
            bad = [i for i, (a, b) in enumerate(zip(obs["tables"], want_t)) if a != b]
            return "message %d after a handler switch was given to the old handler table" % (bad[0] - case["swap"])
        return None

    def _oracle_conn(self, spec, cap, delivered, chunks, counts, status, who):
        """one connection over a stream socket.  While the stream is open: exactly the complete messages of the bytes sent,
        in order, once each, and the connection stays up.  When the peer ended the stream: every complete message among the
        bytes recv() handed out (and nothing else) was delivered — whatever the number of recv() calls per read()."""
        msgs, io = spec["msgs"], spec.get("io") or {}
        _, stream = script_of(spec, cap)
        ends, p = [], 0
        for m in msgs:
            p += len(m) // 2; ends.append(p)
        if not io.get("end"):
            if status != "alive": return "%sconnection %s on a well-formed stream" % (who, status)
            k = sum(1 for e in ends if e <= len(stream))
            if delivered != msgs[:k]:
                return "%sdelivered %d messages, sent %d (lost/duplicated/merged/reordered)" % (who, len(delivered), k)
        else:
            k = sum(1 for e in ends if e <= sum(len(ch) // 2 for ch in chunks))
            if delivered != msgs[:k]:
                return "%sdelivered %d messages, %d were complete in the bytes read before the stream ended (%s)" % (who, len(delivered), k, io["end"])
        got = 0
        for ch, cnt in zip(chunks, counts):
            got += len(ch) // 2
            want = sum(1 for e in ends if e <= got)
            if cnt != want: return "%safter %d bytes %d messages delivered, %d complete" % (who, got, cnt, want)
        return None

    def _oracle_stream(self, case, obs):
        cap = CAP[case["side"]]
        if case.get("other"):
            f = self._oracle_conn(case["other"], cap, obs["other_delivered"], obs["other_chunks"], obs["other_counts"], obs["other_status"], "companion connection ")
            if f: return f
        return (self._oracle_conn(case, cap, obs["delivered"], obs["chunks"], obs["counts"], obs["status"], "")
                or self._oracle_tables(case, obs))

    def finding_key(self, case, obs, failure):
        cfg = case.get("cfg") or "default"
        return "%s%s:%s" % (case["side"], "" if cfg == "default" else "/" + cfg, failure.split(",")[0][:40])

    def nontrivial(self, case, obs):
        p, inner = 0, set()
        for m in case["msgs"]:
            inner.update(range(p + 1, p + len(m) // 2)); p += len(m) // 2
        gaps = (case.get("io") or {}).get("gaps")
        return any(c in inner for c in list(case["cuts"]) + (list(gaps) if isinstance(gaps, list) else []))

    def shrink_candidates(self, case):
        import copy
        for i in range(len(case["msgs"])):
            if len(case["msgs"]) > 1:
                c = dict(case); c["msgs"] = case["msgs"][:i] + case["msgs"][i + 1:]; yield c
        for i in range(len(case["cuts"])):
            c = dict(case); c["cuts"] = case["cuts"][:i] + case["cuts"][i + 1:]; yield c
        for k in ("other", "swap", "consumer", "cfg"):
            if k in case:
                c = dict(case); del c[k]; yield c
        for i in range(len(case.get("raise") or ())):
            c = dict(case); c["raise"] = case["raise"][:i] + case["raise"][i + 1:]; yield c
        io = case.get("io")
        if io:
            if isinstance(io.get("gaps"), list):
                for i in range(len(io["gaps"])):
                    c = copy.deepcopy(case); del c["io"]["gaps"][i]; yield c
            for k in ("trunc", "end_gap"):
                if io.get(k):
                    c = copy.deepcopy(case); del c["io"][k]; yield c

CHECK = C02
