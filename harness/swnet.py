"""Byte-level software-switch node shared by the datapath properties (C04, C12, C13, C18, …).
Real `SoftwareSwitch` + `OFConnection` + `IOWorker`; controller messages go in as BYTES through
`IOWorker._push_receive_data` (so the real decoders are in the loop), everything the switch writes is decoded from
`IOWorker.send_buf`.  Call poxenv.boot() first."""
import pox.openflow.libopenflow_01 as of
from pox.datapaths.switch import SoftwareSwitch, OFConnection, DpPacketOut
from pox.lib.ioworker import IOWorker
from pox.lib.packet.ethernet import ethernet


class DummySock:
    def getpeername(self): return ("controller", 6633)
    def shutdown(self, *a): pass
    def close(self): pass
    def fileno(self): return -1


class SwitchNode:
    def __init__(self, dpid=1, ports=4, max_buffers=100, miss_send_len=128, **kw):
        self.w = IOWorker(); self.w.socket = DummySock()
        self.sw = SoftwareSwitch(dpid=dpid, ports=ports, max_buffers=max_buffers, miss_send_len=miss_send_len, **kw)
        self.ofc = OFConnection(self.w)
        self.sw.set_connection(self.ofc)
        self.emitted = []                      # (port_no, frame bytes), serialised at event time
        self.sw.addListener(DpPacketOut, lambda e: self.emitted.append((e.port.port_no, e.packet.pack())))
        self.drain()                           # the hello

    def drain(self):
        """decode and remove everything the switch has written; returns list of message objects"""
        buf = bytes(self.w.send_buf); self.w.send_buf = b""
        out, off = [], 0
        while off < len(buf):
            t = buf[off + 1]; ln = (buf[off + 2] << 8) | buf[off + 3]
            cls = of._message_type_to_class[t]
            o = cls(); o.unpack(buf, off)
            out.append(o); off += ln
        return out

    def send(self, msg):
        """deliver one controller→switch message (object or bytes); returns (status, replies, emitted)"""
        data = msg if isinstance(msg, bytes) else msg.pack()
        self.emitted = []
        status = "ok"
        try:
            self.w._push_receive_data(data)
        except Exception as e:
            status = "raise:" + type(e).__name__
            self.w.receive_buf = b""           # what a dead I/O loop would leave behind is not our concern here
        if self.w.closed: status = "closed"
        return status, self.drain(), list(self.emitted)

    def rx(self, frame, port):
        """a frame arrives on a data-plane port"""
        self.emitted = []
        status = "ok"
        try:
            self.sw.rx_packet(ethernet(frame), port, packet_data=frame)
        except Exception as e:
            status = "raise:" + type(e).__name__
        return status, self.drain(), list(self.emitted)
