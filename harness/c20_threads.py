"""C20 part B — trace validation of the controller send path with REAL threads under the forced thread scheduler.

The real `of_01.Connection.send` runs on a managed "coop" thread and the real `of_01.DeferredSender.run` loop on a
managed "sender" thread (harness/forcedthreads.py: one OS thread runs at a time, the schedule decides who).  Replaced
from outside, nothing in the repository is edited: `of_01.threading` (the sender's RLock becomes an instrumented
re-entrant lock, `Thread.__init__` a no-op, `start()` spawns the managed thread), `of_01.select` (virtual select: the
waker pinger is readable when pinged, a connection with deferred data is always writable), `pox.lib.util.makePinger`
(byte counter), `of_01.PIPE_BUF`, `of_01.deferredSender`; the connection's socket is a scripted object whose `send`
is a yield point.  Pre-emption points: every line of Connection.send, Connection.disconnect, DeferredSender.send and
DeferredSender.run (found with `ast`, no hard-coded line numbers) and every primitive operation.

The executed trace is translated into the action list of `Model/SendPath.lean` Part B (`cstep`):

  coopCheck d     at the unlocked read `if deferredSender.sending:` — unless the sender thread's fatal error marked the
                  connection disconnected between the `if self.disconnected` test and that read: then at the position of
                  the `disconnected` test (the model reads both in one action; a fatal error does not write `sending`, so
                  the two reads commute to that point).  A call that returns at the `disconnected` test: coopCheck there.
  coopGo o        direct path: at the `self.sock.send(data)` call, with the outcome the socket actually gave;
                  deferred path (flag read True): `coopGo again` right before coopEnq (the model needs it to move
                  checked -> wantEnq; it has no effect of its own)
  coopEnq         when the coop thread gets `DeferredSender._lock` inside `DeferredSender.send`
  senderBegin     when the sender thread gets the lock of its second `with self._lock:` block and select reported the
                  connection writable
  senderSend o    non-fatal: at the `con.sock.send(data)` call;  fatal: when the sender thread executes
                  `self.disconnected = True` inside `con.disconnect()` (that write is what the unlocked reader sees)
  senderFinish    at `self.sending = False` if that line is reached (the unlocked reader sees the flag from then on),
                  otherwise when the block's lock is released; preceded by one extra `senderSend` when the `while
                  len(alldata)` loop ran the list empty (the model's `[] => finishing` move)

API:  thread_cases(rng, tier) -> iterable of JSON-able cases;  run_thread_case(case) -> {"acts", "obs", "status", ...};
      `python harness/c20_threads.py [seed]` = self-test against drv_c20 (final observables) and, when available,
      drv_c07's strict replay of the same model (reports the first action the model cannot take).
"""
import os, sys, ast, json, random, io, contextlib
sys.path.insert(0, os.path.dirname(os.path.abspath(__file__)))
import common, poxenv
import forcedthreads as ft

MAX_STEPS = 6000


def data(i, n):
    return bytes(((i * 37 + k * 5 + 1) & 0xff) for k in range(n))


# ---------------------------------------------------------------------------------------------------------------- lookup

class Sites:
    """line numbers of the statements the translation needs, found in the source of pox/openflow/of_01.py"""
    def __init__(self, of_01):
        self.file = of_01.__file__
        tree = ast.parse(open(self.file).read())
        cls = {n.name: n for n in tree.body if isinstance(n, ast.ClassDef)}
        def fn(c, name):
            for n in cls[c].body:
                if isinstance(n, ast.FunctionDef) and n.name == name: return n
            raise LookupError("%s.%s not found" % (c, name))
        self.fns = {"Connection.send": fn("Connection", "send"), "Connection.disconnect": fn("Connection", "disconnect"),
                    "DeferredSender.send": fn("DeferredSender", "send"), "DeferredSender.run": fn("DeferredSender", "run")}
        self.trace_funcs = {(self.file, f.lineno) for f in self.fns.values()}
        self.yield_lines = set()
        for f in self.fns.values():
            for n in ast.walk(f):
                if isinstance(n, ast.stmt) and n is not f:
                    self.yield_lines.add((self.file, n.lineno))
        def is_attr(e, root, attr):
            return isinstance(e, ast.Attribute) and e.attr == attr and isinstance(e.value, ast.Name) and e.value.id == root
        def one(fname, pred, what):
            hits = [n for n in ast.walk(self.fns[fname]) if pred(n)]
            if len(hits) != 1: raise LookupError("%s: expected exactly one `%s`, found %d" % (fname, what, len(hits)))
            return hits[0].lineno
        def sock_send(n, owner):
            return (isinstance(n, ast.Assign) and isinstance(n.value, ast.Call) and isinstance(n.value.func, ast.Attribute)
                    and n.value.func.attr == "send" and is_attr(n.value.func.value, owner, "sock"))
        self.CS_DISC = one("Connection.send", lambda n: isinstance(n, ast.If) and is_attr(n.test, "self", "disconnected"), "if self.disconnected")
        self.CS_FLAG = one("Connection.send", lambda n: isinstance(n, ast.If) and is_attr(n.test, "deferredSender", "sending"), "if deferredSender.sending")
        self.CS_SOCK = one("Connection.send", lambda n: sock_send(n, "self"), "l = self.sock.send(data)")
        self.DISC_SET = one("Connection.disconnect", lambda n: isinstance(n, ast.Assign) and len(n.targets) == 1 and
                            is_attr(n.targets[0], "self", "disconnected"), "self.disconnected = True")
        self.RUN_SOCK = one("DeferredSender.run", lambda n: sock_send(n, "con"), "l = con.sock.send(data)")
        self.RUN_SENDING_FALSE = one("DeferredSender.run", lambda n: isinstance(n, ast.Assign) and len(n.targets) == 1 and
                                     is_attr(n.targets[0], "self", "sending"), "self.sending = False")
        # the `with self._lock:` block of DeferredSender.run in which the queued data is written (the innermost one around the
        # `con.sock.send`); other locked blocks of the loop (taking the snapshot of the keys, forgetting closed connections)
        # are not actions of the model
        withs = sorted((n.lineno, n.end_lineno) for n in ast.walk(self.fns["DeferredSender.run"]) if isinstance(n, ast.With))
        around = [w for w in withs if w[0] <= self.RUN_SOCK <= w[1]]
        if not around: raise LookupError("DeferredSender.run: no `with self._lock:` block around `con.sock.send`")
        self.RUN_WITH1, self.RUN_WITH2 = withs[0][0], around[-1][0]
        w = [n.lineno for n in ast.walk(self.fns["DeferredSender.send"]) if isinstance(n, ast.With)]
        if len(w) != 1: raise LookupError("DeferredSender.send: expected one `with self._lock:` block")
        self.DS_SEND_WITH = w[0]


_ENV = {}

def env():
    if not _ENV:
        core = poxenv.boot()
        import pox.openflow.of_01 as of_01
        import pox.lib.util as util
        _ENV.update(core=core, of_01=of_01, util=util, sites=Sites(of_01))
    return _ENV


# ---------------------------------------------------------------------------------------------------------------- cases

OUTS = [{"o": "accept", "k": 1 << 30}, {"o": "accept", "k": 1}, {"o": "accept", "k": 3}, {"o": "again"}, {"o": "fatal"}, {"o": "accept", "k": 0}]

def _rout(rng):
    r = rng.random()
    if r < 0.40: return OUTS[0]
    if r < 0.70: return {"o": "accept", "k": rng.randint(0, 6)}
    if r < 0.90: return {"o": "again"}
    return {"o": "fatal"}

def random_case(rng):
    sends = [rng.choice([1, 2, 3, 5, 9, rng.randint(1, 20)]) for _ in range(rng.choice([1, 2, 3, 3, 4, 6]))]
    outs = [_rout(rng) for _ in range(rng.randint(0, 8))]
    t = rng.random()
    if t < 0.6: sched = {"type": "pct", "seed": rng.randrange(1 << 30), "d": rng.choice([1, 2, 3]), "k": rng.choice([40, 100, 200])}
    else: sched = {"type": "random", "seed": rng.randrange(1 << 30)}
    return {"pb": rng.choice([1, 2, 4, 512]), "sends": sends, "outs": outs, "sched": sched}

SCENARIOS = [
    {"pb": 2, "sends": [3, 2], "outs": [{"o": "accept", "k": 1}]},                               # partial write, then a second send
    {"pb": 512, "sends": [2, 2, 1], "outs": [{"o": "again"}, {"o": "accept", "k": 1 << 30}, {"o": "fatal"}]},   # deferred, flushed, fatal
    {"pb": 1, "sends": [2, 1], "outs": [{"o": "again"}, {"o": "accept", "k": 1}, {"o": "again"}]},
]

def thread_cases(rng, tier="quick"):
    """seeded random cases, then (thorough) every schedule with at most 2 pre-emptions of the small SCENARIOS"""
    for _ in range(200 if tier == "quick" else 1500):
        yield random_case(rng)
    for c in exhaustive_cases(2 if tier != "quick" else 1):
        yield c

def exhaustive_cases(bound=2, report=None):
    for base in SCENARIOS:
        level = [[]]
        n = 0
        for depth in range(bound + 1):
            nxt = []
            for pts in level:
                c = dict(base); c["sched"] = {"type": "preempt", "points": pts}
                yield c
                n += 1
                if depth < bound:
                    nxt += _extensions(base, pts)
            level = nxt
        if report is not None: report.append({"scenario": base, "bound": bound, "schedules": n})

def _extensions(base, pts):
    c = dict(base); c["sched"] = {"type": "preempt", "points": pts}
    r = run_thread_case(c, want_choices=True)
    if r["status"] == "harness-budget": return []
    start = (pts[-1][0] + 1) if pts else 0
    ext, prev = [], None
    for step, (names, chosen) in enumerate(r["choices"]):
        if step >= start and prev in names:
            ext += [pts + [[step, n]] for n in names if n != chosen]
        prev = chosen
    return ext


# ---------------------------------------------------------------------------------------------------------------- the run

def _chooser(sched):
    t = sched["type"]
    if t == "pct": return ft.PCTChooser(random.Random(sched["seed"]), sched["d"], sched["k"])
    if t == "random": return ft.RandomChooser(random.Random(sched["seed"]))
    if t == "preempt": return ft.PreemptChooser(["coop", "sender"], {int(s): n for s, n in sched["points"]})
    raise ValueError(t)


def run_thread_case(case, want_choices=False):
    E = env()
    of_01, util, core, S = E["of_01"], E["util"], E["core"], E["sites"]
    chooser = _chooser(case["sched"])
    ctl = ft.Controller(chooser, trace_funcs=S.trace_funcs, yield_lines=S.yield_lines, max_steps=MAX_STEPS, frame_files=(S.file,))
    prim = ft.make_primitives(ctl)
    script = [dict(o) for o in case["outs"]]

    class TSock:
        """scripted socket; `send` is a yield point, the outcome is taken from the script when the call happens"""
        def __init__(self):
            self.accepted, self.offered, self.offered_after_fatal, self.fatal_seen, self.shut = b"", 0, 0, False, False
        def send(self, d, flags=0):
            import socket, errno
            ctl.yield_point(prim.P("sock.send"))
            me = ctl.me()
            self.offered += 1
            dead = self.fatal_seen or self.shut
            if dead: self.offered_after_fatal += 1
            o = script.pop(0) if (script and me is not None) else {"o": "accept", "k": 1 << 30}
            if dead: o = {"o": "fatal"}                       # a shut-down socket refuses every write
            if me is not None: ctl.trace.append((me.name, ("sockres", o["o"], min(o.get("k", 0), len(d)), len(d)), False))
            if o["o"] == "again": raise socket.error(errno.EAGAIN, "EAGAIN")
            if o["o"] == "fatal":
                self.fatal_seen = True
                raise socket.error(errno.EPIPE, "EPIPE")
            k = min(o["k"], len(d))
            self.accepted += bytes(d[:k])
            return k
        def recv(self, n, flags=0):
            import socket, errno
            raise socket.error(errno.EAGAIN, "EAGAIN")
        def shutdown(self, how=None): self.shut = True
        def close(self): self.shut = True
        def fileno(self): return -1
        def getpeername(self): return ("peer", 1)

    class ThreadingNS:
        """what of_01 uses of `threading` while a DeferredSender is constructed and runs"""
        RLock = prim.RLock; Lock = prim.Lock; Event = prim.Event
        class Thread:
            def __init__(self, *a, **k): pass
        @staticmethod
        def current_thread(): return ctl.me()

    def vselect(r, w, x, timeout=None):
        res = prim.select(r, w, x, timeout)
        me = ctl.me()
        if me is not None: ctl.trace.append((me.name, ("selres", len(res[0]), [id(c) for c in res[1]]), False))
        return res
    class SelectNS:
        select = staticmethod(vselect); error = OSError

    class DS(of_01.DeferredSender):
        def start(self):                                     # called at the end of the real __init__
            self.mt = ctl.spawn("sender", self.run)

    saved = (of_01.threading, of_01.select, of_01.PIPE_BUF, of_01.deferredSender, util.makePinger)
    sys_trace = sys.gettrace(); sys.settrace(None)
    sink = io.StringIO()
    redir = contextlib.ExitStack()
    status, choices = None, []
    try:
        of_01.threading, of_01.select, of_01.PIPE_BUF = ThreadingNS, SelectNS, case["pb"]
        util.makePinger = lambda: prim.Pinger()
        core.addListeners = lambda *a, **k: None             # keep per-case senders out of core's handler lists
        try: ds = DS()
        finally: del core.addListeners
        of_01.deferredSender = ds
        sock = TSock()
        con = of_01.Connection(sock)                         # writes its hello on this (unmanaged) thread: accepted at once
        con.fsel_writable = lambda: True
        hello = len(sock.accepted)
        state = {"queued": b"", "done": False}
        def coop():
            for i, n in enumerate(case["sends"]):
                ctl.yield_point(("call", i))
                con.send(data(i, n))
                ctl.yield_point(("callend", i))
            state["done"] = True
        coop_t = ctl.spawn("coop", coop)
        def policy(c, en):
            if en:
                t = chooser.pick(c, en)
                choices.append(([x.name for x in en], t.name))
                return t
            if coop_t.done: return ("stop", "quiescent")
            return ("stop", "deadlock")                      # the coop thread is blocked for ever (nobody can release the lock)
        redir.enter_context(contextlib.redirect_stdout(sink)); redir.enter_context(contextlib.redirect_stderr(sink))
        status = ctl.run(policy)
        if status == "budget": status = "harness-budget"
        errors = {t.name: t.error for t in ctl.threads if t.error}
        pend = [bytes(x).hex() for x in ds._dataForConnection.get(con, [])]
        obs = {"accepted": sock.accepted[hello:].hex(), "pending": pend, "disc": bool(con.disconnected), "sending": bool(ds.sending),
               "offered_after_disc": sock.offered_after_fatal}
        blocked = {t.name: list(map(str, t.key)) for t in ctl.threads if not t.done}
        trace = list(ctl.trace)
    finally:
        leaked = ctl.teardown()
        redir.close()
        of_01.threading, of_01.select, of_01.PIPE_BUF, of_01.deferredSender, util.makePinger = saved
        sys.settrace(sys_trace)
    acts, queued, notes = translate(trace, case, S, id(con))
    obs["queued"] = queued.hex()
    out = {"acts": acts, "obs": obs, "status": status, "steps": ctl.steps, "thread_errors": errors, "blocked_at": blocked,
           "notes": notes, "leaked": leaked}
    if want_choices: out["choices"] = choices
    return out


# ---------------------------------------------------------------------------------------------------------------- translation

def translate(trace, case, S, con_id):
    acts, notes = [], []
    queued = b""
    cur = None                  # the Connection.send call in progress: {"d", "disc_idx", "fatal_mark", "checked", "went"}
    fatal_count = 0             # number of sender-side fatal acts emitted so far
    in_w = False                # did the last select report the connection writable?
    sst = "idle"                # what the model's sender pc is: idle / flushing / finishing
    pending_fatal = False       # the sender's sock.send failed fatally; the act is emitted at `disconnected = True`
    def oc(kind, k):
        return {"o": "accept", "k": k} if kind == "accept" else {"o": kind}
    for name, key, _to in trace:
        k0 = key[0]
        if name == "coop":
            if k0 == "call":
                cur = {"d": data(key[1], case["sends"][key[1]]), "disc_idx": None, "fatal_mark": None, "checked": False, "went": False}
            elif k0 == "callend":
                if cur is not None and cur["disc_idx"] is not None and not cur["checked"]:
                    acts.insert(cur["disc_idx"], {"a": "coopCheck", "d": cur["d"].hex()})      # returned at `if self.disconnected`
                cur = None
            elif k0 == "L" and key[2] == S.CS_DISC and key[1] == "Connection.send":
                cur["disc_idx"], cur["fatal_mark"] = len(acts), fatal_count
            elif k0 == "L" and key[2] == S.CS_FLAG and key[1] == "Connection.send":
                a = {"a": "coopCheck", "d": cur["d"].hex()}
                if fatal_count != cur["fatal_mark"]:
                    acts.insert(cur["disc_idx"], a); notes.append("coopCheck moved before the sender's fatal error")
                else:
                    acts.append(a)
                cur["checked"] = True; queued += cur["d"]
            elif k0 == "sockres":
                acts.append(dict(a="coopGo", **oc(key[1], key[2]))); cur["went"] = True
            elif k0 == "P" and key[1] == "Lock.acquire" and key[2] == "DeferredSender.send":
                if not cur["went"]:
                    acts.append({"a": "coopGo", "o": "again"})
                acts.append({"a": "coopEnq"})
        elif name == "sender":
            if k0 == "selres":
                in_w = con_id in key[2]
            elif k0 == "P" and key[1] == "Lock.acquire" and key[2] == "DeferredSender.run" and key[3] == S.RUN_WITH2:
                if in_w:
                    acts.append({"a": "senderBegin"}); sst = "flushing"
            elif k0 == "sockres":
                if key[1] == "fatal":
                    pending_fatal = True
                else:
                    acts.append(dict(a="senderSend", **oc(key[1], key[2])))
                    sst = "flushing" if (key[1] == "accept" and key[2] == key[3]) else "finishing"
            elif k0 == "L" and key[1] == "Connection.disconnect" and key[2] == S.DISC_SET and pending_fatal:
                acts.append({"a": "senderSend", "o": "fatal"}); fatal_count += 1
                pending_fatal = False; sst = "idle"
            elif k0 == "L" and key[1] == "DeferredSender.run" and key[2] == S.RUN_SENDING_FALSE:
                if sst == "flushing": acts.append({"a": "senderSend", "o": "accept", "k": 0})
                if sst in ("flushing", "finishing"): acts.append({"a": "senderFinish"})
                sst = "idle"
            elif k0 == "P" and key[1] == "Lock.release" and key[2] == "DeferredSender.run" and key[3] == S.RUN_WITH2:
                if sst == "flushing": acts.append({"a": "senderSend", "o": "accept", "k": 0})
                if sst in ("flushing", "finishing"): acts.append({"a": "senderFinish"})
                sst = "idle"; in_w = False
    return acts, queued, notes


# ---------------------------------------------------------------------------------------------------------------- self-test

def _ask(driver, reqs):
    d = common.Driver(driver)
    try: return d.ask_many(reqs)
    finally: d.close()

def selftest(seed=0, tier="quick"):
    rng = random.Random(seed * 1000003 + 20)
    report = []
    cases = [random_case(rng) for _ in range(200 if tier == "quick" else 1500)]
    cases += list(exhaustive_cases(2, report))
    results = [run_thread_case(c) for c in cases]
    reqs = [{"part": "B", "pb": c["pb"], "acts": r["acts"]} for c, r in zip(cases, results)]
    final = _ask("drv_c20", reqs)
    strict = None
    if os.path.exists(os.path.join(common.LEAN, ".lake", "build", "bin", "drv_c07")):
        try:
            strict = _ask("drv_c07", [dict(op="sendpath_strict", pb=q["pb"], acts=q["acts"]) for q in reqs])
            if any("error" in s and "unknown op" in str(s.get("error")) for s in strict[:1]): strict = None
        except Exception:
            strict = None
    KEYS = ("accepted", "pending", "disc", "sending", "offered_after_disc")
    bad, rejected, infra, dead, errs = [], [], 0, [], []
    steps = sum(r["steps"] for r in results)
    nacts = sum(len(r["acts"]) for r in results)
    for i, (c, r, m) in enumerate(zip(cases, results, final)):
        if r["status"] == "harness-budget": infra += 1; continue
        if r["status"] == "deadlock": dead.append((c, r))
        if r["thread_errors"]: errs.append((c, r))
        if "error" in m or any(m.get(k) != r["obs"][k] for k in KEYS):
            bad.append((c, r, m))
        if strict is not None:
            s = strict[i]
            if s.get("rejected_at") is not None or s.get("queued") != r["obs"]["queued"]:
                rejected.append((c, r, s))
        # the property itself on the real observables (independent of the model)
        acc, q = bytes.fromhex(r["obs"]["accepted"]), bytes.fromhex(r["obs"]["queued"])
        pend = b"".join(bytes.fromhex(x) for x in r["obs"]["pending"])
        if not q.startswith(acc) or (not r["obs"]["disc"] and r["status"] == "quiescent" and acc + pend != q):
            bad.append((c, r, {"oracle": "stream property violated on the real code"}))
    print("c20_threads self-test: %d cases (%d random + %d bounded-exhaustive), %d scheduler steps, %d model actions"
          % (len(cases), len(cases) - sum(x["schedules"] for x in report), sum(x["schedules"] for x in report), steps, nacts))
    for x in report:
        print("  exhaustive <=%d pre-emptions: %d schedules of %s" % (x["bound"], x["schedules"], json.dumps(x["scenario"])))
    print("  final observables vs drv_c20 (crun): %d disagreements" % len(bad))
    print("  strict replay (drv_c07 sendpath_strict): %s" % ("not available" if strict is None else "%d traces the model could not follow" % len(rejected)))
    print("  real deadlocks: %d, exceptions out of a thread: %d, harness budget overruns: %d" % (len(dead), len(errs), infra))
    moved = sum(1 for r in results if r["notes"])
    print("  traces in which coopCheck was placed at the `disconnected` test (sender's fatal error in between): %d" % moved)
    for title, lst in (("DISAGREEMENT", bad), ("REJECTED", rejected), ("DEADLOCK", dead), ("THREAD ERROR", errs)):
        for item in lst[:3]:
            c, r = item[0], item[1]
            print("%s case=%s" % (title, json.dumps(c)))
            print("   acts=%s" % json.dumps(r["acts"]))
            print("   real=%s" % json.dumps(r["obs"]))
            if len(item) > 2: print("   model=%s" % json.dumps(item[2]))
            if r["thread_errors"]: print("   errors=%s blocked=%s" % (r["thread_errors"], r["blocked_at"]))
    if infra: return 2
    return 1 if (bad or rejected or dead or errs) else 0


if __name__ == "__main__":
    sys.exit(selftest(int(sys.argv[1]) if len(sys.argv) > 1 else 0, sys.argv[2] if len(sys.argv) > 2 else "quick"))
