"""C15 — parsing untrusted frames never fails (DESIGN §5 C15).

case = {"kind":"frame","hex":<frame bytes>,"how":<provenance, informational>}

impl(case) runs the real code on the frame:
  ethernet(raw=frame)                      -> exception class or the object chain (class, parsed flag, attributes of every layer)
  .pack(), str(), .dump() of the result    -> bytes / "ok" / exception class; for the fixed corpus, the long frames and one generated case in eight
                                              also str()/pack() a second time, len() and find() (what a handler does with event.parsed)
  PacketIn(con, ofp_packet_in(data=frame)).parsed   -> exception class or the class/parsed chain (must equal the direct one)

oracle (independent of the Lean model) = the property on those observables: nothing raises; every layer object records `parsed`;
an object whose parse gave up keeps the bytes it was given (`raw`) and has no `next`; the terminal of the chain is bytes or None and
every kept remainder is a slice of the frame.

Model comparison (driver drv_c15, Model/PacketParse.lean): whole outcome for the behaviour-modelled parsers
(ethernet, vlan, llc/SNAP, arp, ipv4, udp, tcp+options, icmp echo/unreach/time_exceeded, lldp+TLVs) up to the first layer handed to an
un-modelled parser (ipv6, icmpv6, dhcp, dns, rip, vxlan, igmp, gre, mpls, eapol/eap, MPTCP option): there the model answers
`foreign <class> <bytes handed over>` and only the oracle applies to the rest.

Long frames (more than LONG octets, up to the 65000 a packet-in can carry; families LONG_FAMILIES: label / tag stacks, extension-header chains,
encapsulation, error quoting, option / TLV / record / entry lists, compression-pointer chains, long payloads) are observed and model-compared in
compact form ([length, Adler-32] for every byte string); the number of nested constructor activations the interpreter had room for — the one
thing the model leaves abstract — is read off the observed chain (model_request2).
"""
import os, sys, json, re, struct, importlib, collections, itertools, zlib
import common, poxenv
from common import Check
import c15_frames as FR

if os.environ.get("C15_PROPOSED_FINDINGS"):
    # validation aid, OFF by default (same device as harness/c14.py): treat the known-finding entries proposed in the report as merged
    _orig_init = common.Findings.__init__
    def _init(self):
        _orig_init(self)
        extra = json.load(open(os.environ["C15_PROPOSED_FINDINGS"]))["findings"]
        have = {f.get("id") for f in self.open}
        self.open += [f for f in extra if f.get("status", "open") == "open" and f.get("id") not in have]
    common.Findings.__init__ = _init

MODELLED = ("ethernet", "vlan", "llc", "arp", "ipv4", "udp", "tcp", "icmp", "echo", "unreach", "time_exceeded", "lldp",
            # phase 2
            "mpls", "eapol", "eap", "vxlan", "rip", "dns", "ipv6", "icmpv6", "TimeExceeded", "PacketTooBig", "NDRouterSolicitation",
            "NDRouterAdvertisement", "NDNeighborSolicitation", "NDNeighborAdvertisement", "gre", "igmp", "dhcp")
NO_RAW = ("icmp", "NDRouterSolicitation", "NDRouterAdvertisement", "NDNeighborSolicitation", "NDNeighborAdvertisement")
UDP_FOREIGN = {67: "dhcp", 68: "dhcp", 53: "dns", 5353: "dns", 520: "rip", 4789: "vxlan"}


class _StubTimer:
    """stands in for pox.lib.recoco.Timer inside discovery: records nothing, never runs anything"""
    def __init__(self, *a, **kw): pass
    def cancel(self): pass


class _StubCon:
    """a connection as far as l2_learning / discovery use it; send() serialises the message (a handler whose message cannot be packed failed)"""
    def __init__(self, dpid=1):
        self.dpid = dpid; self.ports = {}; self.connect_time = 0.0; self.sent = 0
    def addListeners(self, *a, **kw): return []
    def send(self, m):
        if not isinstance(m, (bytes, bytearray, memoryview)): m.pack()
        self.sent += 1
    def __str__(self): return "[stub %s]" % self.dpid


def frame_case(b, how, **extra):
    c = {"kind": "frame", "hex": bytes(b).hex(), "how": how}
    c.update(extra)
    return c


LONG = 1600     # octets.  A frame longer than this is observed in COMPACT form: every byte string of the observables (the `raw` of each layer, the
                # terminal's bytes, pack()) is recorded as [length, digest] — a 64 KB frame with 500 layers would otherwise be recorded as 500 copies
                # of itself — and the model is asked (drv_c15, "compact") for the same form.  No frame of the ordinary families is that long.


def is_long(case):
    return len(case.get("hex", "")) > 2 * LONG


def digest(b):
    """[length, Adler-32] (Drivers/C15.lean `digest`)"""
    return [len(b), zlib.adler32(bytes(b))]


class C15(Check):
    id = "C15"
    title = "Parsing untrusted frames never fails"
    prop_module = "PoxModel.Properties.C15"
    lean_targets = ["drv_c15"]
    driver = "drv_c15"
    theorems = []
    ANCHOR_FUNCS = {"packet_base": ["packet_base.__str__", "packet_base.dump", "packet_base.pack"],
                    "ethernet": ["ethernet.parse", "ethernet.parse_next"], "vlan": ["vlan.parse", "vlan.__str__"],
                    "llc": ["llc.parse", "llc.__str__", "llc.hdr"], "arp": ["arp.parse"], "ipv4": ["ipv4.parse", "ipv4.__str__"], "udp": ["udp.parse"],
                    "tcp": ["tcp_opt.unpack_new", "tcp.parse_options", "tcp.parse", "tcp.__str__"],
                    "icmp": ["echo.parse", "time_exceeded.parse", "unreach.parse", "icmp.parse", "_str_rest"],
                    "mpls": ["mpls.parse"], "eapol": ["eapol.parse"], "eap": ["eap.parse"], "vxlan": ["vxlan.parse"], "rip": ["rip.parse", "RIPEntry.parse"],
                    "ipv6": ["NormalExtensionHeader.unpack_new", "FixedExtensionHeader.unpack_new", "ipv6.parse"],
                    "icmpv6": ["_parse_ndp_options", "NDOptionBase.unpack_new", "NDRouterSolicitation.unpack_new", "NDRouterAdvertisement.unpack_new",
                               "NDNeighborSolicitation.unpack_new", "NDNeighborAdvertisement.unpack_new", "TimeExceeded.unpack_new", "PacketTooBig.unpack_new",
                               "echo.parse", "unreach.parse", "icmpv6.parse"],
                    "gre": ["gre.parse"], "igmp": ["igmp.parse", "GroupRecord.unpack_new"], "dns": ["dns.parse"],
                    "dhcp": ["dhcp.parse", "dhcp.parseOptions", "dhcp.parseOptionSegment", "dhcp.unpackOptions"],
                    "lldp": ["lldp.next_tlv", "lldp.parse", "lldp.__str__", "simple_tlv.parse", "chassis_id._parse_data", "port_id._parse_data", "ttl._parse_data",
                             "end_tlv._parse_data", "management_address._parse_data", "organizationally_specific._parse_data",
                             "system_capabilities._parse_data", "chassis_id.__str__", "port_id.__str__"]}
    anchors = []
    coverage_cases = 2000
    search_budget = {"quick": 20000, "thorough": 200000}
    design_ref = "DESIGN.md §5 C15, §3 Model/Packet, §6 D14, Appendix A.3"
    technique = ("Lean 4 proof about a hand-written executable model (Except-valued: every struct.unpack of a wrong-size slice, index, "
                 "deliberate raise and %-format of None is an error) of the Ethernet/VLAN/LLC-SNAP/ARP/IPv4/ICMP/TCP(+options)/UDP/LLDP parse, pack "
                 "and print paths and the MPLS/EAPOL/EAP/IPv6(+extension headers)/ICMPv6(+NDP)/IGMP/GRE/VXLAN/RIP/DNS/DHCP parse paths + differential correspondence of the compiled model against the real classes on exhaustive truncation / "
                 "single-byte corruption / structure-aware / random frames + independent 'nothing raises, progress recorded' oracle on all 21 parsers")
    rule = ("case = one byte string offered to ethernet(raw=...): a valid frame of the 160-frame corpus (all 21 modules; incl. realistic TCP SYN / SYN-ACK "
            "option layouts and IGMP v1/v2/v3 queries and reports), every truncation of it (ICMPv6 / IGMP: also with the checksum recomputed), every option-code octet of every DHCP frame set to every other code present in it (RFC 3396 concatenation: legally split long options of 256..600 octets, two long options made one), the payload-less "
            "TCP segments whose last option (every kind incl. MPTCP with every subtype, every length) starts in the last 1..4 header bytes, ALL 256 values at "
            "every protocol-selector / type / code / length / option-kind / option-length byte of every corpus frame and at every header byte of the "
            "checksum-verified IGMP / ICMPv6 messages with the IPv4-header / IGMP / ICMPv6 checksum recomputed (both tiers, not sliced), all 256 values at "
            "the other header-boundary offsets and the 8 single-bit flips elsewhere (every 64th in the quick tier, all in the thorough tier; mutants behind a "
            "verified checksum also with the checksum recomputed), structure-aware mutants (length fields, option/TLV lengths, header-length nibbles, DNS "
            "pointers, nesting) or random bytes; LONG frames of 1.6 to 65 KB (the most a packet-in can carry) made of many repeated small units of every "
            "self-nesting construct: MPLS label stacks (bare, behind 802.1Q tags, behind LLC/SNAP, with and without a bottom of stack; also around the depth "
            "at which CPython runs out of stack), 802.1Q tag stacks, IPv6 extension-header chains of every kind, ICMP / ICMPv6 errors quoting errors, IP in GRE "
            "(also with Ethernet bridging), Ethernet in VXLAN, DHCP option / LLDP TLV / DNS question and record / RIP entry / IGMPv3 group record / NDP option "
            "lists, DNS names behind chains of up to 4000 compression pointers and of hundreds of labels, and ordinary header chains in front of 64 KB of "
            "payload (fixed sizes in the corpus, the list families at full size and random sizes / cuts seeded); distinct = sha1 of the frame; non-trivial = "
            "ethernet header parsed and at least one further parser entered")

    # ------------------------------------------------------------------ setup
    def setup(self):
        import logging
        logging.disable(logging.CRITICAL)
        poxenv.boot()
        P = lambda m: importlib.import_module("pox.lib.packet." + m)
        self.m = {n: P(n) for n in ("packet_base", "ethernet", "vlan", "llc", "arp", "ipv4", "ipv6", "icmp", "icmpv6", "tcp", "udp", "dhcp", "dns",
                                    "lldp", "mpls", "gre", "vxlan", "igmp", "rip", "eapol", "eap")}
        self.packet_base = self.m["packet_base"].packet_base
        self.ethernet = self.m["ethernet"].ethernet
        self.pkgdir = os.path.join(common.REPO, "pox", "lib")
        self.pktdir = os.path.join(common.REPO, "pox", "lib", "packet")
        of = importlib.import_module("pox.openflow.libopenflow_01")
        self.ofp_packet_in = of.ofp_packet_in
        self.PacketIn = importlib.import_module("pox.openflow").PacketIn
        class _Con: dpid = 1
        self.con = _Con()
        # anchors are named definitions, resolved on the current source by common.AnchorCoverage (robust to line shifts)
        self.anchors = [("pox/lib/packet/%s.py" % mod, f) for mod, funcs in self.ANCHOR_FUNCS.items() for f in funcs] + \
                       [("pox/openflow/__init__.py", "PacketIn.parse"), ("pox/openflow/__init__.py", "PacketIn.parsed")]
        self._frames = FR.corpus()
        # offset of the IGMP / ICMP / ICMPv6 message of the corpus frames that carry one (harness's own knowledge of the layouts)
        self._l4off = {}
        for name, f in self._frames:
            if len(f) >= 34 and f[12:14] == b"\x08\x00" and f[23] in (1, 2): self._l4off[name] = 14 + (f[14] & 15) * 4
            elif len(f) >= 58 and f[12:14] == b"\x86\xdd" and f[20] == 58: self._l4off[name] = 54
        self._known = common.Findings()
        self.fixes = self.detect_fixes()
        fr = dict(self._frames)
        self._disturbers = [bytes(fr[n]) for n in ("tcp-opts", "lldp-full", "dns-resp", "igmp-v3", "dhcp-offer", "ip6-ra", "ip6-ext", "gre-route", "rip-resp", "tcp-syn-mptcp",
                                                    "ip-opts", "snap-arp") if n in fr]
        # the event handlers that consume PacketIn.parsed in a stock controller: the learning switch and link discovery
        self.l2 = importlib.import_module("pox.forwarding.l2_learning")
        self.disc = importlib.import_module("pox.openflow.discovery")
        self.disc.Timer = _StubTimer
        core = importlib.import_module("pox.core").core
        if not core.hasComponent("openflow_discovery"): core.registerNew(self.disc.Discovery)
        self.D = core.openflow_discovery
        self.core = core
        self.anchors += [("pox/forwarding/l2_learning.py", "LearningSwitch._handle_PacketIn"), ("pox/openflow/discovery.py", "Discovery._handle_openflow_PacketIn"),
                         ("pox/openflow/libopenflow_01.py", "ofp_match.from_packet")]

    # which of the repairs fixes/C15-K<n>_*.diff the tree under test has, read off the source of the function each one changes (the model is
    # asked for that variant: `Cfg.repairedWith fx`).  A repair that is present only in part, or written differently, is not recognised: the
    # model then expects the raise and the run reports the disagreement.
    FIX_MARKS = {
        "K1": [("packet_base", "packet_base", r"MAX_NESTING\s*=\s*32\b"), ("packet_base", "packet_base._nesting", r"while\s+p\s+is\s+not\s+None\s*:"),
               ("ethernet", "ethernet.parse_next", r"if\s+prev\s+is\s+not\s+None\s+and\s+prev\._nesting\(\)\s*\+\s*1\s*>=\s*packet_base\.MAX_NESTING\s*:\s*return\s+raw\[offset:\]"),
               ("ipv4", "ipv4.parse", r"if\s+self\.frag\s*!=\s*0\s+or\s+self\._nesting\(\)\s*>=\s*self\.MAX_NESTING\s*:"),
               ("ipv6", "ipv6.parse", r"if\s+self\._nesting\(\)\s*>=\s*self\.MAX_NESTING\s*:\s*self\.next\s*=\s*raw\[offset:offset\+length\]"),
               ("gre", "gre.parse", r"ipv4\.ipv4\(raw=raw\[o:\],\s*prev=self\).*ethernet\(raw=raw\[o:\],\s*prev=self\)"),
               ("vxlan", "vxlan.parse", r"ethernet\(raw=raw\[vxlan\.MIN_LEN:\],\s*prev=self\)")],
        "K5": [("icmpv6", "NDNeighborSolicitation.unpack_new", r"if\s+buf_len\s*-\s*offset\s*<\s*(4\s*\+\s*16|20)\s*:\s*raise\s+TruncatedException"),
               ("icmpv6", "NDNeighborAdvertisement.unpack_new", r"if\s+buf_len\s*-\s*offset\s*<\s*(4\s*\+\s*16|20)\s*:\s*raise\s+TruncatedException")],
        "K6": [("icmpv6", "_parse_ndp_options", r"%\s*8\s*!=\s*0\s*:\s*raise\s+TruncatedException")],
        "K7": [("icmpv6", "NDOptionBase.unpack_new", r"if\s+l\s*==\s*0\s*:\s*raise\s+TruncatedException"),
               ("icmpv6", "NDOptionBase.unpack_new", r"LENGTH\s*!=\s*length_bytes\s*:\s*raise\s+TruncatedException")],
        "K8": [("icmpv6", "NDRouterAdvertisement.unpack_new", r"if\s+buf_len\s*-\s*offset\s*<\s*12\s*:\s*raise\s+TruncatedException"),
               ("icmpv6", "PacketTooBig.unpack_new", r"if\s+buf_len\s*-\s*offset\s*<\s*4\s*:")],
        "K9": [("ipv6", "NormalExtensionHeader.unpack_new", r"if\s+len\(raw\)\s*-\s*offset\s*<\s*2\s*:\s*raise\s+TruncatedException")],
        "K10": [("gre", "gre.parse", r"if\s+dlen\s*<\s*need\s*:"), ("gre", "gre.parse", r"if\s+dlen\s*<\s*o\s*\+\s*4\s*:")],
        "K13": [("igmp", "igmp.parse", r"if\s+len\(self\.extra\)\s*<\s*8\s*:")],
        "K14": [("igmp", "GroupRecord.unpack_new", r"if\s+len\(raw\)\s*-\s*offset\s*<\s*4\s*:\s*break")],
        "K16": [("dhcp", "dhcp.parse", r"self\.parsed\s*=\s*True\s*self\.options\s*=\s*util\.DirtyDict\(\)\s*if\s+self\.hlen\s*>\s*16")],
    }

    # result-changing repairs of other properties (fixes/C14_D46 … D50): the model has both settings (`Var`)
    VAR_MARKS = {
        "D46": [("dns", "dns._read_dns_name_from_index", r"chunk_size\s*=\s*l\[index\]")],
        "D48": [("ipv6", "ipv6.parse", r"if\s+length\s*>\s*len\(raw\)\s*-\s*offset\s*:"),
                ("ipv6", "FixedExtensionHeader.unpack_new", r"if\s+len\(raw\)\s*-\s*offset\s*<\s*cls\.LENGTH\s*:\s*raise\s+TruncatedException")],
        "D49": [("eap", "eap.parse", r"self\.next\s*=\s*raw\[self\.MIN_LEN:\].*self\.next\s*=\s*raw\[self\.MIN_LEN:\]")],
        "D50": [("rip", "RIPEntry.parse", r"struct\.unpack\(\s*[\"']!HHiiiI[\"']")],
    }

    def detect_fixes(self):
        """Which variant of the code is under test — decided by BEHAVIOUR: one probe frame per repair on which the two variants differ
        in something the run compares anyway (raises / does not, a layer parsed / not, an attribute).  The shape of the source is only a
        cross-check (evidence field variant_notes): a behaviour-preserving rewrite of a repaired function must not change the answer."""
        src_fix, src_var = self._detect_by_source()
        W = dict(self.WITNESSES); F = dict(self._frames)
        def parse(b):
            try: return self.ethernet(raw=bytes(b))
            except Exception: return None
        def raises(name): return parse(bytes.fromhex(W[name])) is None
        def layer(p, cls):
            n = 0
            while isinstance(p, self.packet_base) and n < 100:
                if type(p).__name__ == cls: return p
                p = p.next; n += 1
            return None
        def depth(p):
            n = 0
            while isinstance(p, self.packet_base) and n < 1000: n += 1; p = p.next
            return n
        fix, var = [], []
        try:
            nest = bytes(12) + b"\x81\x00" + b"\x00\x01\x81\x00" * 40 + b"ab"
            if depth(parse(nest)) == 32: fix.append("K1")
            if not raises("known_k5v") and not raises("known_k5i"): fix.append("K5")
            for k in ("k6", "k7", "k8", "k9", "k10", "k13", "k14"):
                if not raises("known_" + k): fix.append(k.upper())
            d = layer(parse(F["bootp"]), "dhcp")
            if d is not None and hasattr(d, "options"): fix.append("K16")
            d = layer(parse(F["dns-q-short"]), "dns")
            if d is not None and d.parsed: var.append("D46")
            d = layer(parse(F["ip6-hbh-frag"]), "ipv6")
            if d is not None and d.parsed: var.append("D48")
            d = layer(parse(F["eap-req-id"]), "eap")
            if d is not None and isinstance(d.next, bytes): var.append("D49")
            f = bytes(F["rip-resp"]); d = layer(parse(f[:-4] + b"\xff\xff\xff\xff"), "rip")
            if d is not None and d.entries and d.entries[-1].metric > 0: var.append("D50")
        except Exception as e:
            self.variant_notes.append("behaviour probes failed (%s: %s); using the source marks" % (type(e).__name__, e))
            fix, var = src_fix, src_var
        fix.sort(key=lambda k: int(k[1:])); var.sort()
        if (fix, var) != (src_fix, src_var):
            self.variant_notes.append("source marks say %s, behaviour says %s (behaviour is used)" % (src_fix + src_var, fix + var))
        self.vars = var
        return fix

    variant_notes = []

    def _detect_by_source(self):
        src = {}
        def body(mod, qual):
            path = os.path.join(self.pktdir, mod + ".py")
            if path not in src:
                try: src[path] = open(path).read().splitlines()
                except OSError: src[path] = []
            r = common.resolve_qualname(path, qual)
            if r is None: return ""
            # comments and line continuations out, whitespace collapsed: the marks are matched on the statements
            lines = [re.sub(r"#.*$", "", l).rstrip("\\") for l in src[path][r[0] - 1:r[1]]]
            return re.sub(r"\s+", " ", " ".join(lines))
        return (sorted((k for k, marks in self.FIX_MARKS.items() if all(re.search(rx, body(mod, qual)) for mod, qual, rx in marks)),
                       key=lambda k: int(k[1:])),
                sorted(k for k, marks in self.VAR_MARKS.items() if all(re.search(rx, body(mod, qual)) for mod, qual, rx in marks)))

    # ------------------------------------------------------------------ observing the real code
    def _where(self, e):
        """(parser module, innermost function in pox/lib) of the traceback; for RecursionError the module that recurses most"""
        tb = e.__traceback__; loc = None; mods = collections.Counter()
        while tb is not None:
            fn = tb.tb_frame.f_code.co_filename
            if fn.startswith(self.pktdir):                      # innermost function of the packet library (not addresses.py / util.py)
                mod = os.path.splitext(os.path.basename(fn))[0]
                loc = mod + "." + tb.tb_frame.f_code.co_qualname
                mods[mod] += 1
            tb = tb.tb_next
        if isinstance(e, RecursionError) and mods:
            return "nesting." + ("+".join(m for m, _ in mods.most_common(3) if m not in ("packet_base",)) or "packet_base")[:40]
        return loc or "?"

    def _exc(self, stage, e):
        if stage == "handler":
            # innermost function anywhere in pox/ (the handler itself, libopenflow's match / message code, or the packet library)
            tb = e.__traceback__; loc = "?"; root = os.path.join(common.REPO, "pox") + os.sep
            while tb is not None:
                fn = tb.tb_frame.f_code.co_filename
                if fn.startswith(root): loc = os.path.splitext(os.path.basename(fn))[0] + "." + tb.tb_frame.f_code.co_qualname
                tb = tb.tb_next
            return {"stage": stage, "exc": type(e).__name__, "where": loc}
        return {"stage": stage, "exc": type(e).__name__, "where": self._where(e)}

    @staticmethod
    def _hex(x):
        if x is None: return None
        if isinstance(x, (bytes, bytearray)): return bytes(x).hex()
        return "!" + type(x).__name__

    def _mac(self, x):
        try: return (x.toRaw() if hasattr(x, "toRaw") else bytes(x)).hex()
        except Exception: return "!" + type(x).__name__
    def _ip(self, x):
        try: return x.toUnsigned() if hasattr(x, "toUnsigned") else int(x)
        except Exception: return "!" + type(x).__name__

    def _opt(self, o):
        t = o.type
        if t in (0, 1, 4): return {"t": t}
        if t in (2, 3): return {"t": t, "v": o.val}
        if t == 5: return {"t": t, "v": [list(p) for p in o.val]}
        if t == 8: return {"t": t, "v": list(o.val)}
        return {"t": t, "v": self._hex(getattr(o, "val", None))}

    def _tlv(self, t):
        tt = t.tlv_type
        g = lambda a: getattr(t, a, None)
        if tt == 0: return {"t": 0}
        if tt in (1, 2): return {"t": tt, "subtype": g("subtype"), "id": self._hex(g("id"))}
        if tt == 3: return {"t": 3, "ttl": g("ttl")}
        if tt == 7: return {"t": 7, "caps": sum(1 << i for i in range(16) if t.caps[i]), "en": sum(1 << i for i in range(16) if t.enabled_caps[i])}
        if tt == 8: return {"t": 8, "ast": g("address_subtype"), "addr": self._hex(g("address")), "ins": g("interface_numbering_subtype"), "ifn": g("interface_number"),
                            "oid": self._hex(g("object_identifier"))}
        if tt == 127: return {"t": 127, "oui": self._hex(g("oui")), "subtype": g("subtype"), "payload": self._hex(g("payload"))}
        return {"t": tt, "payload": self._hex(g("payload"))}

    _lim = 1 << 20

    def _lst(self, seq, f):
        """[f(x) for x in seq] — unless seq has more elements than the frame has octets (state carried over from other frames: a list that
        grows with every frame parsed would be copied into the observables of every case): then a marker and the first four"""
        n = len(seq)
        if n <= self._lim: return [f(x) for x in seq]
        return ["!%d elements, the frame has %d octets" % (n, self._lim)] + [f(x) for x in itertools.islice(seq, 4)]

    def attrs(self, o):
        """attributes of one behaviour-modelled header object (everything its class serialises or prints)"""
        name = type(o).__name__
        if name == "ethernet": return {"dst": self._mac(o.dst), "src": self._mac(o.src), "type": o.type}
        if name == "vlan": return {"pcp": o.pcp, "cfi": o.cfi, "id": o.id, "eth_type": o.eth_type}
        if name == "llc": return {"dsap": o.dsap, "ssap": o.ssap, "control": o.control, "length": o.length, "oui": self._hex(o.oui), "eth_type": o.eth_type}
        if name == "arp": return {"hwtype": o.hwtype, "prototype": o.prototype, "hwlen": o.hwlen, "protolen": o.protolen, "opcode": o.opcode,
                                  "hwsrc": self._mac(o.hwsrc), "protosrc": self._ip(o.protosrc), "hwdst": self._mac(o.hwdst), "protodst": self._ip(o.protodst)}
        if name == "ipv4": return {"v": o.v, "hl": o.hl, "tos": o.tos, "iplen": o.iplen, "id": o.id, "flags": o.flags, "frag": o.frag, "ttl": o.ttl,
                                   "protocol": o.protocol, "csum": o.csum, "srcip": self._ip(o.srcip), "dstip": self._ip(o.dstip), "raw_options": self._hex(o.raw_options)}
        if name == "udp": return {"srcport": o.srcport, "dstport": o.dstport, "len": o.len, "csum": o.csum}
        if name == "tcp": return {"srcport": o.srcport, "dstport": o.dstport, "seq": o.seq, "ack": o.ack, "off": o.off, "res": o.res, "flags": o.flags,
                                  "win": o.win, "csum": o.csum, "urg": o.urg, "options": self._lst(o.options, self._opt)}
        if name == "icmp": return {"type": o.type, "code": o.code, "csum": o.csum}
        mod = type(o).__module__.rsplit(".", 1)[-1]
        if name == "echo" and mod == "icmp": return {"id": o.id, "seq": o.seq}
        if name == "unreach" and mod == "icmp": return {"unused": o.unused, "next_mtu": o.next_mtu}
        if name == "time_exceeded": return {"unused": o.unused}
        if name == "lldp": return {"tlvs": self._lst(o.tlvs, self._tlv)}
        g = lambda a: getattr(o, a, None)
        if name == "mpls": return {"label": o.label, "tc": o.tc, "s": o.s, "ttl": o.ttl}
        if name == "eapol": return {"version": o.version, "type": o.type, "bodylen": o.bodylen}
        if name == "eap": return {"code": o.code, "id": o.id, "length": o.length, "type": g("type")}
        if name == "vxlan": return {"vni": o.vni}
        if name == "rip": return {"command": o.command, "version": o.version,
                                  "entries": self._lst(o.entries, lambda e: [e.address_family, e.route_tag, self._ip(e.ip), self._ip(e.netmask), self._ip(e.next_hop), e.metric])}
        if name == "dns": return {"id": o.id, "qr": bool(o.qr), "opcode": o.opcode, "aa": bool(o.aa), "tc": bool(o.tc), "rd": bool(o.rd), "ra": bool(o.ra),
                                  "z": bool(o.z), "ad": bool(o.ad), "cd": bool(o.cd), "rcode": o.rcode,
                                  "questions": self._lst(o.questions, lambda q: [self._dn(q.name), q.qtype, q.qclass]), "answers": self._lst(o.answers, self._rr),
                                  "authorities": self._lst(o.authorities, self._rr), "additional": self._lst(o.additional, self._rr)}
        if name == "ipv6": return {"v": o.v, "tc": o.tc, "flow": o.flow, "payload_length": o.payload_length, "nh": o.next_header_type, "hop_limit": o.hop_limit,
                                   "srcip": o.srcip.raw.hex(), "dstip": o.dstip.raw.hex(),
                                   "ext": self._lst(o.extension_headers, lambda e: [getattr(e, "TYPE", None), e.next_header_type, self._hex(getattr(e, "raw_body", None))])}
        if name == "icmpv6": return {"type": o.type, "code": o.code, "csum": o.csum}
        if name == "echo": return {"id": o.id, "seq": o.seq}                   # icmpv6.echo (k = echo6)
        if name == "unreach": return {"unused": o.unused}                      # icmpv6.unreach (k = unreach6)
        if name == "TimeExceeded": return {}
        if name == "PacketTooBig": return {"mtu": o.mtu[0] if isinstance(o.mtu, tuple) else o.mtu}
        if name == "NDRouterSolicitation": return {"opts": self._ndo(o)}
        if name == "NDRouterAdvertisement": return {"hop_limit": o.hop_limit, "managed": bool(o.is_managed), "other": bool(o.is_other), "lifetime": o.lifetime,
                                                    "reachable": o.reachable, "retrans": o.__dict__.get("retrans_time", o.retrans_timer), "opts": self._ndo(o)}
        if name == "NDNeighborSolicitation": return {"target": o.target.raw.hex(), "opts": self._ndo(o)}
        if name == "NDNeighborAdvertisement": return {"router": bool(o.is_router), "solicited": bool(o.is_solicited), "override": bool(o.is_override),
                                                      "target": o.target.raw.hex(), "opts": self._ndo(o)}
        if name == "gre": return {"type": o.type, "ver": o.ver, "ssr": bool(o.strict_source_route), "recursion": o.recursion, "csum": o.csum, "route_offset": o.route_offset,
                                  "key": o.key, "seq": o.seq, "routing": None if o.routing is None else [[a, b, c, self._hex(d)] for a, b, c, d in o.routing]}
        if name == "igmp": return {"vt": o.ver_and_type, "mrt": o.max_response_time, "csum": o.csum, "addr": None if o.address is None else self._ip(o.address),
                                   "groups": self._lst(o.group_records, lambda r: [r.type, self._ip(r.address), [self._ip(a) for a in r.source_addresses], self._hex(r.aux)]),
                                   "extra": self._hex(o.extra)}
        if name == "dhcp":
            ch = o.chaddr
            opts = getattr(o, "options", None)
            return {"op": o.op, "htype": o.htype, "hlen": o.hlen, "hops": o.hops, "xid": o.xid, "secs": o.secs, "flags": o.flags, "ciaddr": self._ip(o.ciaddr),
                    "yiaddr": self._ip(o.yiaddr), "siaddr": self._ip(o.siaddr), "giaddr": self._ip(o.giaddr), "chaddr": None if ch is None else self._mac(ch),
                    "sname": self._hex(o.sname), "file": self._hex(o.file), "magic": self._hex(o.magic),
                    "options": None if opts is None else self._lst(opts.items(), lambda cv: [cv[0], self._dhcp_raw(cv[1])])}
        return {}

    @staticmethod
    def _dn(n):
        return n.encode().hex() if isinstance(n, str) else bytes(n).hex() if isinstance(n, (bytes, bytearray)) else "!" + type(n).__name__

    def _rr(self, r):
        d = r.rddata
        if isinstance(d, str): kind, rd = 1, d.encode().hex()
        elif isinstance(d, (bytes, bytearray)): kind, rd = 0, bytes(d).hex()
        elif hasattr(d, "raw"): kind, rd = 2, bytes(d.raw).hex()
        elif hasattr(d, "toRaw"): kind, rd = 2, d.toRaw().hex()
        else: kind, rd = -1, "!" + type(d).__name__
        return [self._dn(r.name), r.qtype, r.qclass, r.ttl, r.rdlen, kind, rd]

    def _dhcp_raw(self, v):
        """the option's bytes, recovered from the object `unpackOptions` made of them (raw / IP / IP list / seconds classes)"""
        try:
            if isinstance(v, (bytes, bytearray)): return bytes(v).hex()
            if hasattr(v, "data"): return bytes(v.data).hex()
            if hasattr(v, "addrs"): return b"".join(a.toRaw() for a in v.addrs).hex()
            if hasattr(v, "addr"): return v.addr.toRaw().hex()
            if hasattr(v, "seconds"): return struct.pack("!I", v.seconds).hex()
            if hasattr(v, "options"): return bytes(v.options).hex()          # DHCPParameterRequestOption (only an empty one unpacks, D45)
            if hasattr(v, "type"): return bytes([v.type]).hex()
            if hasattr(v, "value"): return bytes([v.value]).hex()
        except Exception as e:
            return "!" + type(e).__name__
        return "!" + type(v).__name__

    def _ndo(self, o):
        out = []
        if len(o.options) > self._lim: return ["!%d elements, the frame has %d octets" % (len(o.options), self._lim)]
        for x in o.options:
            n = type(x).__name__
            if n.endswith("LinkLayerAddress"): out.append({"t": x.TYPE, "addr": self._mac(x.address)})
            elif n == "NDOptMTU": out.append({"t": 5, "mtu": x.mtu})
            elif n == "NDOptPrefixInformation": out.append({"t": 3, "plen": x.prefix_length, "onlink": bool(x.on_link), "auto": bool(x.is_autonomous), "valid": x.valid_lifetime,
                                                            "pref": x.preferred_lifetime, "prefix": x.prefix.raw.hex()})
            else: out.append({"t": getattr(x, "TYPE", None), "raw": self._hex(getattr(x, "raw", None))})
        return out

    def _is_modelled(self, o):
        name = type(o).__name__; mod = type(o).__module__.rsplit(".", 1)[-1]
        if name not in MODELLED: return False
        if name == "tcp" and any(getattr(x, "type", None) == 30 for x in o.options): return False
        return True

    MAX_LAYERS = 70000        # more layers than a frame that fits a packet-in has octets

    def chain(self, o, frame, compact=False):
        """[layer, ..., terminal]; a layer = {"k": class, "parsed": bool, "raw": hex of the bytes the object was given, attrs...}.
        Stops (terminal {"k":"foreign"}) at the first object of an un-modelled class: the model hands over there.
        compact (long frames): byte strings as [length, digest]."""
        out = []; n = 0
        hx = (lambda x: digest(x) if isinstance(x, (bytes, bytearray)) else self._hex(x)) if compact else self._hex
        while isinstance(o, self.packet_base) and n < self.MAX_LAYERS:
            n += 1
            name = type(o).__name__
            if not self._is_modelled(o):
                r = getattr(o, "raw", None)
                out.append({"k": "foreign", "cls": "mptcp" if name == "tcp" else name,
                            "raw": hx(r), "parsed": bool(getattr(o, "parsed", False))})
                return out
            k = name + "6" if name in ("echo", "unreach") and type(o).__module__.endswith("icmpv6") else name
            L = {"k": k, "parsed": bool(o.parsed), "raw": hx(getattr(o, "raw", None))}
            if name in NO_RAW: del L["raw"]              # icmp.parse does not keep raw; the NDP classes keep a slice that depends on the options
            if o.parsed or name in ("lldp", "llc"):
                self._lim = max(64, len(frame))
                L.update(self.attrs(o))
            out.append(L)
            if not o.parsed:
                # an object whose parse gave up: what matters is that it keeps its bytes and has no next (pack() returns raw)
                out.append({"k": "none"} if o.next is None else {"k": "bytes", "data": hx(o.next)} if isinstance(o.next, bytes) else {"k": "object", "cls": type(o.next).__name__})
                return out
            o = o.next
        if o is None: out.append({"k": "none"})
        elif isinstance(o, bytes): out.append({"k": "bytes", "data": hx(o)})
        else: out.append({"k": "object", "cls": type(o).__name__})
        return out

    def skeleton(self, o):
        """(class, parsed) of every layer down to the terminal, all classes (used to compare PacketIn.parsed with the direct parse and by the oracle)"""
        out = []; n = 0
        while isinstance(o, self.packet_base) and n < self.MAX_LAYERS:
            n += 1
            r = getattr(o, "raw", None)
            pf = getattr(o, "parsed", "!missing")
            nx = getattr(o, "next", "!missing")
            out.append([type(o).__name__, pf if isinstance(pf, (bool, str)) else "!" + type(pf).__name__,
                        "none" if r is None else len(r) if isinstance(r, bytes) else "!" + type(r).__name__,
                        "none" if nx is None else "bytes" if isinstance(nx, bytes) else "obj" if isinstance(nx, self.packet_base) else "!" + type(nx).__name__])
            o = nx
        out.append(["none"] if o is None else ["bytes", len(o)] if isinstance(o, bytes) else ["!" + type(o).__name__])
        return out

    HDR_LEN = {"ethernet": 14, "vlan": 4, "arp": 28, "udp": 8, "echo": 4, "unreach": 4, "time_exceeded": 4, "mpls": 4, "eapol": 4, "vxlan": 8}

    def _slices_ok(self, o, frame):
        """'keeps the unparsed remainder as raw bytes', checked with the harness's own knowledge of the header sizes (no library code, no model):
        the top object holds the whole frame; every kept remainder is a contiguous slice of the frame; for the classes whose header length the
        harness knows, the bytes of the next layer (object or raw bytes) start right behind the header and run to the end of the object's bytes
        (IPv4: to its total-length field, clamped to the buffer)."""
        n = 0
        if getattr(o, "raw", None) != frame: return "the ethernet object does not keep the frame"
        while isinstance(o, self.packet_base) and n < self.MAX_LAYERS:
            n += 1
            r = getattr(o, "raw", None)
            if isinstance(r, bytes) and r not in frame: return "raw of %s is not a slice of the frame" % type(o).__name__
            nx = getattr(o, "next", None)
            name = type(o).__name__; mod = type(o).__module__.rsplit(".", 1)[-1]
            if isinstance(r, bytes) and getattr(o, "parsed", False) is True and nx is not None:
                hl = self.HDR_LEN.get(name)
                if name == "ipv4": hl = o.hl * 4
                elif name == "tcp" and mod == "tcp": hl = o.off * 4
                elif name == "llc": hl = o.length
                nb = nx if isinstance(nx, bytes) else getattr(nx, "raw", None)
                if hl is not None and isinstance(nb, bytes):
                    end = min(o.iplen, len(r)) if name == "ipv4" else len(r)
                    if r[hl:end] != nb:
                        return "%s: the bytes of the next layer are not raw[%d:%d] (%d bytes kept, %d expected)" % (name, hl, end, len(nb), max(0, end - hl))
            o = nx
        if isinstance(o, bytes) and o not in frame: return "terminal bytes are not a slice of the frame"
        return None

    def impl(self, case):
        if case.get("kind") == "optpass": return self.run_optpass(case)
        b = bytes.fromhex(case["hex"])
        obs = {"n": len(b)}
        try:
            p = self.ethernet(raw=b)
        except BaseException as e:
            if isinstance(e, (KeyboardInterrupt, SystemExit)): raise
            obs["parse_exc"] = self._exc("parse", e)
            p = None
        long = is_long(case)
        if p is not None:
            obs["chain"] = self.chain(p, b, long)
            obs["skel"] = self.skeleton(p)
            obs["slices"] = self._slices_ok(p, b)
            # the same parse result used again and again (HARDENING 1-2): str(), pack(), str() once more, dump(), pack() once more.
            # Every one must return, and re-serialising must give the same bytes (hdr() may fill in lengths / checksums, but only once).
            again = self._second_look(case)
            pk = (lambda: digest(p.pack())) if long else (lambda: p.pack().hex())
            # … and what a handler does with it besides: len() (packet_base.__len__ is len(pack())) and find() — of a class that is not in the
            # chain (walks to the end) and of the class of the innermost header (returns it)
            def find():
                inner = None; q = p; n = 0
                while isinstance(q, self.packet_base) and n < self.MAX_LAYERS: inner = q; q = q.next; n += 1
                p.find("no_such_header"); p.find(type(inner)); p.find(type(inner).__name__)
                return "ok"
            for stage, key, f in (("str", "str0", lambda: (str(p), "ok")[1]), ("pack", "pack", pk), ("str", "str", lambda: (str(p), "ok")[1]),
                                  ("dump", "dump", lambda: (p.dump(), "ok")[1]), ("pack", "pack2", pk), ("len", "len", lambda: len(p)), ("find", "find", find)):
                if not again and key in ("str0", "pack2", "len", "find"):
                    if key in ("str0", "pack2"): obs[key] = "ok" if key == "str0" else obs["pack"]
                    continue
                try:
                    obs[key] = f()
                except BaseException as e:
                    if isinstance(e, (KeyboardInterrupt, SystemExit)): raise
                    obs[key] = self._exc(stage, e)
            if isinstance(obs["str0"], dict) and not isinstance(obs["str"], dict): obs["str"] = obs["str0"]      # report the first failure of str()
            if obs["pack2"] == obs["pack"] or isinstance(obs["pack"], dict): del obs["pack2"]                    # kept only when it differs
            del obs["str0"]
        # the path every handler takes: PacketIn.parsed on an ofp_packet_in carrying the frame (the same constructor call once more:
        # done for the fixed corpus and one generated case in eight)
        if not self._second_look(case): return obs
        try:
            # another frame goes through the same process in between (HARDENING 1): nothing of it may show up in this frame's second parse
            self._disturb(b)
            ev = self.PacketIn(self.con, self.ofp_packet_in(data=b, in_port=1))
            q = ev.parsed
            obs["pktin"] = self.skeleton(q)
            obs["pktin_same_object"] = ev.parsed is q
            if p is not None and not self._same_upto_cutoff(self.chain(q, b, long), obs["chain"]): obs["reparse_differs"] = True
        except BaseException as e:
            if isinstance(e, (KeyboardInterrupt, SystemExit)): raise
            obs["pktin"] = self._exc("packet_in", e)
        if self._with_handlers(case) and not isinstance(obs["pktin"], dict):
            obs["handlers"] = self.handlers(b)
        return obs

    @classmethod
    def _same_upto_cutoff(cls, a, b):
        """two parses of the same bytes (skeletons or chains: [layer, …, terminal]) are the same — except that, hundreds of layers down a
        label stack, where the interpreter ran out of stack depends on how deep the CALLER was (PacketIn.parsed sits two frames deeper than
        a direct call): there the two must agree on every layer both have, and the shorter one must end in kept bytes"""
        if a == b: return True
        m = min(len(a), len(b)) - 1
        if m < cls.CUTOFF_MIN: return False
        def layer(L): return L[:3] if isinstance(L, list) else L          # a skeleton entry's 4th field is the kind of `next`
        short = a if len(a) <= len(b) else b
        term = short[-1]
        return [layer(L) for L in a[:m]] == [layer(L) for L in b[:m]] and (term[0] == "bytes" if isinstance(term, list) else term.get("k") == "bytes")

    @staticmethod
    def _second_look(case):
        """the repeated str()/pack() and the second parse (PacketIn.parsed, after another frame) are done for the fixed corpus and one generated
        case in eight"""
        how = case.get("how", "")
        return not how.startswith(("key", "set", "marks", "splice", "indel", "random", "nest")) or int(case["hex"][-2:] or "0", 16) % 8 == 3

    def _disturb(self, b):
        """parse a different frame — one rich in lists / options / records of the kind a shared default or a class-level cache would leak"""
        ds = self._disturbers
        d = ds[(len(b) + (b[-1] if b else 0)) % len(ds)]
        if d == b: d = ds[(ds.index(d) + 1) % len(ds)]
        try: self.ethernet(raw=d)
        except Exception: pass

    @staticmethod
    def _with_handlers(case):
        """the handler oracle runs on every valid frame and witness, every truncation up to 64 bytes and every other longer one, a quarter of the
        TCP-tail family and one generated case in sixteen (it costs as much as everything else together).  All of these have `pktin`."""
        how = case.get("how", ""); h = int(case["hex"][-2:] or "0", 16)
        if how.startswith(("valid", "witness", "long")): return True
        if how.startswith("trunc"): return h % 2 == 1 or len(case["hex"]) <= 2 * 64        # every short prefix, every other long one
        if how.startswith("tcp-tail"): return h % 4 == 3
        return h % 16 == 3

    def handlers(self, b):
        """Real PacketIn events for the frame into the handlers of a stock controller: `l2_learning.LearningSwitch._handle_PacketIn` (plain and
        transparent; the destination is made known on another port first, so that the flow-install path with `ofp_match.from_packet` runs as well
        as the flood / drop paths of the first call) and `discovery.Discovery._handle_openflow_PacketIn`.  {handler: exception} — empty when all return."""
        out = {}
        def run(name, f):
            try: f()
            except BaseException as e:
                if isinstance(e, (KeyboardInterrupt, SystemExit)): raise
                out[name] = self._exc("handler", e)
        for name, transparent in (("l2_learning", False), ("l2_learning_transparent", True)):
            def f():
                con = _StubCon()
                ls = self.l2.LearningSwitch(con, transparent)
                pi = self.ofp_packet_in(data=b, in_port=3); pi.buffer_id = None
                ls._handle_PacketIn(self.PacketIn(con, pi))                       # unknown destination: learn, flood / drop
                pi2 = self.ofp_packet_in(data=b, in_port=3); pi2.buffer_id = 7
                ev = self.PacketIn(con, pi2)
                ls.macToPort[ev.parsed.dst] = 9                                   # known destination on another port: install a flow
                ls._handle_PacketIn(ev)
            run(name, f)
        def g():
            conns = self.core.openflow._connections
            class AllKnown(type(conns)):
                def __contains__(s, item): return True
            self.core.openflow._connections = AllKnown()
            try:
                con = _StubCon(0xfffffffffffe)
                pi = self.ofp_packet_in(data=b, in_port=0xfffd); pi.buffer_id = None
                self.D._handle_openflow_PacketIn(self.PacketIn(con, pi))
            finally:
                self.core.openflow._connections = conns
                self.D.adjacency.clear()
        run("discovery", g)
        return out

    # ------------------------------------------------------------------ the property on the implementation's observables
    def oracle(self, case, obs):
        if case.get("kind") == "optpass":
            if obs.get("infra"): return None                      # the second interpreter could not be run: said in the evidence, not a verdict
            fs = obs.get("failures") or []
            return None if not fs else "under python -O (assert statements compiled out) frame %s: %s" % (fs[0]["hex"][:120], fs[0]["failure"])
        if "parse_exc" in obs:
            x = obs["parse_exc"]; return "ethernet(raw) raises %s in %s" % (x["exc"], x["where"])
        if isinstance(obs.get("pktin"), dict):
            x = obs["pktin"]; return "PacketIn.parsed raises %s in %s" % (x["exc"], x["where"])
        sk = obs["skel"]
        for L in sk[:-1]:
            if not isinstance(L[1], bool): return "progress: %s.parsed is not a bool (%s)" % (L[0], L[1])
            if L[1] is False and L[0] != "icmp" and (L[2] == "none" or L[3] != "none"):
                return "progress: unparsed %s does not keep its bytes (raw %s, next %s)" % (L[0], L[2], L[3])
            if isinstance(L[2], str) and L[2] != "none" or isinstance(L[3], str) and L[3].startswith("!"):
                return "progress: %s has raw/next of type %s/%s" % (L[0], L[2], L[3])
        if sk[-1][0] not in ("none", "bytes"): return "progress: chain ends in %s" % sk[-1][0]
        if obs["slices"]: return "progress: " + obs["slices"]
        if "pktin" in obs:
            if not self._same_upto_cutoff(obs["pktin"], sk): return "PacketIn.parsed differs from ethernet(raw): %s vs %s" % (obs["pktin"][:3], sk[:3])
            if obs.get("reparse_differs"): return "progress: parsing the same bytes again (after another frame) gives a different result"
            if not obs.get("pktin_same_object"): return "PacketIn.parsed re-parses on every access"
        for name, x in sorted(obs.get("handlers", {}).items()):
            return "handler %s raises %s in %s" % (name, x["exc"], x["where"])
        # pack / str / dump.  One registered finding must not hide another failure of the same frame; and a frame whose only failures are
        # registered pack()/print findings is NOT reported as failing here: the runner skips the model comparison for failing cases, and the
        # parse chain of those frames (every parsed DHCP, NDP, GRE-with-routing frame) must still be compared with the model.  Those
        # findings are counted in `soft_known` and printed as KNOWN-FINDING lines by extra_evidence().
        if "pack2" in obs:
            if isinstance(obs["pack2"], dict):
                x = obs["pack2"]; return "pack() of the parse result raises %s in %s when called again" % (x["exc"], x["where"])
            return "progress: pack() of the same parse result gives different bytes the second time"
        fails = ["%s() of the parse result raises %s in %s" % (stage, obs[stage]["exc"], obs[stage]["where"])
                 for stage in ("pack", "str", "dump") if isinstance(obs[stage], dict)]
        # len() is len(pack()): a failure of its own only where pack() returned; find() walks the chain
        fails += ["%s() of the parse result raises %s in %s" % (stage, obs[stage]["exc"], obs[stage]["where"])
                  for stage in ("len", "find") if isinstance(obs.get(stage), dict) and not (stage == "len" and isinstance(obs["pack"], dict))]
        for f in fails:
            k = self._finding_key(case, obs, f)
            kf = self._known.match(self.id, k)
            if kf is None: return f
            self.soft_known.setdefault(kf["id"], kf)
            self.keys_seen[k] = self.keys_seen.get(k, 0) + 1
        return None

    soft_known = {}

    def finding_key(self, case, obs, failure):
        k = self._finding_key(case, obs, failure)
        self.keys_seen[k] = self.keys_seen.get(k, 0) + 1
        return k

    keys_seen = {}

    @staticmethod
    def _dhcp_pad_overflow(case):
        """is the frame Ethernet / IPv4 (no options needed) / UDP / DHCP whose IPv4 total length, plus one PAD octet for every option of odd
        length (what packOptions adds when the message is serialised again), no longer fits 16 bits?  Read off the frame's own bytes."""
        try:
            b = bytes.fromhex(case["hex"])
            if b[12:14] != b"\x08\x00" or b[14] >> 4 != 4 or b[23] != 17: return False
            ihl = (b[14] & 15) * 4; tot = (b[16] << 8) | b[17]
            u = 14 + ihl
            if not ({(b[u] << 8) | b[u + 1], (b[u + 2] << 8) | b[u + 3]} & {67, 68}): return False
            o = u + 8 + 240; pads = 0
            if b[o - 4:o] != b"\x63\x82\x53\x63": return False
            while o < len(b) and b[o] != 255:
                if b[o] == 0: o += 1; continue
                if o + 1 >= len(b): break
                n = b[o + 1]; pads += (2 + n) & 1; o += 2 + n
            return tot + pads > 65535
        except Exception:
            return False

    def _finding_key(self, case, obs, failure):
        if case.get("kind") == "optpass":
            fs = obs.get("failures") or [{"key": "?"}]
            return "python-O:" + fs[0]["key"]
        if failure.startswith("ethernet(raw) raises"):
            x = obs["parse_exc"]; return "parse:%s:%s" % (x["where"], x["exc"])
        if failure.startswith("PacketIn.parsed raises"):
            x = obs["pktin"]; return "packet_in:%s:%s" % (x["where"], x["exc"])
        m = re.match(r"(pack|str|dump|len|find)\(\) of the parse result raises", failure)
        if m:
            x = obs["pack2" if failure.endswith("when called again") else m.group(1)]
            st = "print" if m.group(1) in ("str", "dump") else m.group(1)
            if st == "pack" and x["exc"] == "error" and x["where"].startswith("ipv4.") and self._dhcp_pad_overflow(case):
                return "pack:dhcp:pad-octets-push-ipv4-total-length-past-65535"
            return "%s:%s:%s" % (st, x["where"], x["exc"])
        m = re.match(r"handler (\w+) raises", failure)
        if m:
            x = obs["handlers"][m.group(1)]; return "handler:%s:%s:%s" % (m.group(1), x["where"], x["exc"])
        if failure.startswith("progress:"):
            return "progress:" + re.sub(r"\d+", "N", failure[len("progress: "):])[:60]
        return failure[:60]

    def nontrivial(self, case, obs):
        if case.get("kind") == "optpass": return False
        return "skel" in obs and len(obs["skel"]) >= 3 and obs["skel"][0][1] is True

    def shrink_candidates(self, case):
        if case.get("kind") == "optpass": return
        b = bytes.fromhex(case["hex"])
        n = len(b)
        if n > LONG:
            # coarse steps only: what fails on a long frame usually depends on how much stack the caller has left, and a witness shrunk to
            # the last octet that still fails here would not fail one frame higher up (the replay)
            for k in (n // 2, n - n // 4, n - n // 8):
                yield frame_case(b[:k], "shrunk")
            return
        for k in (n // 2, n - 16, n - 4, n - 1):
            if 0 <= k < n: yield frame_case(b[:k], "shrunk")
        # zero trailing bytes one at a time (keeps lengths, simplifies the witness)
        for i in range(n - 1, max(n - 40, 13), -1):
            if b[i] != 0: yield frame_case(b[:i] + b"\0" + b[i + 1:], "shrunk")

    # ------------------------------------------------------------------ model side
    def model_request(self, case):
        if case.get("kind") == "optpass": return None
        # the phase-1 model (`Cfg.core`) is asked as well for the fixed corpus and one generated case in eight
        how = case.get("how", "")
        if is_long(case): return None                     # asked by model_request2
        core = not how.startswith(("key", "set", "marks", "splice", "indel", "random", "nest")) or int(case["hex"][-2:] or "0", 16) % 16 == 0
        return {"op": "parse", "cfg": "repaired", "raw": case["hex"], "core": core, "fix": self.fixes, "var": self.vars}

    CUTOFF_MIN = 250      # layers.  CPython's default limit (1000 frames) less what the caller uses, at 2-3 frames per nested constructor

    def run_optpass(self, case):
        """The property does not depend on assert statements being live: the fixed corpus and the first `n` generated frames are put through
        the same implementation run and the same oracle in a SECOND interpreter started with -O (asserts compiled out, __debug__ False).
        Failures whose key is an open known finding are left to the main pass."""
        import subprocess, json as _json
        script = ("import sys, json, random\n"
                  "sys.path.insert(0, %r)\n"
                  "import common, c15\n"
                  "assert not __debug__ or True\n"
                  "chk = c15.CHECK(); chk.setup()\n"
                  "known = set(%r)\n"
                  "out, ran = [], 0\n"
                  "def cases():\n"
                  "    for c in chk.corpus():\n"
                  "        if c.get('kind', 'frame') == 'frame': yield c\n"
                  "    k = 0\n"
                  "    for c in chk.generate(random.Random(%d), 'quick'):\n"
                  "        if k >= %d: break\n"
                  "        k += 1\n"
                  "        if c.get('kind', 'frame') == 'frame': yield c\n"
                  "for c in cases():\n"
                  "    if len(c['hex']) > 2 * c15.LONG: continue\n"
                  "    ran += 1\n"
                  "    obs = chk.impl(c); f = chk.oracle(c, obs)\n"
                  "    if f is None: continue\n"
                  "    key = chk._finding_key(c, obs, f)\n"
                  "    if key in known: continue\n"
                  "    out.append({'hex': c['hex'], 'how': c.get('how'), 'failure': f, 'key': key})\n"
                  "    if len(out) >= 5: break\n"
                  "print('OPTPASS ' + json.dumps({'optimized': not __debug__, 'ran': ran, 'failures': out}))\n"
                  ) % (os.path.dirname(os.path.abspath(__file__)), sorted(self.open_finding_keys()), case.get("seed", 1), case.get("n", 3000))
        try:
            r = subprocess.run([sys.executable, "-O", "-c", script], stdout=subprocess.PIPE, stderr=subprocess.PIPE, text=True, timeout=600,
                               env=dict(os.environ, PYTHONOPTIMIZE="1"))
            line = [l for l in r.stdout.splitlines() if l.startswith("OPTPASS ")]
            if r.returncode != 0 or not line: return {"infra": "rc %d: %s" % (r.returncode, (r.stderr or r.stdout)[-300:])}
            res = _json.loads(line[-1][8:])
            if not res.get("optimized"): return {"infra": "the second interpreter did not run optimized"}
            self.optpass = {"ran": res["ran"], "failures": len(res["failures"])}
            return res
        except Exception as e:
            return {"infra": "%s: %s" % (type(e).__name__, e)}

    def open_finding_keys(self):
        try:
            k = json.load(open(os.path.join(common.VERIF, "known_findings.json")))
            return [f["key"] for f in k.get("findings", []) if f.get("property") == "C15"]
        except Exception:
            return []

    def model_request2(self, case, obs):
        if case.get("kind") == "optpass": return None
        """Long frames: compact answers, and the one thing the model leaves abstract is read off the implementation's result — how many nested
        constructor activations the interpreter had room for.  An MPLS label stack is parsed by one nested constructor per entry, outside the
        nesting guard; when the interpreter runs out of stack the bare except in mpls.parse keeps the rest as bytes (mpls.py "Recursion depth?").
        Where the observed chain ends like that — a parsed entry without the bottom-of-stack bit, at least one more entry's worth of octets
        kept as bytes, hundreds of layers down — the model is given that number of activations (`d`); everything else (every field of every
        layer, the bytes kept, pack(), len(), str()) is the model's own.  case["model"] == False: the model's list walkers are quadratic, the
        longest option / record / header lists are oracle-only."""
        if not is_long(case) or case.get("model") is False or "skel" not in obs: return None
        req = {"op": "parse", "cfg": "repaired", "raw": case["hex"], "core": False, "compact": True, "fix": self.fixes, "var": self.vars}
        sk = obs["skel"]; ch = obs["chain"]
        if len(sk) - 1 >= self.CUTOFF_MIN and sk[-2][0] == "mpls" and sk[-2][1] is True and sk[-1][0] == "bytes" and sk[-1][1] >= 4 \
                and len(ch) == len(sk) and ch[-2].get("s") == 0:
            req["d"] = len(sk) - 1
        return req

    @staticmethod
    def _mview(resp):
        if "error" in resp: return resp
        if resp.get("known") == "K14": return {"declined": "K14"}
        if "exc" in resp: return {"exc": resp["exc"]}
        out = {"chain": resp["chain"]}
        if resp.get("pack") is not None:                                   # null = outside the pack model (a phase-2 class, MPTCP)
            out["pack"] = resp["pack"]
            pk = resp["pack"]                                              # hex, [length, digest] (compact answers) or {"exc":…}
            out["len"] = len(pk) // 2 if isinstance(pk, str) else pk[0] if isinstance(pk, list) else pk
        if resp.get("print") is not None: out["print"] = resp["print"]     # null = outside the print model (MPTCP)
        return out

    def model_obs(self, case, resp):
        """two answers: the full model (phase-2 parsers modelled) and the phase-1 model `Cfg.core` in which they are foreign layers"""
        self._last_model = resp
        if "error" in resp: return resp
        return {"ext": self._mview(resp), "core": self._mview(resp["core"]) if "core" in resp else None}

    def _iview(self, obs, m):
        """what must equal one model answer `m`.  Where that model's chain ends in `foreign cls bytes` the implementation's chain is cut
        at the same place: the layer there must be an object of that class built from those bytes — or, for igmp / gre / a TCP segment with
        an MPTCP option, those same bytes (ipv4.parse replaces a payload object whose parse gave up by the bytes, ipv4.py:172-173).
        Where the model declines (K14: IPAddr of a short slice is libc's text parse) nothing is compared."""
        if m.get("known") == "K14" and "parse_exc" not in obs: return {"declined": "K14"}
        if "parse_exc" in obs: return {"exc": obs["parse_exc"]["exc"]}
        ch = [dict(L) for L in obs["chain"]]
        mch = m.get("chain") or []
        if mch and mch[-1].get("k") == "foreign":
            i = len(mch) - 1
            want = mch[-1]
            if i < len(ch):
                got = ch[i]
                gotcls = {"echo6": "echo", "unreach6": "unreach"}.get(got.get("k"), got.get("k"))
                if got.get("k") == "foreign" and got.get("cls") == want["cls"] and got.get("raw") == want["raw"]:
                    ch = ch[:i] + [want]
                elif gotcls == want["cls"] and got.get("raw") == want["raw"]:
                    ch = ch[:i] + [want]                 # an object of a class this model leaves foreign, built from those bytes
                elif want["cls"] in ("igmp", "gre", "mptcp") and got.get("k") == "bytes" and got.get("data") == want["raw"]:
                    ch = ch[:i] + [want]
        for L in ch:
            if L.get("k") == "foreign": L.pop("parsed", None)
        out = {"chain": ch}
        # pack / print are compared where the model has them: pack() for chains of phase-1 classes, str()/dump() for every chain
        # without an MPTCP layer
        if m.get("pack") is not None:
            pk = obs["pack"]
            out["pack"] = pk if not isinstance(pk, dict) else {"exc": pk["exc"]}
            # len() where it was taken (fixed corpus, long frames, one generated case in eight), else the length of what pack() returned
            ln = obs.get("len", len(pk) // 2 if isinstance(pk, str) else pk[0] if isinstance(pk, list) else pk)
            out["len"] = ln if not isinstance(ln, dict) else {"exc": ln["exc"]}
        if m.get("print") is not None:
            bad = [obs[k] for k in ("str", "dump") if isinstance(obs[k], dict)]
            out["print"] = {"exc": bad[0]["exc"]} if bad else "ok"
        return out

    def impl_view(self, case, obs):
        m = getattr(self, "_last_model", None) or {}
        if "error" in m: return None
        return {"ext": self._iview(obs, m), "core": self._iview(obs, m["core"]) if "core" in m else None}

    # ------------------------------------------------------------------ generators
    WITNESSES = [   # the witnesses of the `…_defect` theorems of Properties/C15.lean (same bytes), then minimised past failures
        ("lldp_d14_defect", "0180c200000e02a1b2c3d4e588cc02070402a1b2c3d4e5040202370602"),
        ("lldp_tlv_malformed_defect", "0180c200000e02a1b2c3d4e588cc02070402a1b2c3d4e50402023706030078000000"),
        ("llc_print_defect", "66778899aabb02a1b2c3d4e50026"),
        ("lldp_print_defect", "0180c200000e02a1b2c3d4e588cc02080402a1b2c3d4e50004020237060200780000"),
        ("tcp_repack_defect", "66778899aabb02a1b2c3d4e50800450000521234400040065bc50a010203c0a8000103e8005001020304fffefdfc6018200000000000632a00000000000000000000000000000000000000000000000000000000000000000000000000000000"),
        ("known_k9", "66778899aabb02a1b2c3d4e586dd61234567002b0040fe80000000000000020000fffe000001ff0200000000000000000001ff000002"),
        ("known_k10", "66778899aabb02a1b2c3d4e508004500003a12344000402f5bb40a010203c0a80001b0000800"),
        ("known_k13", "66778899aabb02a1b2c3d4e50800450000381234400001029ae30a010203c0a800012200260000000002"),
        ("known_k14", "66778899aabb02a1b2c3d4e50800450000381234400001029ae30a010203c0a80001220026000000000204000000e000011601010002e1020304"),
        ("known_k8", "66778899aabb02a1b2c3d4e586dd6123456700483a40fe80000000000000020000fffe000001ff0200000000000000000001ff00000286003c3740"),
        ("known_k5v", "66778899aabb02a1b2c3d4e586dd6123456700203a40fe80000000000000020000fffe000001ff0200000000000000000001ff00000287007b3700"),
        ("known_k5i", "66778899aabb02a1b2c3d4e586dd6123456700203a40fe80000000000000020000fffe000001ff0200000000000000000001ff00000288007a38"),
        ("known_k6", "66778899aabb02a1b2c3d4e586dd6123456700103a40fe80000000000000020000fffe000001ff0200000000000000000001ff00000285007a3000000000010102"),
        ("known_k7", "66778899aabb02a1b2c3d4e586dd6123456700103a40fe80000000000000020000fffe000001ff0200000000000000000001ff0000028500efe000000000030102a1b2c3d4e5"),
        ("eap-no-type", "66778899aabb02a1b2c3d4e5888e0100000401050004"),
        ("eap-unknown-type", "66778899aabb02a1b2c3d4e5888e010000050105000550"),
    ]

    CSUM_HDR = {"igmp": 12, "ip6-": 8}      # header bytes of a checksum-verified message that get every value with the checksum repaired
    # frames whose innermost header repeats, field for field, that of another corpus frame which gets the full sweep (their keys stay in the
    # sliced sweep): the other DNS headers (dns-query, dns-empty are swept), DHCP fixed parts (dhcp-discover, bootp), the long LLDPDU (lldp-discovery)
    # … and the rare-value / variant-probe frames, whose headers are those of other frames with particular field values
    SLICED_PREFIX = ("zero-", "eth-type-", "rip-metric-bounds", "igmp-high-addr", "lldp-full-pox", "lldp-discovery-pox", "dhcp-text-nonascii", "ip6-plen-over-",
                     "ip6-hbh-frag-frag", "ip6-hbh-frag-end", "dhcp-long-256", "dhcp-long-510", "dhcp-long-511", "dhcp-long-600",
                     "dns-ptr-mid", "dns-ptr-fwd", "dns-label-bits", "dns-name-past-end", "dns-rr-rdata-ptr-loop", "dns-empty", "dhcp-long-300",
                     "ip6-ra-m", "ip6-ra-o", "ip6-na-r", "ip6-na-s", "ip6-na-o")          # one-flag variants of ip6-ra / ip6-na
    SLICED_INNER = ("dns-resp", "mdns", "dhcp-offer", "dhcp-overload", "dhcp-hlen16", "lldp-full", "rarp-pad", "snap-arp", "snap2-ab-arp", "qinq-arp")

    def tcp_tail_cases(self):
        """payload-less TCP segments (IPv4 total length ends at the TCP header) whose LAST option starts in the last 1..4 header bytes:
        every option kind the parser knows (EOL, NOP, MSS, WS, SACK-permitted, SACK, TS, MPTCP with every subtype nibble, an unknown kind),
        every short length octet, NOP filler in front; header lengths 24 and 28, and the same with one payload byte behind the header."""
        kinds = (0, 1, 2, 3, 4, 5, 8, 30, 99)
        for hdr in (24, 28):
            for start in (1, 2, 3, 4):                       # the option starts `start` bytes before the end of the header
                room = hdr - 20
                for kind in kinds:
                    lens = (None,) if start == 1 else (0, 1, 2, 3, 4, 5, 10, 12, 20, 255)
                    for ln in lens:
                        tails = [b""]
                        if start >= 3:
                            tails = [bytes([x]) + bytes(start - 3) for x in ((0x00, 0x08, 0x10, 0x20, 0x30, 0x40, 0x50, 0x60, 0x70, 0xf0) if kind == 30 else (0x00,))]
                        for tail in tails:
                            opt = bytes([kind]) + (b"" if ln is None else bytes([ln])) + tail
                            opt = opt[:start].ljust(start, b"\0")
                            opts = b"\x01" * (room - start) + opt
                            for payload in (b"", b"X"):
                                f = FR.eth(0x0800, FR.ip4(6, FR.tcp(1000, 80, payload, opts=opts, flags=0x10, off=hdr // 4)))
                                yield frame_case(f, "tcp-tail hdr%d start%d kind%d len%s %s" % (hdr, start, kind, ln, tail.hex()))

    def corpus(self):
        cases = []
        for name, hx in self.WITNESSES:
            if hx is not None: cases.append(frame_case(bytes.fromhex(hx), "witness " + name))
        # nesting_defect: Ethernet + n 802.1Q tags each announcing another tag (14 + 4n bytes), n at and around CPython's limit
        for n in (3, 100, 340, 374):
            cases.append(frame_case(bytes(12) + b"\x81\x00" + b"\x00\x01\x81\x00" * n, "witness nesting_defect %d" % n))
        for name, f in self._frames:
            cases.append(frame_case(f, "valid " + name))
        for name, f in self._frames:
            long_opts = name.startswith(("dhcp-long-", "dhcp-two-long", "dhcp-opt-lens"))     # hundreds of option-value octets: every 13th cut inside them
            for n in range(len(f)):
                if long_opts and n > 300 and n % 13 and n < len(f) - 4: continue
                cases.append(frame_case(f[:n], "trunc %s %d" % (name, n)))
                h = FR.fix_checksums(f[:n])
                if h != f[:n] and (name.startswith("ip6-") and n > 58 or name.startswith("igmp")):
                    cases.append(frame_case(h, "trunc+csum %s %d" % (name, n)))
        seen = set(c["hex"] for c in cases)
        for c in itertools.chain(self.tcp_tail_cases(), self.dhcp_code_cases(), self.nd_option_cases(), self.mptcp_cases()):
            if c["hex"] not in seen:
                seen.add(c["hex"]); cases.append(c)
        cases.append({"kind": "optpass", "n": 3000, "seed": 1, "how": "python -O pass"})
        return cases

    def _csum_family(self, name):
        return name.startswith("igmp") or name.startswith("icmp-") or (name.startswith("ip6-") and self._l4off.get(name) is not None)

    def nd_option_cases(self):
        """ICMPv6 neighbour discovery, directed (HARDENING 6: the option walker is only reached with a CORRECT ICMPv6 checksum, and an option
        whose Length grows only `fits` when the bytes behind it exist — no single-byte mutation or truncation of a valid frame gets there):
        every ND message kind (RS, RA, NS, NA) x every option type the code knows (1, 2 link-layer address, 3 prefix information, 5 MTU) and an
        unknown one (14) x Length 0..4 x the option fits / the buffer ends 3 octets early / a whole 8 octets early, alone, behind a valid
        option and in front of one; checksum computed over the final message."""
        fixed = {133: bytes(4), 134: bytes([64, 0xc0]) + struct.pack("!HII", 1800, 0, 0), 135: bytes(4) + FR.IP6_A, 136: b"\x60\0\0\0" + FR.IP6_A}
        good = bytes([1, 1]) + FR.MAC_A
        for kind, fx in fixed.items():
            for t in (1, 2, 3, 5, 14):
                for L in range(5):
                    full = bytes([t, L]) + bytes((7 * i + t) & 0xff for i in range(max(L, 1) * 8 - 2))
                    shapes = [("fits", full), ("fits+opt", full + good), ("short3", full[:-3])]
                    if L >= 2: shapes.append(("short8", full[:-8]))
                    for pre in (b"", good):
                        for nm, opt in shapes:
                            f = FR.eth(0x86dd, FR.ip6(58, FR.icmp6(kind, 0, fx + pre + opt)))
                            yield frame_case(f, "ndopt %d t%d L%d %s%s" % (kind, t, L, nm, "+pre" if pre else ""))

    def mptcp_cases(self):
        """TCP segments carrying the MPTCP option (kind 30), directed: every subtype nibble 0..15 x every option length 3..40 x a few values of
        the octet behind the subtype (flags / address id), the DSS subtype with ALL 256 flag octets at the length those flags call for (and one
        octet off), and option areas filled to the brim (40 octets) with repeated options — what parses must print and re-serialise."""
        def seg(opts, payload=b"data"):
            opts = opts + b"\x01" * ((-len(opts)) % 4)
            return FR.eth(0x0800, FR.ip4(6, FR.tcp(1000, 80, payload, opts=opts)))
        for st in range(16):
            for ln in range(3, 41):
                for b3 in ((0x00, 0x01, 0x81, 0xff) if ln >= 4 else (0,)):
                    body = bytes([30, ln, st << 4]) + (bytes([b3]) + bytes((5 * i + st) & 0xff for i in range(ln - 4)) if ln >= 4 else b"")
                    yield frame_case(seg(body), "mptcp st%d len%d b3=%02x" % (st, ln, b3))
        for flags in range(256):
            al = 0 if not flags & 1 else (8 if flags & 2 else 4); dl = 0 if not flags & 4 else (8 if flags & 8 else 4)
            good = 4 + al + dl + (8 if flags & 4 else 0)
            for ln in (good, good + 1, good - 1):
                if 4 <= ln <= 40:
                    body = bytes([30, ln, 0x20, flags]) + bytes((3 * i + 1) & 0xff for i in range(ln - 4))
                    yield frame_case(seg(body), "mptcp dss flags=%02x len%d" % (flags, ln))
        for st in (0, 2, 3, 8, 9, 15):
            for ln in (4, 5, 8, 10, 20, 40):
                one = bytes([30, ln, st << 4]) + bytes(ln - 3)
                n = 40 // ln
                for k in sorted(x for x in {1, 2, n - 1, n} if 1 <= x <= n):
                    yield frame_case(seg(one * k + b"\x01" * (40 - ln * n if k == n else 0)), "mptcp fill st%d len%d x%d" % (st, ln, k))

    def dhcp_code_cases(self):
        """every option-code octet of every DHCP corpus frame set to every OTHER code that occurs in the frame (and to PAD / END): two
        options become one — the parser concatenates them (RFC 3396), the value can then exceed 255 octets — or the option list is
        re-aligned / cut.  The options are located with the harness's own knowledge of the layout (BOOTP fixed part 236 + cookie 4)."""
        for name, f in self._frames:
            if not name.startswith(("dhcp", "bootp")) or len(f) < 14 + 20 + 8 + 240: continue
            o = 14 + (f[14] & 15) * 4 + 8 + 240
            offs = []
            while o < len(f):
                offs.append(o)
                if f[o] in (0, 255): o += 1
                elif o + 1 < len(f): o += 2 + f[o + 1]
                else: break
            codes = sorted(set(f[i] for i in offs) | {0, 255})
            for i in offs:
                for c in codes:
                    if c != f[i]:
                        yield frame_case(FR.fix_checksums(f[:i] + bytes([c]) + f[i + 1:]), "dhcpcode %s %d %02x" % (name, i, c))

    # ------------------------------------------------------------------ long frames
    # family -> (builder(n), octets per unit, octets of overhead, largest n the model is asked about — its list walkers are quadratic)
    LONG_FAMILIES = collections.OrderedDict([
        ("mpls",          (lambda n: FR.j_mpls(n), 4, 14, 2000)),
        ("mpls-bos-ip",   (lambda n: FR.j_mpls(n, True, FR.j_ip4(17, FR.j_udp(7, 9, b"under the label stack"))), 4, 70, 2000)),
        ("mpls-mcast",    (lambda n: FR.j_mpls(n, False, b"xyz", typ=0x8848), 4, 17, 2000)),
        ("vlan-mpls",     (lambda n: FR.j_mpls(n, False, b"", vlans=3), 4, 26, 2000)),
        ("snap-mpls",     (lambda n: FR.j_snap_mpls(n), 4, 22, 2000)),
        ("vlan",          (lambda n: FR.j_vlan(n), 4, 16, 10 ** 6)),
        ("vlan-ip",       (lambda n: FR.j_vlan(n, 0x0800, FR.j_ip4(17, FR.j_udp(7, 9, b"under the label stack"))), 4, 70, 10 ** 6)),
        ("ip6ext-mix-udp", (lambda n: FR.j_ip6ext(n, "mix", 17, FR.j_udp(1, 2, b"abcd")), 8, 66, 1000)),
        ("ip6ext-hbh-none", (lambda n: FR.j_ip6ext(n, 0, 59, b""), 8, 54, 1000)),
        ("ip6ext-dst-icmp", (lambda n: FR.j_ip6ext(n, 60, 58, FR.j_icmp6(128, 0, bytes(8))), 8, 66, 1000)),
        ("ip6ext-rt-tcp", (lambda n: FR.j_ip6ext(n, 43, 6, FR.j_tcp(b"data")), 8, 78, 1000)),
        ("ip6ext-frag-udp", (lambda n: FR.j_ip6ext(n, 44, 17, FR.j_udp(1, 2, b"abcd")), 8, 66, 1000)),
        ("icmp-unreach",  (lambda n: FR.j_icmp_quote(n, (3,)), 28, 50, 10 ** 6)),
        ("icmp-errors",   (lambda n: FR.j_icmp_quote(n, (3, 11, 11, 3, 5)), 28, 50, 10 ** 6)),
        ("icmp6-errors",  (lambda n: FR.j_icmp6_quote(n, (1, 3, 2, 1)), 48, 70, 10 ** 6)),
        ("gre-ip",        (lambda n: FR.j_gre(n), 24, 22, 10 ** 6)),
        ("gre-eth",       (lambda n: FR.j_gre(n, True), 38, 22, 10 ** 6)),
        ("vxlan",         (lambda n: FR.j_vxlan(n), 50, 16, 10 ** 6)),
        ("dhcp-opts",     (lambda n: FR.j_dhcp(n), 2.84, 290, 1000)),
        ("dhcp-opts3",    (lambda n: FR.j_dhcp(n, 3), 4.7, 290, 1000)),
        ("lldp-tlvs",     (lambda n: FR.j_lldp(n), 5.8, 40, 1000)),
        ("dns-questions", (lambda n: FR.j_dns(n, "q"), 6, 80, 500)),
        ("dns-records",   (lambda n: FR.j_dns(n, "rr"), 18.5, 80, 300)),
        ("dns-ptrchain",  (lambda n: FR.j_dns(n, "ptrchain"), 4, 100, 400)),       # CPython follows a pointer by a nested call: ~970 at most
        ("dns-labels",    (lambda n: FR.j_dns(n, "labels"), 2, 64, 300)),
        ("rip-entries",   (lambda n: FR.j_rip(n), 20, 46, 1000)),
        ("igmp-records",  (lambda n: FR.j_igmp3(n), 10, 42, 1000)),
        ("nd-rs-opts",    (lambda n: FR.j_nd(n, 133), 14, 62, 500)),
        ("nd-ra-opts",    (lambda n: FR.j_nd(n, 134), 14, 70, 500)),
        ("nd-ns-opts",    (lambda n: FR.j_nd(n, 135), 14, 78, 500)),
        ("nd-na-opts",    (lambda n: FR.j_nd(n, 136), 14, 78, 500)),
    ] + [("big-" + k, (lambda n, k=k: FR.j_big(k, n), 1, 150, 10 ** 6)) for k in ("udp", "tcp", "echo", "echo6", "arp", "snap", "eap", "frag", "raw")])

    def long_nmax(self, fam):
        _, unit, over, cap = self.LONG_FAMILIES[fam]
        if fam == "dns-ptrchain": return 4000                         # a pointer has 14 bits
        if fam == "dns-labels": return cap                            # pack() of a long name is cubic in its labels
        if fam == "vxlan": return 150                                 # pack() of nested UDP: exponential in the (guarded) depth, times the frame length
        return int((FR.JUMBO_MAX - over) // unit)

    def long_case(self, fam, n, cut=None):
        build, unit, over, cap = self.LONG_FAMILIES[fam]
        f = build(n)[:FR.JUMBO_MAX]
        if cut is not None: f = f[:max(14, len(f) - cut)]
        return frame_case(f, "long %s %d%s" % (fam, n, "" if cut is None else " cut%d" % cut), model=bool(n <= cap))

    # the fixed part (every run, both tiers): the chains — label stacks (also around the depth at which CPython runs out of stack), tag stacks, encapsulation,
    # error quoting — and the long payloads at the most a packet-in can carry ("max" = long_nmax); the list families (options, TLVs, records,
    # entries, extension headers: parse time linear in n, eight parses per case) at a middle size that the model is asked about.  Their
    # maximum sizes (oracle only: the model's list walkers are quadratic) are in generate(): a seed-dependent four of them in the quick
    # tier, all in the thorough tier.
    LONG_FIXED = {"mpls": (497, 600, 1000, 2000, 4000, "max"), "mpls-bos-ip": (1000, "max"), "mpls-mcast": (800,), "vlan-mpls": (1200,), "snap-mpls": (700,),
                  "vlan": (1000, "max"), "vlan-ip": ("max",), "vxlan": (100,), "dns-ptrchain": (100, 400, 1500, 4000), "dns-labels": (60, 300),
                  "big-udp": (9000, "max"), "big-tcp": (9000, "max")}

    def long_fixed(self):
        # the largest DHCP messages an IPv4 datagram can carry, made of 255-octet options (odd length: re-serialising pads each one)
        for n in (200, 252, 253):
            yield frame_case(FR.j_dhcp255(n), "long dhcp255 %d" % n)
        for fam, (build, unit, over, cap) in self.LONG_FAMILIES.items():
            nmax = self.long_nmax(fam)
            for n in self.LONG_FIXED.get(fam, ("max",) if cap > nmax else (min(cap, nmax) // 2,)):
                yield self.long_case(fam, nmax if n == "max" else n)

    def long_lists_max(self):
        return [fam for fam, (build, unit, over, cap) in self.LONG_FAMILIES.items() if cap <= self.long_nmax(fam) and fam not in self.LONG_FIXED]

    def g_long(self, rng):
        """a family, a size between a few hundred octets beyond the ordinary MTU and the most a packet-in can carry; one in three cut short
        somewhere in the last repeated units (the end of the buffer inside a loop that has run thousands of times)"""
        fam = rng.choice(list(self.LONG_FAMILIES))
        nmax = self.long_nmax(fam)
        lo = max(1, min(nmax, int(LONG // self.LONG_FAMILIES[fam][1]) + 1))
        n = rng.choice([rng.randint(lo, nmax), rng.randint(lo, min(nmax, 4 * lo)), nmax - rng.randrange(3)])
        return self.long_case(fam, max(1, n), rng.randrange(1, 64) if rng.randrange(3) == 0 else None)

    def key_sweeps(self):
        """FULL sweeps, both tiers: all 256 values at
        (1) the protocol-selector / type / code / length fields and option kind+length octets of the innermost header of every corpus frame
            (outer headers are the innermost header of other corpus frames), with the verified checksum repaired where there is one;
        (2) every one of the first 12 bytes of every IGMP message and the first 8 of every ICMPv6 message of the corpus (each type, each size class),
            checksum repaired (icmp.parse does not verify its checksum: ICMP type/code are keys of (1)).
        Frames that only differ from an already swept one before the swept byte's header are not repeated."""
        done = set()
        for name, f in self._frames:
            offs = [] if name in self.SLICED_INNER or name.startswith(self.SLICED_PREFIX) else list(f.inner_keys)
            l4 = self._l4off.get(name)
            nh = max([n for p, n in self.CSUM_HDR.items() if name.startswith(p)] + [0])
            if l4 is not None and nh and name not in ("ip6-ra-m", "ip6-ra-o", "ip6-na-r", "ip6-na-s", "ip6-na-o"):     # same type and size class as ip6-ra / ip6-na
                offs = sorted(set(offs) | set(i for i in range(l4, min(l4 + nh, len(f))) if i not in (l4 + 2, l4 + 3)))
            for i in offs:
                sig = (bytes(f[i:]), i - (min(f.inner_keys) if f.inner_keys else i))
                if sig in done: continue
                done.add(sig)
                for v in range(256):
                    if v == f[i]: continue
                    g = f[:i] + bytes([v]) + f[i + 1:]
                    h = FR.fix_checksums(g)
                    yield frame_case(h, "key%s %s %d %02x" % ("+csum" if h != g else "", name, i, v)), (name, i)

    def corruptions(self, skip):
        """the remaining single-byte corruption sweep, in a fixed order: all 256 values at the other boundary offsets, the 8 single-bit flips
        elsewhere (`skip` = the (frame, offset) pairs that already got the full key sweep)"""
        for name, f in self._frames:
            marks = set(f.marks)
            for i in range(len(f)):
                if (name, i) in skip: continue
                if i in marks:
                    for v in range(256):
                        if v != f[i]: yield name, i, v
                else:
                    for bit in range(8):
                        yield name, i, f[i] ^ (1 << bit)

    def generate(self, rng, tier):
        frames = dict(self._frames)
        # 1. the full key sweeps (not sliced in the quick tier)
        skip = set()
        for c, where in self.key_sweeps():
            skip.add(where); yield c
        # 2. the remaining single-byte corruption: exhaustive (thorough) / a deterministic slice of it (quick; the slice moves with the seed)
        stride = 1 if tier == "thorough" else 64
        phase = rng.randrange(stride)
        for j, (name, i, v) in enumerate(self.corruptions(skip)):
            if j % stride != phase: continue
            f = frames[name]
            g = f[:i] + bytes([v]) + f[i + 1:]
            yield frame_case(g, "set %s %d %02x" % (name, i, v))
            # a parser that verifies a checksum gives up before it looks at the body: also offer the mutant with the checksum recomputed
            h = FR.fix_checksums(g)
            if h != g and self._l4off.get(name) is not None and i >= self._l4off[name]:
                yield frame_case(h, "set+csum %s %d %02x" % (name, i, v))
        # 3. structure-aware and random
        n = 2500 if tier == "quick" else 90000
        for _ in range(n):
            yield self.g_structured(rng)
        # 4. long frames, LAST (a change that makes parse results accumulate between frames — a class-level list — would make every later
        # case pay for their thousands of elements): the fixed sizes (both tiers), the list families at the most a packet-in can carry, then
        # random families and sizes
        for c in self.long_fixed(): yield c
        lists = self.long_lists_max()
        for fam in (sorted(rng.sample(lists, 4)) if tier == "quick" else lists):
            yield self.long_case(fam, self.long_nmax(fam))
        for _ in range(8 if tier == "quick" else 120):
            yield self.g_long(rng)

    def g_structured(self, rng):
        name, f = rng.choice(self._frames)
        c = rng.randrange(10)
        b = bytearray(f)
        if c < 4 and f.marks:
            # several boundary bytes at once, values from the interesting set
            for _ in range(rng.choice([2, 2, 3, 4])):
                i = rng.choice(f.marks)
                b[i] = rng.choice([0, 1, 2, 3, 4, 5, 6, 7, 8, 0x0f, 0x10, 0x3f, 0x40, 0x45, 0x4f, 0x50, 0x60, 0x7f, 0x80, 0xc0, 0xf0, 0xfe, 0xff, rng.randrange(256)])
            if rng.random() < 0.3: b = b[:rng.randint(14, len(b))]
            if rng.random() < 0.7: b = FR.fix_checksums(b)
            return frame_case(b, "marks " + name)
        if c < 6:
            # splice: header part of one frame, tail of another
            n2, g = rng.choice(self._frames)
            i = rng.choice(f.marks) if f.marks else 14
            j = rng.choice(g.marks) if g.marks else 14
            return frame_case(bytes(f[:i]) + bytes(g[j:]), "splice %s %s" % (name, n2))
        if c < 7:
            # insert / delete / duplicate a run at a boundary
            i = rng.choice(f.marks) if f.marks else 0
            k = rng.choice([1, 2, 3, 4, 8])
            w = rng.randrange(3)
            if w == 0: b[i:i] = bytes(rng.getrandbits(8) for _ in range(k))
            elif w == 1: del b[i:i + k]
            else: b[i:i] = b[i:i + k]
            return frame_case(b, "indel " + name)
        if c < 8:
            return self.g_nest(rng)
        # random frames (mostly with a recognised ethertype so that a parser is entered)
        n = rng.choice([0, 1, 13, 14, 15, 17, 18, 21, 22, 34, 38, 42, 54, 60, 64, 100, 300])
        r = bytearray(rng.getrandbits(8) for _ in range(n))
        if n >= 14 and rng.random() < 0.85:
            r[12:14] = rng.choice([b"\x08\x00", b"\x81\x00", b"\x08\x06", b"\x80\x35", b"\x86\xdd", b"\x88\xcc", b"\x88\x8e", b"\x88\x47", b"\x88\x48", b"\x00\x20", b"\x05\xdc"])
            if n > 23 and r[12:14] == b"\x08\x00" and rng.random() < 0.8:
                r[14] = rng.choice([0x45, 0x45, 0x46, 0x4f, 0x44]); r[23] = rng.choice([1, 2, 6, 17, 47]); r[20] &= 0xe0; r[21] = 0
                if rng.random() < 0.7: r[16:18] = struct.pack("!H", n - 14)
        return frame_case(r, "random")

    def g_nest(self, rng):
        """deep encapsulation within one frame: the recursion depth of the parsers is bounded only by the frame length (plain-bytes builders:
        the marks of FR.cat cost quadratic time in the depth)"""
        S = struct.pack
        w = rng.randrange(5)
        k = rng.choice([1, 2, 5, 20, 60, 150, 340, 370])
        if w == 0:
            return frame_case(FR.j_eth(0x8100, S("!HH", 0xaabc, 0x8100) * (k - 1) + S("!HH", 0xaabc, 0x9999) + b"ab"), "nest vlan %d" % k)
        if w == 1:
            k = min(k, 50)
            p = FR.j_ip4(17, FR.j_udp(1, 2, b"12345678"))
            for _ in range(k): p = FR.j_ip4(1, FR.j_icmp(rng.choice([3, 11]), 0, bytes(4) + p))
            return frame_case(FR.j_eth(0x0800, p), "nest icmp-error %d" % k)
        if w == 2:
            p = b"bottom"
            for i in range(k): p = S("!HBB", i >> 4, ((i & 0xf) << 4) | (3 << 1) | (1 if i == 0 else 0), 64) + p
            return frame_case(FR.j_eth(0x8847, p), "nest mpls %d" % k)
        if w == 3:
            return frame_case(FR.j_gre(min(k, 40)), "nest gre %d" % min(k, 40))
        k = min(k, 6)            # pack() of nested UDP is exponential in the depth (udp.checksum packs the payload again)
        return frame_case(FR.j_vxlan(k), "nest vxlan %d" % k)

    def search_cases(self, rng, tier):
        for c in self.corpus(): yield c
        for c in self.generate(rng, "thorough"): yield c

    def extra_evidence(self):
        for fid, kf in sorted(self.soft_known.items()):
            print("KNOWN-FINDING: property=%s %s %s" % (self.id, fid, kf.get("what", "")))
        return {"python_O_pass": getattr(self, "optpass", None), "repairs_detected_by_behaviour": self.fixes + self.vars, "variant_notes": self.variant_notes, "known_pack_print_findings_hit": sorted(self.soft_known), "distinct_failure_keys": dict(sorted(self.keys_seen.items())), "technique": self.technique, "level_text": self.level_text, "level_note": self.level_note, "design_ref": self.design_ref}

C15.theorems = ["Pox.C15." + t for t in (
    # part I: the tree as it is
    "parse_total", "parse_total_any_var", "progress_recorded", "print_total", "repack_total", "repack_total_cutoff", "tcp_options_fuel", "refines_c14",
    # part II: every combination of repairs
    "parse_total_with", "parse_total_fixed", "parse_total_guarded", "progress_recorded_with", "repack_total_with", "print_total_with",
    # part III: reverted trees, regression witnesses
    "parse_total_partial", "parse_total_of_no_known", "nesting_defect",
    "lldp_d14_defect", "lldp_tlv_malformed_defect", "llc_print_defect", "lldp_print_defect", "tcp_repack_defect",
    "known_k5v", "known_k5i", "known_k6", "known_k7", "known_k8", "known_k9", "known_k10", "known_k13", "known_k14", "known_witnesses_repaired",
    "nesting_guard_witness", "dns_names_witness")]
C15.level_text = (
    "Proved in Lean for EVERY byte string offered to ethernet(raw=...) (= PacketIn.parsed), for a model in which every struct.unpack of a wrong-size slice, "
    "index past the end, ord() of an empty slice, deliberate raise, assert and %-format of None is an error. HEADLINE (the tree as it is: Cfg.current = all "
    "repairs K1, K5..K16, D46, D48, D49, D50 in, which the run confirms by probing the tree's behaviour): with 35 nested constructor activations the code "
    "returns, for every input however long or nested, an object chain that covers and tiles the input and whose only opaque layer can be a TCP segment with the "
    "MPTCP option (parse_total - no hypothesis on the input, no registered finding left; progress_recorded); str()/dump() of every result without an MPTCP "
    "layer is defined, phase-2 classes included (print_total); pack() is defined for every result inside the pack model: the phase-1 classes and mpls / eapol / "
    "eap behind the frame-level headers (repack_total; repack_total_cutoff: also where the interpreter ran out of stack in the middle of a label stack "
    "and the rest of it was kept as bytes). The same holds for every other combination of repairs a tree may have (parse_total_with: only the "
    "findings NOT repaired can raise, within len/4+1 activations; parse_total_guarded: the nesting guard alone discharges the budget; ..._with). Regression "
    "witnesses of reverted trees: nesting_defect (a frame of 14+4d bytes raises RecursionError for every budget d without K1), known_k* (one decided witness "
    "per registered finding, each parsing once its repair is in: known_witnesses_repaired), nesting_guard_witness, dns_names_witness (a compression-pointer "
    "loop and a non-UTF-8 label make dns.parse give up inside its try/except), five defects of the tree before the phase-1 repairs. Paths covered: Ethernet -> "
    "802.1Q (nested) / LLC-SNAP -> ARP / IPv4(+options) -> ICMP echo/unreachable/time-exceeded (quoted datagram, nested) / TCP (+option parser; its loop never "
    "runs out of model fuel: tcp_options_fuel) / UDP, LLDP with all TLV classes, MPLS, EAPOL/EAP, IPv6 + extension-header chain, ICMPv6 + NDP RS/RA/NS/NA with "
    "the option walker, IGMP v1-v3, GRE (+source routing), VXLAN, RIP, DHCP (fixed part + option walker), DNS (questions, records, name decompression). The "
    "phase-1 model returns what the total C14 parser returns (refines_c14). Every run re-checks BOTH models (phase-2 parsers modelled / left foreign) against the "
    "real classes on every truncation and single-byte corruption of 160 valid frames covering all 21 modules, and evaluates the oracle: nothing raises in "
    "parse, PacketIn.parsed, str(), pack(), str() again, dump(), pack() again (same bytes), len(), find(); the same bytes parsed again after a different frame went through the "
    "process give the same result; the same for long frames of up to 65000 octets (what a packet-in can carry) made of thousands of repeated label stack entries, "
    "tags, extension headers, quoted errors, encapsulations, options, TLVs, records and compression pointers, compared with the model in digest form; real PacketIn events for the corpus and one generated frame in sixteen into the l2_learning (plain and transparent; flood, "
    "drop and flow-install paths with ofp_match.from_packet) and discovery handlers return.")
C15.level_note = (
    "The theorems are about the hand-written model Model/PacketParse.lean; they are tied to the code only by the differential run. PARTIAL: what a TCP segment "
    "carrying the MPTCP option parses to is outside the model (`foreign`; the theorems say it is the only such layer; tcp.parse wraps parse_options in except "
    "Exception; oracle only); the DHCP option *classes* are not modelled (unpackOptions wraps each in try/except and falls back to the raw bytes; the model keeps "
    "code + bytes); pack() of the phase-2 classes other than mpls, eapol, eap is not modelled (oracle only: extending it needs the header-range facts of every "
    "class in the parse invariant and length bounds for what sits inside IPv4/UDP; C14's PacketExt has per-class hdr lemmas but no general pack theorem); "
    "str() of an object whose parse gave up prints constructor defaults and is checked by the oracle only. K14 (before its repair) is over-approximated. DNS: the "
    "model follows up to 1025 compression pointers per name (more than the interpreter's stack allows the code to follow); CPython gives up (caught "
    "RecursionError) when a chain is longer than the stack it has left - about 970 hops; between that and 1025 the model says parsed and the "
    "code says unparsed; neither raises (chains of 400 hops are model-compared, chains of 1500 and 4000 are checked by the oracle). An MPLS label stack is parsed "
    "by one nested constructor per entry outside the nesting guard; where the interpreter runs out of stack (about 490 entries) mpls.parse's bare except keeps the "
    "rest as bytes: the model is given the number of activations observed on the implementation for exactly those frames (a parsed entry without the bottom-of-stack "
    "bit, another entry's worth of octets kept as bytes, at least 250 layers down) and its own budget (never exhausted) everywhere else. The model's list walkers are "
    "quadratic: option / TLV / record / extension-header lists of more than 300-1000 elements and label stacks of more than 2000 entries are oracle-only. struct.pack('!I', len) in the ICMPv6 checksum is assumed not to overflow (frames < 4 GiB). Python's recursion limit is "
    "modelled abstractly as a number of nested constructor activations (CPython spends 2-3 frames per nested header). The print model contains the operations that "
    "can raise (%d/%i/%x conversions, the llc / lldp cases found in phase 1) and the try/except of packet_base.__str__ around _to_str. Exponential time of pack() on "
    "nested UDP encapsulation is outside the property. Event handlers are not modelled: the oracle drives l2_learning and discovery with real PacketIn events "
    "(LLDP frames addressed to the discovery multicast 01:23:20:00:00:01 reach the handler's body); other components' handlers are out of scope. The variant of "
    "the tree is decided by behaviour probes (one frame per repair); the shape of the source is a cross-check only (evidence field variant_notes).")
C15.trusted_base = [
    "model Model/PacketParse.lean (reusing the header records, struct layouts, hdr() and TCP option models of Model/PacketHdr.lean, C14) hand-written from pox/lib/packet; tied by this correspondence run",
    "harness/c15_frames.py: hand-written wire builders for the corpus of valid frames; harness/c15.py: mutation engines, canonicalisation of the object chain, the oracle"]
C15.assumptions = [
    "struct.unpack raises exactly when the slice size differs from the format size; slicing never raises; bytes indexing raises IndexError past the end",
    "without the K1 repair: the interpreter allows len(frame)/4 + 1 nested constructor activations (about 3 Python frames each) below the handler that touches event.parsed; with it: 35",
    "event handlers other than l2_learning.LearningSwitch._handle_PacketIn and discovery.Discovery._handle_openflow_PacketIn (oracle only, not modelled) are out of scope",
    "logging calls (self.msg / lg.debug) do not raise",
    "little-endian host (checksum model, as in C14)"]

CHECK = C15
