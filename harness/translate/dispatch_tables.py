"""Translator for C13: emits lean/PoxModel/Generated/SwitchDispatch.lean — what the switch dispatches on NOW.

Primary source (runtime probe): a child Python process with $POX_REPO on its path instantiates the real
`pox.datapaths.switch.SoftwareSwitch` and reads the four handler tables the constructor built
(`ofp_handlers`, `stats_handlers`, `flow_mod_handlers`, `action_handlers`: key -> name of the bound method) together with
the library's class-level registries (`_message_type_to_class` with the direction flags, `_stats_type_to_class_info`) and
its integer constants.  That is what the code does, whatever the shape of its source (helper functions, comprehensions,
renamed locals do not matter).

Fallback (only if the probe cannot run): the former `ast` reading of the registration loops in
`SoftwareSwitchBase.__init__` and of the class decorators of libopenflow_01.py; it recognises only the original loop shape
and says so otherwise.

Emitted: `dispatch : Tables`, `msgClasses`, `statsRequestClasses`, the constants as `def NAME : Nat`.
The model (Model/SwitchReq.lean) states its own tables by hand; `Properties/C13.lean` proves by `decide` that they are
equal, that every controller-to-switch type of the standard has a handler and which keys the tables have.  A handler
that is removed, renamed, registered under another code or mapped to another method breaks the build of the property
on the next run.  (What a handler SENDS is not read from the source any more — it is the business of the
correspondence run and the oracle.)
"""
import ast, os, re, sys

SWITCH = "pox/datapaths/switch.py"
LIBOF = "pox/openflow/libopenflow_01.py"
SWITCH_CLASSES = ("SoftwareSwitchBase", "SoftwareSwitch")       # what harness/swnet.py instantiates (MRO, base first)


class Untranslatable(Exception):
    pass


def fold(node, env):
    """constant-fold a small integer expression"""
    if isinstance(node, ast.Constant) and isinstance(node.value, int) and not isinstance(node.value, bool):
        return node.value
    if isinstance(node, ast.Name) and node.id in env:
        return env[node.id]
    if isinstance(node, ast.UnaryOp) and isinstance(node.op, ast.USub):
        v = fold(node.operand, env); return None if v is None else -v
    if isinstance(node, ast.BinOp):
        a, b = fold(node.left, env), fold(node.right, env)
        if a is None or b is None: return None
        ops = {ast.LShift: lambda: a << b, ast.RShift: lambda: a >> b, ast.BitOr: lambda: a | b, ast.BitAnd: lambda: a & b,
               ast.Add: lambda: a + b, ast.Sub: lambda: a - b, ast.Mult: lambda: a * b}
        f = ops.get(type(node.op))
        return f() if f else None
    return None


def read_library(repo):
    """constants, code->name maps (from literal *_rev_map dicts and from the class decorators), message classes"""
    tree = ast.parse(open(os.path.join(repo, LIBOF)).read())
    consts, revmaps = {}, {}
    msg_classes, stats_req = [], {}
    deco_maps = {"ofp_type": {}, "ofp_action_type": {}, "ofp_stats_type": {}}
    flags = {"openflow_message": None, "openflow_sc_message": (True, True), "openflow_c_message": (True, False),
             "openflow_s_message": (False, True)}                       # (from_controller, from_switch)
    for node in tree.body:
        if isinstance(node, ast.Assign) and len(node.targets) == 1 and isinstance(node.targets[0], ast.Name):
            name = node.targets[0].id
            if isinstance(node.value, ast.Dict) and name.startswith("ofp_") and name.endswith("_rev_map"):
                d = {}
                for k, v in zip(node.value.keys, node.value.values):
                    if not (isinstance(k, ast.Constant) and isinstance(k.value, str)):
                        raise Untranslatable("%s: non-literal key" % name)
                    val = fold(v, consts)
                    if val is None:
                        raise Untranslatable("%s[%s]: value is not a constant integer expression" % (name, k.value))
                    d[k.value] = val
                revmaps[name[:-8]] = d
                consts.update(d)                                        # _init() turns every entry into a module global
            else:
                v = fold(node.value, consts)
                if v is not None and name.isupper():
                    consts[name] = v
        elif isinstance(node, ast.ClassDef):
            for dec in node.decorator_list:
                if not (isinstance(dec, ast.Call) and isinstance(dec.func, ast.Name)):
                    continue
                fn = dec.func.id
                args = dec.args
                if fn in flags:
                    if len(args) < 2: raise Untranslatable("decorator of %s" % node.name)
                    nm, code = args[0].value, fold(args[1], consts)
                    fc, fs = flags[fn] if flags[fn] else (False, False)
                    for kw in dec.keywords:
                        if kw.arg == "controller": fc = bool(kw.value.value)
                        if kw.arg == "switch": fs = bool(kw.value.value)
                    deco_maps["ofp_type"][code] = nm
                    consts[nm] = code
                    msg_classes.append((node.name, code, fc, fs))
                elif fn == "openflow_action":
                    nm, code = args[0].value, fold(args[1], consts)
                    deco_maps["ofp_action_type"][code] = nm
                    consts[nm] = code
                elif fn in ("openflow_stats_request", "openflow_stats_reply"):
                    nm = args[0].value
                    code = fold(args[1], consts) if len(args) > 1 else None
                    for kw in dec.keywords:
                        if kw.arg == "type_val": code = fold(kw.value, consts)
                    if code is not None:
                        deco_maps["ofp_stats_type"][code] = nm
                        consts[nm] = code
                    if fn == "openflow_stats_request":
                        stats_req[nm] = node.name
    maps = {}
    for base, d in revmaps.items():                                     # forward maps built by _init()
        fwd = {v: k for k, v in d.items()}
        if len(fwd) == len(d):
            maps[base + "_map"] = fwd
        maps[base + "_rev_map"] = dict(d)
    for base, d in deco_maps.items():
        maps[base + "_map"] = dict(d)
        maps[base + "_rev_map"] = {v: k for k, v in d.items()}
    stats_req_by_code = sorted((maps["ofp_stats_type_rev_map"][nm], cls) for nm, cls in stats_req.items()
                               if nm in maps["ofp_stats_type_rev_map"])
    return consts, maps, sorted(msg_classes, key=lambda t: (t[1], t[0])), stats_req_by_code


def read_switch(repo):
    tree = ast.parse(open(os.path.join(repo, SWITCH)).read())
    classes = {n.name: n for n in tree.body if isinstance(n, ast.ClassDef)}
    for c in SWITCH_CLASSES:
        if c not in classes: raise Untranslatable("class %s not found in %s" % (c, SWITCH))
    methods = {}
    for c in SWITCH_CLASSES:                                            # later classes override
        for n in classes[c].body:
            if isinstance(n, ast.FunctionDef):
                methods[n.name] = n
    init = next((n for n in classes[SWITCH_CLASSES[0]].body if isinstance(n, ast.FunctionDef) and n.name == "__init__"), None)
    if init is None: raise Untranslatable("no __init__")
    return classes, methods, init


def registration_loops(init):
    """recognise
         self.T = {}
         for A,B in M.items():
           name = name.split("PFX",1)[-1].lower()
           h = getattr(self, "_meth_" + name, None)
           if not h: continue
           [assert … | if getattr(self.features, "act_" + name) is False: continue]
           self.T[value] = h
       → {T: (M, key_is_code, PFX, "_meth_", extra)}"""
    out = {}
    for st in init.body:
        if not isinstance(st, ast.For): continue
        it = st.iter
        if not (isinstance(it, ast.Call) and isinstance(it.func, ast.Attribute) and it.func.attr == "items"
                and isinstance(it.func.value, ast.Name) and isinstance(st.target, ast.Tuple) and len(st.target.elts) == 2):
            continue
        mapname = it.func.value.id
        a, b = (e.id for e in st.target.elts)
        split_pfx = meth_pfx = table = keyvar = None
        extra = []
        for s in st.body:
            src = ast.unparse(s)
            mo = re.fullmatch(r"name = name\.split\('(\w+)', 1\)\[-1\]\.lower\(\)", src)
            if mo: split_pfx = mo.group(1); continue
            mo = re.fullmatch(r"h = getattr\(self, '(\w+)' \+ name, None\)", src)
            if mo: meth_pfx = mo.group(1); continue
            if re.fullmatch(r"if not h:\n\s+continue", src): continue
            mo = re.fullmatch(r"self\.(\w+)\[(\w+)\] = h", src)
            if mo: table, keyvar = mo.group(1), mo.group(2); continue
            if isinstance(s, ast.Assert):
                extra.append("assert:" + ast.unparse(s.test)); continue
            mo = re.fullmatch(r"if getattr\(self\.features, 'act_' \+ name\) is False:\n\s+continue", src)
            if mo: extra.append("features"); continue
            raise Untranslatable("registration loop over %s: unrecognised statement %r" % (mapname, src))
        if None in (split_pfx, meth_pfx, table, keyvar):
            raise Untranslatable("registration loop over %s: incomplete pattern" % mapname)
        if keyvar != "value" or "name" not in (a, b) or "value" not in (a, b):
            raise Untranslatable("registration loop over %s: unexpected loop variables" % mapname)
        code_first = (a == "value")                                      # for value,name in code->name map
        out[table] = (mapname, code_first, split_pfx, meth_pfx, extra)
    return out


def default_features(init):
    """`self.features.act_x = True` assignments of the default-features branch"""
    on = set()
    for n in ast.walk(init):
        if isinstance(n, ast.Assign) and len(n.targets) == 1:
            t = ast.unparse(n.targets[0])
            mo = re.fullmatch(r"self\.features\.(act_\w+)", t)
            if mo and isinstance(n.value, ast.Constant) and n.value.value is True:
                on.add(mo.group(1))
    return on


def build_table(loop, maps, methods, msg_classes, features_on):
    mapname, code_first, split_pfx, meth_pfx, extra = loop
    if mapname not in maps: raise Untranslatable("map %s not found in the library" % mapname)
    m = maps[mapname]
    items = m.items() if code_first else ((v, k) for k, v in m.items())
    if not code_first:
        items = ((code, nm) for nm, code in m.items())
    rows = []
    for code, nm in items:
        low = nm.split(split_pfx, 1)[-1].lower()
        meth = meth_pfx + low
        if meth not in methods: continue
        if "features" in extra and ("act_" + low) not in features_on: continue
        for e in extra:
            if e.startswith("assert:") and "_from_controller" in e:
                ok = [fc for (_, c, fc, _) in msg_classes if c == code]
                if not ok or not ok[-1]:
                    raise Untranslatable("constructor assertion fails: %s registered for a class that is not from the controller" % meth)
        rows.append((code, meth))
    return sorted(rows)


def lean_str(s):
    return '"' + s.replace("\\", "\\\\").replace('"', '\\"') + '"'


def lean_list(items, per_line=4, indent="    "):
    if not items: return "[]"
    lines, cur = [], []
    for it in items:
        cur.append(it)
        if len(cur) == per_line:
            lines.append(", ".join(cur)); cur = []
    if cur: lines.append(", ".join(cur))
    return "[" + (",\n" + indent).join(lines) + "]"


CONST_PREFIXES = ("OFPET_", "OFPHFC_", "OFPBRC_", "OFPBAC_", "OFPFMFC_", "OFPPMFC_", "OFPQOFC_", "OFPP_", "OFPPC_", "OFPPS_", "OFPFF_", "OFPFC_",
                  "OFPRR_", "OFPPR_", "OFPR_", "OFPC_FRAG_")
CONST_NAMES = ("OFPQ_ALL", "TABLE_ALL", "NO_BUFFER", "OFPFW_ALL", "OFPPF_10MB_HD")

PROBE = r"""
import sys, json, logging, unittest          # unittest first: pox.core then creates a core object on import
logging.disable(logging.CRITICAL)
import contextlib, io
with contextlib.redirect_stdout(io.StringIO()):
    import pox.core
    import pox.openflow.libopenflow_01 as of
    from pox.datapaths.switch import SoftwareSwitch
    sw = SoftwareSwitch(dpid=1, ports=0)
def name(h):
    n = getattr(h, "__name__", None)
    if n is None or getattr(h, "__self__", None) is not sw:
        return "?" + (n or type(h).__name__)            # not a method of this switch: shows up as a table mismatch
    return n
out = {"tables": {}}
for attr in ("ofp_handlers", "stats_handlers", "flow_mod_handlers", "action_handlers"):
    out["tables"][attr] = sorted([int(k), name(h)] for k, h in getattr(sw, attr).items())
out["msg_classes"] = sorted([c.__name__, int(t), bool(getattr(c, "_from_controller", False)), bool(getattr(c, "_from_switch", False))]
                            for t, c in of._message_type_to_class.items())
out["stats_req"] = sorted([int(t), i.request.__name__] for t, i in of._stats_type_to_class_info.items()
                          if isinstance(t, int) and i.request is not None)
out["consts"] = {k: v for k, v in vars(of).items() if k.isupper() and type(v) is int and v >= 0}
sys.stdout.write("PROBE-JSON:" + json.dumps(out))
"""


def probe(repo):
    """ask the code itself (child process, so that nothing of it is imported here)"""
    import subprocess, json
    env = dict(os.environ, PYTHONPATH=repo, PYTHONHASHSEED="0", PYTHONDONTWRITEBYTECODE="1")
    p = subprocess.run([sys.executable, "-c", PROBE], env=env, cwd="/tmp", stdout=subprocess.PIPE, stderr=subprocess.PIPE, text=True, timeout=120)
    mark = p.stdout.rfind("PROBE-JSON:")
    if p.returncode != 0 or mark < 0:
        raise Untranslatable("runtime probe failed: %s" % (p.stderr.strip().splitlines()[-1:] or [p.returncode]))
    d = json.loads(p.stdout[mark + len("PROBE-JSON:"):])
    t = d["tables"]
    tables = {"rx": [tuple(x) for x in t["ofp_handlers"]], "stats": [tuple(x) for x in t["stats_handlers"]],
              "flowMod": [tuple(x) for x in t["flow_mod_handlers"]], "action": [tuple(x) for x in t["action_handlers"]]}
    msg_classes = sorted((tuple(x) for x in d["msg_classes"]), key=lambda c: (c[1], c[0]))
    return tables, msg_classes, [tuple(x) for x in d["stats_req"]], d["consts"], "runtime probe of SoftwareSwitch(dpid=1, ports=0)"


def from_source(repo):
    """fallback: the registration loops and decorators as written"""
    consts, maps, msg_classes, stats_req = read_library(repo)
    classes, methods, init = read_switch(repo)
    loops = registration_loops(init)
    need = {"ofp_handlers": "rx", "stats_handlers": "stats", "flow_mod_handlers": "flowMod", "action_handlers": "action"}
    for t in need:
        if t not in loops: raise Untranslatable("constructor no longer builds self.%s with the known loop" % t)
    feats = default_features(init)
    tables = {lean: build_table(loops[t], maps, methods, msg_classes, feats) for t, lean in need.items()}
    return tables, msg_classes, stats_req, consts, "ast reading of the source (runtime probe unavailable)"


def generate(repo):
    try:
        tables, msg_classes, stats_req, consts, how = probe(repo)
    except Exception as e:
        try:
            tables, msg_classes, stats_req, consts, how = from_source(repo)
        except Exception as e2:
            raise Untranslatable("%s; source fallback: %s" % (e, e2))
    used = {k for k in consts if (k.startswith(CONST_PREFIXES) or k in CONST_NAMES) and re.fullmatch(r"[A-Z][A-Z0-9_]*", k) and consts[k] >= 0}

    L = []
    L.append("/-! GENERATED by harness/translate/dispatch_tables.py from %s and %s — do not edit.\n"
             "    Handler tables of the switch object, message classes, stats request classes, constants (%s). -/" % (SWITCH, LIBOF, how))
    L.append("namespace Pox.Generated.SwitchDispatch\n")
    L.append("/-- code ↦ method name, sorted by code: `ofp_handlers`, `stats_handlers`, `flow_mod_handlers`, `action_handlers` -/")
    L.append("structure Tables where\n  rx : List (Nat × String)\n  stats : List (Nat × String)\n  flowMod : List (Nat × String)\n  action : List (Nat × String)\n  deriving DecidableEq, Repr\n")
    L.append("def dispatch : Tables where")
    for lean in ("rx", "stats", "flowMod", "action"):
        L.append("  %s := %s" % (lean, lean_list(["(%d, %s)" % (c, lean_str(m)) for c, m in tables[lean]])))
    L.append("")
    L.append("/-- (class, OFPT code, from_controller, from_switch) of every message class, sorted by code -/")
    L.append("def msgClasses : List (String × Nat × Bool × Bool) :=\n  %s\n" % lean_list(
        ["(%s, %d, %s, %s)" % (lean_str(n), c, str(bool(fc)).lower(), str(bool(fs)).lower()) for n, c, fc, fs in msg_classes], 2, "   "))
    L.append("/-- (OFPST code, request body class) -/")
    L.append("def statsRequestClasses : List (Nat × String) :=\n  %s\n" % lean_list(["(%d, %s)" % (c, lean_str(n)) for c, n in stats_req], 3, "   "))
    for k in sorted(used):
        L.append("def %s : Nat := %d" % (k, consts[k]))
    L.append("\nend Pox.Generated.SwitchDispatch\n")
    return "\n".join(L)


def main(repo, out):
    text = generate(repo)
    sys.path.insert(0, os.path.dirname(os.path.dirname(os.path.abspath(__file__))))
    import common
    changed = common.write_if_changed(out, text)
    return [(out, changed)]


if __name__ == "__main__":
    repo = sys.argv[1] if len(sys.argv) > 1 else os.environ.get("POX_REPO", "/repo")
    print(generate(repo))
