"""Reads lean/PoxModel/Spec/OF10Layouts.lean (the one transcription of openflow.h) as text and gives the harness the same
layouts as Python data, so that the property oracle of C01 can compare `pack()` with the standard's layout without the Lean
build (which is broken exactly when the source no longer has that layout).  No second transcription: everything comes from
the `def … : List Field := […]`, `def … : Layout := ⟨…, tail⟩` and `def table …` texts of that file.

Layout = (fixed, tail); fixed items are ('uint', name, w) | ('pad', n) | ('blob', name, n) | ('zstr', name, n) | ('lenSelf', w) |
('const', w, v); tail is None | ('rest', name) | ('list', name, family)."""
import re, os

FIELD_RE = re.compile(r'\.(uint|blob|zstr)\s+"([^"]*)"\s+(\d+)|\.(pad|lenSelf)\s+(\d+)|\.const\s+(\d+)\s+(\d+)')
TAIL_RE = re.compile(r'\.none|\.rest\s+"([^"]*)"|\.list\s+"([^"]*)"\s+"([^"]*)"')


class SpecError(Exception):
    pass


def strip_comments(src):
    out, i, depth, n = [], 0, 0, len(src)
    while i < n:
        if src.startswith("/-", i): depth += 1; i += 2; continue
        if depth and src.startswith("-/", i): depth -= 1; i += 2; continue
        if depth: i += 1; continue
        if src.startswith("--", i):
            while i < n and src[i] != "\n": i += 1
            continue
        out.append(src[i]); i += 1
    return "".join(out)


def parse_fields(expr, lists):
    """`ofp_header ++ [.uint "x" 2, …]`, `[…]`, or a name of a `List Field` definition"""
    fixed = []
    for part in [p.strip() for p in expr.split("++")]:
        if part.startswith("["):
            for m in FIELD_RE.finditer(part):
                if m.group(1): fixed.append((m.group(1), m.group(2), int(m.group(3))))
                elif m.group(4): fixed.append((m.group(4), int(m.group(5))))
                else: fixed.append(('const', int(m.group(6)), int(m.group(7))))
        elif part in lists:
            fixed += lists[part]
        elif part:
            raise SpecError("unknown field list %r" % part)
    return fixed


def parse_tail(t):
    m = TAIL_RE.fullmatch(t.strip())
    if not m: raise SpecError("tail %r" % t)
    if m.group(0) == ".none": return None
    if m.group(1) is not None: return ('rest', m.group(1))
    return ('list', m.group(2), m.group(3))


def split_top(s, sep=","):
    """split at separators that are not inside brackets / angle brackets / strings"""
    out, depth, cur, instr = [], 0, "", False
    for ch in s:
        if ch == '"': instr = not instr
        if not instr:
            if ch in "[⟨(": depth += 1
            elif ch in "]⟩)": depth -= 1
            elif ch == sep and depth == 0:
                out.append(cur); cur = ""; continue
        cur += ch
    if cur.strip(): out.append(cur)
    return out


def parse_layout_expr(e, lists, layouts):
    e = e.strip()
    if e.startswith("⟨") and e.endswith("⟩"):
        parts = split_top(e[1:-1])
        if len(parts) != 2: raise SpecError("layout %r" % e)
        return (parse_fields(parts[0], lists), parse_tail(parts[1]))
    if e in layouts: return layouts[e]
    raise SpecError("unknown layout %r" % e)


def load(path=None, base=None):
    """-> dict(lists, layouts, table {class: layout}, messageClass {code: class})"""
    if path is None:
        here = os.path.dirname(os.path.dirname(os.path.dirname(os.path.abspath(__file__))))
        path = os.path.join(here, "lean", "PoxModel", "Spec", "OF10Layouts.lean")
    src = strip_comments(open(path).read())
    # definitions end at the next `def`/`theorem`/`end`
    defs = re.split(r'\n(?=def |theorem |end )', src)
    lists, layouts, table, msgclass = {}, {}, {}, {}
    if base is not None:                       # another Spec file refers to the lists of the base file as `OF10.<name>`
        for k, v in base["lists"].items():
            lists["OF10." + k] = v; lists["Spec.OF10." + k] = v
    for d in defs:
        m = re.match(r'def\s+(\w+)\s*:\s*(.+?)\s*:=\s*(.*)', d, re.S)
        if not m: continue
        name, typ, body = m.group(1), " ".join(m.group(2).split()), " ".join(m.group(3).split())
        if typ == "List Field":
            lists[name] = parse_fields(body, lists)
        elif typ == "Layout":
            layouts[name] = parse_layout_expr(body, lists, layouts)
        elif name == "table":
            inner = body.strip()[1:-1]
            for ent in split_top(inner):
                ent = ent.strip()
                mm = re.match(r'\(\s*"([^"]+)"\s*,\s*(.*)\)$', ent, re.S)
                if not mm: raise SpecError("table entry %r" % ent)
                table[mm.group(1)] = parse_layout_expr(mm.group(2), lists, layouts)
        elif name == "messageClass":
            for mm in re.finditer(r'\(\s*(\d+)\s*,\s*"([^"]+)"\s*\)', body):
                msgclass[int(mm.group(1))] = mm.group(2)
    if not table and base is None: raise SpecError("no `table` in " + path)
    if base is not None:
        layouts = {k: v for k, v in layouts.items()}
    return dict(lists=lists, layouts=layouts, table=table, messageClass=msgclass)


def fixed_size(fixed):
    return sum(f[2] if f[0] in ('uint', 'blob', 'zstr') else f[1] for f in fixed)


def encode(layout, vals, tail_bytes):
    """the bytes the standard's structure has for these field values (big-endian integers, zero pads, zero padded strings,
    `lenSelf` = total length); raises ValueError where a value does not fit its field"""
    fixed, tail = layout
    if (tail is None) != (tail_bytes is None): raise ValueError("tail kind")
    tb = tail_bytes or b""
    tot = fixed_size(fixed) + len(tb)
    out = b""
    for f in fixed:
        if f[0] == 'uint': out += int(vals[f[1]]).to_bytes(f[2], "big")
        elif f[0] == 'pad': out += bytes(f[1])
        elif f[0] == 'blob':
            b = vals[f[1]]
            if len(b) != f[2]: raise ValueError("blob %s has %d bytes, the structure has %d" % (f[1], len(b), f[2]))
            out += b
        elif f[0] == 'zstr':
            b = vals[f[1]]
            if len(b) > f[2]: raise ValueError("string %s too long" % f[1])
            out += b + bytes(f[2] - len(b))
        elif f[0] == 'lenSelf': out += tot.to_bytes(f[1], "big")
        elif f[0] == 'const': out += f[2].to_bytes(f[1], "big")
    return out + tb


if __name__ == "__main__":
    s = load()
    for k, (fx, tl) in sorted(s["table"].items()):
        print("%-32s %4d %s" % (k, fixed_size(fx), tl))
    print(len(s["table"]), "classes;", len(s["messageClass"]), "message codes")
